"""C14 Collision pair selection is complete and respects the filters.

Decided on src/engine/engine_collision_driver.c (clang AST, nothing is run):

  R-FINITE    * the bitmask filter (the callee that receives the contype/conaffinity fields) composed with the argument binding
                of EVERY call site equals the documented rule  skip <=> !((contype1 & conaffinity2) || (contype2 & conaffinity1))
                over all 2-bit assignments of the four masks (256 rows per site); a flipped operand in the function or a
                swapped argument at a site changes the table
              * wrappers that return a function of the filter (canCollide2) are used with the matching polarity: the branch
                taken when the filter says "skip" leaves the pair loop (continue / return)
              * the inlined body-level test of add_pair: the same table over its four accumulators, which are OR-lifts
                (`= 0`, `|= m->geom_<kind>[i]`) of the matching geom fields or the flex fields
              * filterBodyPair as a truth table over (weld ids, weld parents in {0,1,2}) x (asleep, dofnum, disable flag in {0,1}),
                parameter roles taken from the provenance of the arguments in mj_broadphase (body_weldid, body_parentid,
                body_dofnum, body_awake, mjDSBL_FILTERPARENT): same weld => filtered; both dof-less => filtered;
                parent/child (neither is the world) and filtering enabled => filtered; with the flag disabled the result does not
                depend on the parents; filtered => one of the documented reasons (incl. the two sleeping reasons) holds
  R-MUSTPASS  (all paths, correlated predicates; loop bodies are explored per iteration)
              * mj_collision: the early return on mjDSBL_CONSTRAINT / mjDSBL_CONTACT precedes every broadphase / enqueue /
                collide call
              * every pushGeomGeom(a, b, ip) is reached only through the TRUE edge of filterCollisionPair(.., a, b, ip, ..);
                explicit pairs (ip not the literal -1) take a, b from m->pair_geom1[ip] / m->pair_geom2[ip]
              * the midphase leaf (mj_collideTree) hands a pair to mj_narrowphase only through the TRUE edge of
                filterCollisionPair for the two geoms stored in the pair, with ipair left at -1
              * every geom:flex collide call (callees that index geom_* by one parameter and flex_* by another) is reached only
                through the FALSE edge of the bitmask filter applied to that geom and that flex
              * in the bodyflex loop of mj_collision every non-explicit enqueue / collide / midphase call is reached only after
                the exclude-signature lookup decided "not excluded" (or there are no excludes)
              * filterCollisionPair with ipair < 0: every return that can be non-zero passed the FALSE edge of the bitmask filter
                or of the user callback mjcb_contactfilter; with ipair >= 0 the bitmask filter is not consulted (explicit pairs
                bypass it); getMargin / getGap / the parameter block of mj_narrowphase read pair_* for ipair >= 0 and geom_*
                otherwise
              * mj_broadphase: every add_pair of two bodies is reached only through the FALSE edge of filterBodyPair applied to
                those two bodies
  R-CMP       comparators of the mjSORT instantiations of this file (contactcompare, SAPcmp, uintcmp - discovered from the macro
              expansions): sign(cmp(a,b)) == -sign(cmp(b,a)) for every input of the finite domain (all order types of the keys
              read, -1 sentinels, casts to unsigned), transitivity of < and of == for the small ones.  NaN keys are evaluated
              and recorded; they are outside the property's quantifier (real-valued configurations; mj_checkPos rejects NaN
              before the position stage) and are not failures unless NAN_STRICT.
Instances confirmed by hand on the pinned tree: R-FINITE 20 (4 filter sites, 4 polarity sites, add_pair 1+4, filterBodyPair 5 + 2
sites), R-MUSTPASS 29 (2 flags, 4 pushGeomGeom, 1 midphase leaf, 3+3 geom:flex calls, 7 exclude sites + signature, 2 + 3
filterCollisionPair / explicit parameters, 3 add_pair), R-CMP 5.  The floors are lower (16 / 24 / 4) so that deleting one site
is reported as the violation it causes rather than as a lost anchor.
Not decided: that SAP / BVH pruning never drops a geometrically close pair; that m->body_contype is the OR of the geom masks
(model compiler); sortedness of pair_signature / exclude_signature that the merge relies on.
"""
from __future__ import annotations

import itertools

from .. import cir, engine, finite, paths, pipeline
from ..cfront import AnalysisError

DRV = "src/engine/engine_collision_driver.c"
SORT_H = "src/engine/engine_sort.h"
NAN_STRICT = False

ANCHORS = ("filterBodyPair", "filterCollisionPair", "pushGeomGeom", "mj_collision", "mj_collideTree", "mj_broadphase",
           "add_pair", "mj_narrowphase", "getMargin", "getGap")


# ------------------------------------------------------------------------------------------------------------ helpers

def defs_of(fn, by_name=False):
    """declaration id (or name) of a local -> [(op, rhs node)] of every definition (init, `=`, compound assignment)."""
    out = {}

    def key(ref_or_decl):
        return ref_or_decl.get("n") if by_name else ref_or_decl.get("id")
    for x in cir.walk(fn):
        k = x.get("k")
        if k == "VarDecl" and x.get("init"):
            init = [c for c in cir.kids(x) if c is not None and not c.get("k", "").endswith("Attr")]
            if init:
                out.setdefault(key(x), []).append(("=", init[-1]))
        elif k == "BinaryOperator" and x.get("op") == "=":
            t = cir.strip(cir.kids(x)[0])
            if t is not None and t.get("k") == "DeclRefExpr":
                rhs = cir.kids(x)[1]
                while True:         # chained `a = b = 0`
                    r = cir.strip(rhs)
                    if r is not None and r.get("k") == "BinaryOperator" and r.get("op") == "=":
                        rhs = cir.kids(r)[1]
                    else:
                        break
                out.setdefault(key(t.get("ref") or {}), []).append(("=", rhs))
        elif k == "CompoundAssignOperator":
            t = cir.strip(cir.kids(x)[0])
            if t is not None and t.get("k") == "DeclRefExpr":
                out.setdefault(key(t.get("ref") or {}), []).append((x.get("op"), cir.kids(x)[1]))
    return out


def resolve(fn_defs, node, params, depth=4):
    """the defining expressions behind an argument: locals are replaced by their definitions (all of them)."""
    s = cir.strip(node)
    if s is not None and s.get("k") == "DeclRefExpr" and depth > 0:
        r = s.get("ref") or {}
        if r.get("k") == "VarDecl" and r.get("id") in fn_defs:
            out = []
            for _op, rhs in fn_defs[r.get("id")]:
                out += resolve(fn_defs, rhs, params, depth - 1)
            return out
    return [node]


def model_fields(nodes):
    """names of m->FIELD / d->FIELD members mentioned."""
    out = set()
    for n in nodes:
        for x in cir.walk(n):
            if x.get("k") == "MemberExpr":
                out.add(x.get("n"))
    return out


def var_names(nodes):
    out = set()
    for n in nodes:
        out |= cir.vars_in(n)
    return out


def index_kinds(fn):
    """parameter name -> set of model-array prefixes (`geom`, `flex`, `body`..) subscripted exactly by the parameter."""
    ps = {p.get("n") for p in cir.params(fn)}
    out = {}
    for x in cir.walk(fn):
        if x.get("k") != "ArraySubscriptExpr":
            continue
        a, b = cir.kids(x)
        i = cir.strip(b)
        base = cir.strip(a)
        if i is None or base is None or i.get("k") != "DeclRefExpr" or base.get("k") != "MemberExpr" or not base.get("arrow"):
            continue
        nm = (i.get("ref") or {}).get("n")
        if nm in ps and "_" in (base.get("n") or ""):
            out.setdefault(nm, set()).add(base.get("n").split("_")[0])
    return out


def terminates(st):
    """a statement that always leaves the enclosing iteration / function (continue, return, break)."""
    if st is None:
        return False
    k = st.get("k")
    if k in ("ContinueStmt", "ReturnStmt", "BreakStmt"):
        return True
    if k == "CompoundStmt":
        c = [x for x in cir.kids(st) if x is not None]
        return bool(c) and terminates(c[-1])
    if k == "IfStmt":
        _c, t, e = finite.if_parts(st)
        return e is not None and terminates(t) and terminates(e)
    return False


def pseudo_iteration(fn, loop, name):
    """a function whose body is one iteration of `loop` (continue / break leave it)."""
    k = loop.get("k")
    c = list(cir.kids(loop))
    body = c[4] if k == "ForStmt" and len(c) > 4 else c[-1] if k == "WhileStmt" else c[0]
    do = {"k": "DoStmt", "line": loop.get("line"), "i": [body, {"k": "IntegerLiteral", "v": "0", "t": "int"}]}
    return {"k": "FunctionDecl", "n": name, "file": fn.get("file"), "line": loop.get("line"),
            "i": [{"k": "CompoundStmt", "line": loop.get("line"), "i": [do]}]}


def enclosing_loops(fn, node):
    par = finite.parents(fn)
    out = []
    x = node
    while id(x) in par:
        x = par[id(x)]
        if x.get("k") in ("ForStmt", "WhileStmt", "DoStmt"):
            out.append(x)
    return out


def tokens_in(text):
    import re
    return set(re.findall(r"[A-Za-z_][A-Za-z0-9_]*", text))


class Facts(paths.Rule):
    """Path rule base: the state is a frozenset of facts; assigning a variable drops the facts that mention it."""

    def initial(self, fn):
        return frozenset()

    def assign(self, st, node, ctx):
        k = node.get("k")
        if k == "VarDecl":
            var = node.get("n")
        else:
            t = cir.strip(cir.kids(node)[0])
            var = (t.get("ref") or {}).get("n") if t is not None and t.get("k") == "DeclRefExpr" else None
        if var is None:
            return st
        st2 = frozenset(f for f in st if var not in f[-1])
        return self.on_assign(st2, node, var, ctx)

    def on_assign(self, st, node, var, ctx):
        return st


def fact(kind, *texts):
    toks = frozenset(itertools.chain.from_iterable(tokens_in(t) for t in texts))
    return (kind,) + tuple(texts) + (toks,)


# ------------------------------------------------------------------------------------------------------------ R-FINITE

def find_bitmask(unit):
    """the function that receives contype / conaffinity fields in all four arguments."""
    cand = {}
    for fname, fn in unit.funcs.items():
        d = defs_of(fn)
        ps = {p.get("n") for p in cir.params(fn)}
        for c in cir.calls(fn):
            a = cir.args(c)
            nm = cir.callee(c)
            if len(a) != 4 or nm not in unit.funcs:
                continue
            kinds = []
            for x in a:
                f = {y for y in model_fields(resolve(d, x, ps)) if y.endswith("_contype") or y.endswith("_conaffinity")}
                kinds.append(f)
            if all(kinds):
                cand.setdefault(nm, []).append((fname, fn, c))
    if len(cand) != 1:
        raise AnalysisError(f"bitmask filter: expected one function called with contype/conaffinity masks, found {sorted(cand)}")
    return next(iter(cand.items()))


def mask_role(d, ps, arg):
    """('contype'|'conaffinity', object key) of one bitmask argument, or None."""
    rs = resolve(d, arg, ps)
    fields = {y for y in model_fields(rs) if y.endswith("_contype") or y.endswith("_conaffinity")}
    kinds = {f.rsplit("_", 1)[1] for f in fields}
    if len(kinds) != 1:
        return None
    return kinds.pop(), frozenset(var_names(rs))


def rule_skip(t1, a1, t2, a2):
    return not ((t1 & a2) or (t2 & a1))


def check_bitmask(res, unit):
    bm_name, sites = find_bitmask(unit)
    bm = unit.funcs[bm_name]
    pn = [p.get("n") for p in cir.params(bm)]
    dom = (0, 1, 2, 3)
    table = {}
    for vals in itertools.product(dom, repeat=4):
        it = finite.Interp(unit, env=dict(zip(pn, vals)), inline={bm_name})
        table[vals] = bool(it.run_function(bm))
    res.count("bitmask_rows", len(table))
    for fname, fn, call in sites:
        construct = f"{fname}:{bm_name}-site"
        d = defs_of(fn)
        ps = {p.get("n") for p in cir.params(fn)}
        roles = [mask_role(d, ps, a) for a in cir.args(call)]
        objs = []
        for r in roles:
            if r is not None and r[1] not in objs:
                objs.append(r[1])
        keyed = [(r[0], objs.index(r[1])) if r else None for r in roles]
        if None in keyed or len(objs) != 2 or len(set(keyed)) != 4:
            res.bad("R-FINITE", construct, DRV, call.get("line"),
                    f"the arguments of {bm_name} are not (contype, conaffinity) of two objects: {[cir.text(a) for a in cir.args(call)]}")
            continue
        wrong = None
        for t0, a0, t1, a1 in itertools.product(dom, repeat=4):
            val = {("contype", 0): t0, ("conaffinity", 0): a0, ("contype", 1): t1, ("conaffinity", 1): a1}
            got = table[tuple(val[k] for k in keyed)]
            if got != rule_skip(t0, a0, t1, a1):
                wrong = (t0, a0, t1, a1, got)
                break
        if wrong:
            res.bad("R-FINITE", construct, DRV, call.get("line"),
                    f"{bm_name} as called here returns {'skip' if wrong[4] else 'collide'} for contype1={wrong[0]} conaffinity1={wrong[1]} "
                    f"contype2={wrong[2]} conaffinity2={wrong[3]}; documented rule: collide iff (contype1 & conaffinity2) || "
                    f"(contype2 & conaffinity1)")
        else:
            res.ok("R-FINITE", construct, {"rows": 256, "binding": [f"{k[0]}{k[1] + 1}" for k in keyed]})
    return bm_name


def polarity_sites(res, unit, bm_name):
    """wrappers returning a function of the filter, and the polarity of every branch on filter / wrapper."""
    wrappers = {}
    for fname, fn in unit.funcs.items():
        if fname == bm_name:
            continue
        for r in cir.walk(fn):
            if r.get("k") != "ReturnStmt":
                continue
            e = [x for x in cir.kids(r) if x is not None]
            if not e:
                continue
            cs = list(cir.calls(e[0], bm_name))
            if len(cs) != 1:
                continue
            h = {}
            for b in (0, 1):
                try:
                    h[b] = bool(finite.eval_expr(unit, e[0], terms={cir.text(cs[0]): b}))
                except finite.NeedKey:
                    h = None
                    break
            if h is None or h[0] == h[1]:
                res.bad("R-FINITE", f"{fname}:wrapper", DRV, r.get("line"),
                        f"{fname} returns `{cir.text(e[0])}`, which is not a function of the bitmask filter alone")
                continue
            wrappers[fname] = h
    found = 0
    for fname, fn in unit.funcs.items():
        for st in cir.walk(fn):
            if st.get("k") != "IfStmt":
                continue
            cond, then, els = finite.if_parts(st)
            cs = [c for c in cir.calls(cond) if cir.callee(c) in wrappers or cir.callee(c) == bm_name]
            if len(cs) != 1:
                continue
            callee = cir.callee(cs[0])
            if not (terminates(then) or (els is not None and terminates(els))):
                continue   # guards a block (proceed branch): covered by the path rules
            found += 1
            construct = f"{fname}:{callee}-polarity"
            # other atoms of the condition must not matter for the direction: evaluate with them free
            outcome = {}
            undecided = False
            for b in (0, 1):
                v = wrappers[callee][bool(b)] if callee in wrappers else bool(b)
                vals = set()

                def run(env, v=v):
                    it = finite.Interp(unit, env=env, terms={cir.text(cs[0]): int(v)})
                    it.abstract_calls = True
                    it.frames.append({})
                    return bool(it.rvalue(cond))
                try:
                    for _env, r in finite.leaves(run, limit=4096):
                        vals.add(r)
                except AnalysisError:
                    undecided = True
                outcome[b] = vals
            if undecided:
                raise AnalysisError(f"{construct}: condition `{cir.text(cond)}` is outside the finite fragment")
            # when the filter says skip (b=1) the terminating branch must be taken
            term_is_then = terminates(then)
            want = {True} if term_is_then else {False}
            if outcome[1] != want:
                res.bad("R-FINITE", construct, DRV, st.get("line"),
                        f"when {bm_name} reports an incompatible pair, `if ({cir.text(cond)})` does not leave the pair "
                        f"({'then' if term_is_then else 'else'}-branch expected)")
            elif outcome[0] == want:
                res.bad("R-FINITE", construct, DRV, st.get("line"),
                        f"`if ({cir.text(cond)})` leaves the pair whether or not the masks are compatible")
            else:
                res.ok("R-FINITE", construct, {"cond": cir.text(cond)})
    return wrappers, found


def check_add_pair(res, unit):
    fn = unit.funcs["add_pair"]
    d = defs_of(fn, by_name=True)
    did = defs_of(fn)
    ps = {p.get("n") for p in cir.params(fn)}
    hit = None
    for st in cir.walk(fn):
        if st.get("k") != "IfStmt":
            continue
        cond, then, els = finite.if_parts(st)
        vs = sorted(cir.vars_in(cond))
        if len(vs) < 2 or not terminates(then) or cir.has_call(cond) or model_fields([cond]):
            continue
        roles = {}
        for v in vs:
            rs = []
            for _op, rhs in d.get(v, []):
                rs += resolve(did, rhs, ps)
            fields = {y for y in model_fields(rs) if y.endswith("_contype") or y.endswith("_conaffinity")}
            kinds = {f.rsplit("_", 1)[1] for f in fields}
            if len(kinds) == 1:
                roles[v] = (kinds.pop(), fields)
        if len(roles) == len(vs):
            hit = (st, cond, vs, roles)
            break
    if hit is None:
        raise AnalysisError("add_pair: the inlined contype/conaffinity compatibility test was not found")
    st, cond, vs, roles = hit
    if len(vs) != 4:
        res.bad("R-FINITE", "add_pair:inline-bitmask", DRV, st.get("line"),
                f"`{cir.text(cond)}` tests {len(vs)} of the four masks (contype, conaffinity of both bodyflexes): {vs}")
        return
    # sides: which bodyflex parameter feeds each accumulator: the parameter compared in the enclosing `bf < nbody` test
    par = finite.parents(fn)
    side = {}
    for v in vs:
        ss = set()
        for x in cir.walk(fn):
            k = x.get("k")
            isdef = (k in ("BinaryOperator", "CompoundAssignOperator") and x.get("op") in ("=", "|=")
                     and cir.text(cir.kids(x)[0]) == v)
            if not isdef:
                continue
            y = x
            while id(y) in par:
                y = par[id(y)]
                if y.get("k") == "IfStmt":
                    c, _t, _e = finite.if_parts(y)
                    # only the `bf < nbody` tests: an int parameter compared with the body count
                    for a in finite.conjuncts(c):
                        a = cir.strip(a)
                        if a.get("k") == "BinaryOperator" and a.get("op") in ("<", ">=") and \
                                any(cir.text(r) == "m->nbody" for r in resolve(did, cir.kids(a)[1], ps)):
                            ss |= {p for p in cir.vars_in(cir.kids(a)[0]) if p in ps and fn_param_type(fn, p) == "int"}
        side[v] = frozenset(ss)
    objs = []
    for v in vs:
        if side[v] not in objs:
            objs.append(side[v])
    keyed = {v: (roles[v][0], objs.index(side[v])) for v in vs}
    construct = "add_pair:inline-bitmask"
    if len(objs) != 2 or len(set(keyed.values())) != 4 or any(len(o) != 1 for o in objs):
        res.bad("R-FINITE", construct, DRV, st.get("line"),
                f"the four accumulators {vs} are not (contype, conaffinity) of the two bodyflexes: {keyed}")
        return
    wrong = None
    for t0, a0, t1, a1 in itertools.product((0, 1, 2, 3), repeat=4):
        val = {("contype", 0): t0, ("conaffinity", 0): a0, ("contype", 1): t1, ("conaffinity", 1): a1}
        env = {v: val[keyed[v]] for v in vs}
        got = bool(finite.eval_expr(unit, cond, env=env))
        if got != rule_skip(t0, a0, t1, a1):
            wrong = (t0, a0, t1, a1, got)
            break
    if wrong:
        res.bad("R-FINITE", construct, DRV, st.get("line"),
                f"`{cir.text(cond)}` {'drops' if wrong[4] else 'keeps'} the bodyflex pair for contype1={wrong[0]} conaffinity1={wrong[1]} "
                f"contype2={wrong[2]} conaffinity2={wrong[3]}; documented rule: collide iff (contype1 & conaffinity2) || "
                f"(contype2 & conaffinity1)")
    else:
        res.ok("R-FINITE", construct, {"rows": 256, "cond": cir.text(cond)})
    # OR-lift: each accumulator is 0 then |= geom_<kind>[..] (body) or = flex_<kind>[..] (flex)
    for v in vs:
        kind = roles[v][0]
        okdefs = True
        why = ""
        for op, rhs in d.get(v, []):
            t = cir.text(rhs)
            r = cir.strip(rhs)
            f = model_fields([rhs])
            if op == "|=" and f == {f"geom_{kind}"}:
                continue
            if op == "=" and (t == "0" or f == {f"flex_{kind}"}):
                continue
            okdefs = False
            why = f"`{v} {op} {t}`"
        has_or = any(op == "|=" for op, _ in d.get(v, []))
        if okdefs and has_or:
            res.ok("R-FINITE", f"add_pair:or-lift:{kind}{keyed[v][1] + 1}", None)
        else:
            res.bad("R-FINITE", f"add_pair:or-lift:{kind}{keyed[v][1] + 1}", DRV, st.get("line"),
                    f"body-level {kind} mask is not the OR of the geom masks ({why or 'no |= accumulation'})")


def fn_param_type(fn, name):
    for p in cir.params(fn):
        if p.get("n") == name:
            return p.get("t")
    return None


# ---- filterBodyPair

ROLE_FIELDS = (("mjDSBL_FILTERPARENT", "dsbl"), ("body_parentid", "parent"), ("body_dofnum", "dofnum"),
               ("body_awake", "asleep"), ("body_weldid", "weld"))


def body_roots(d, ps, node, depth=5):
    """variables that index body arrays in the provenance of an argument (through locals)."""
    out = set()
    for r in resolve(d, node, ps, depth=1):
        for x in cir.walk(r):
            if x.get("k") != "ArraySubscriptExpr":
                continue
            a, b = cir.kids(x)
            base = cir.strip(a)
            if base is None or base.get("k") != "MemberExpr" or not (base.get("n") or "").startswith("body_"):
                continue
            i = cir.strip(b)
            if i is not None and i.get("k") == "DeclRefExpr":
                ref = i.get("ref") or {}
                if ref.get("id") in d and depth > 0 and any(
                        f.startswith("body_") for f in model_fields([rhs for _o, rhs in d[ref.get("id")]])):
                    out |= body_roots(d, ps, i, depth - 1)
                else:
                    out.add(ref.get("n"))
    return out


def arg_role(d, ps, arg):
    rs = resolve(d, arg, ps, depth=3)
    text = " ".join(cir.text(r) for r in rs)
    enums = set()
    for r in rs:
        for x in cir.walk(r):
            if x.get("k") == "DeclRefExpr" and (x.get("ref") or {}).get("k") == "EnumConstantDecl":
                enums.add(x["ref"]["n"])
    fields = model_fields(rs)
    for key, role in ROLE_FIELDS:
        if key in fields or key in enums:
            if role == "dsbl" and "disableflags" not in fields:
                continue
            return role
    if text.strip() == "0":
        return "zero"
    return None


def check_body_pair(res, unit):
    fbp = unit.funcs["filterBodyPair"]
    bp = unit.funcs["mj_broadphase"]
    d = defs_of(bp)
    ps = {p.get("n") for p in cir.params(bp)}
    pn = [p.get("n") for p in cir.params(fbp)]
    sites = list(cir.calls(bp, "filterBodyPair"))
    if not sites:
        raise AnalysisError("mj_broadphase does not call filterBodyPair")
    role_by_pos = None
    site_info = []
    for call in sites:
        args = cir.args(call)
        roles = [arg_role(d, ps, a) for a in args]
        roots = [frozenset(body_roots(d, ps, a)) for a in args]
        objs = []
        for r, ro in zip(roles, roots):
            if r in ("weld", "parent", "dofnum", "asleep") and ro and ro not in objs:
                objs.append(ro)
        keyed = []
        for r, ro in zip(roles, roots):
            if r == "dsbl":
                keyed.append(("dsbl", 0))
            elif r in ("weld", "parent", "dofnum", "asleep") and ro in objs:
                keyed.append((r, objs.index(ro)))
            elif r == "zero":
                keyed.append(("zero", None))
            else:
                keyed.append(None)
        site_info.append((call, keyed, objs))
    # positions: the site without literal arguments defines the roles; literal 0 is accepted for `asleep`
    want = {("weld", 0), ("weld", 1), ("parent", 0), ("parent", 1), ("asleep", 0), ("asleep", 1), ("dofnum", 0), ("dofnum", 1),
            ("dsbl", 0)}
    cands = []
    for _c, k, _o in site_info:
        if None in k:
            continue
        # literal 0 (never asleep): the role of that position is the one no other argument of the site has
        miss = want - set(k)
        filled = [x if x[0] != "zero" else (next(iter(miss)) if len(miss) == 1 else x) for x in k]
        cands.append(filled)
    good = [k for k in cands if set(k) == want and len(k) == len(pn)]
    role_by_pos = good[0] if good else (cands[0] if cands else None)
    if role_by_pos is None:
        raise AnalysisError("filterBodyPair: no call site whose arguments all have model-field provenance")
    if set(role_by_pos) != want or len(role_by_pos) != len(pn):
        res.bad("R-FINITE", "filterBodyPair:roles", DRV, sites[0].get("line"),
                f"arguments of filterBodyPair do not cover (weld, weld-parent, asleep, dofnum) x 2 + disable flag: {role_by_pos}")
        return None
    for call, keyed, objs in site_info:
        fnm = "mj_broadphase"
        idx = site_info.index((call, keyed, objs))
        construct = f"{fnm}:filterBodyPair-site{idx + 1}"
        # side numbering of a site is arbitrary: accept either orientation
        def flip(k):
            return (k[0], 1 - k[1]) if k[0] not in ("dsbl", "zero") else k
        ok = False
        for variant in (keyed, [flip(k) if k else k for k in keyed]):
            if all((v == r) or (v is not None and v[0] == "zero" and r[0] == "asleep") for v, r in zip(variant, role_by_pos)):
                ok = True
        if ok:
            res.ok("R-FINITE", construct, {"binding": [f"{k[0]}{'' if k[1] is None else k[1] + 1}" for k in keyed]})
        else:
            res.bad("R-FINITE", construct, DRV, call.get("line"),
                    f"arguments {[cir.text(a) for a in cir.args(call)]} bind {keyed}, parameters are {role_by_pos}")
    # truth table
    doms = {"weld": (0, 1, 2), "parent": (0, 1, 2), "asleep": (0, 1), "dofnum": (0, 1), "dsbl": (0, 1)}
    table = {}
    spaces = [doms[r[0]] for r in role_by_pos]
    for vals in itertools.product(*spaces):
        it = finite.Interp(unit, env=dict(zip(pn, vals)), inline={"filterBodyPair"})
        table[vals] = bool(it.run_function(fbp))
    res.count("bodypair_rows", len(table))
    pos = {r: i for i, r in enumerate(role_by_pos)}

    def g(vals, role, side=0):
        return vals[pos[(role, side)]]
    checks = {
        "same-weld": ("bodies welded together (same weld id) must be filtered", []),
        "dofless": ("two dof-less (static) bodies must be filtered", []),
        "parent-child": ("parent/child bodies must be filtered while mjDSBL_FILTERPARENT is not set", []),
        "parent-guard": ("with mjDSBL_FILTERPARENT set the result must not depend on the parent ids", []),
        "no-spurious": ("a body pair may be filtered only for a documented reason (same weld, both static, parent/child, "
                        "both asleep, asleep vs world-static)", []),
    }
    for vals, f in table.items():
        w1, w2, p1, p2 = g(vals, "weld", 0), g(vals, "weld", 1), g(vals, "parent", 0), g(vals, "parent", 1)
        a1, a2, d1, d2, ds = g(vals, "asleep", 0), g(vals, "asleep", 1), g(vals, "dofnum", 0), g(vals, "dofnum", 1), g(vals, "dsbl")
        same = w1 == w2
        dofless = d1 == 0 and d2 == 0
        pc = w1 != 0 and w2 != 0 and (w1 == p2 or w2 == p1)
        sleep = (a1 and a2) or (a1 and w2 == 0) or (a2 and w1 == 0)
        row = dict(zip(pn, vals))
        if same and not f:
            checks["same-weld"][1].append(row)
        if dofless and not f:
            checks["dofless"][1].append(row)
        if pc and not ds and not f:
            checks["parent-child"][1].append(row)
        if ds:
            for q1, q2 in itertools.product(doms["parent"], repeat=2):
                v2 = list(vals)
                v2[pos[("parent", 0)]], v2[pos[("parent", 1)]] = q1, q2
                if table[tuple(v2)] != f:
                    checks["parent-guard"][1].append(row)
                    break
        if f and not (same or dofless or sleep or (pc and not ds)):
            checks["no-spurious"][1].append(row)
    for name, (what, bad) in checks.items():
        construct = f"filterBodyPair:{name}"
        if bad:
            res.bad("R-FINITE", construct, DRV, fbp.get("line"), f"{what}; counterexample {bad[0]} ({len(bad)} of {len(table)} rows)")
        else:
            res.ok("R-FINITE", construct, {"rows": len(table)})
    return site_info


# ------------------------------------------------------------------------------------------------------------ R-MUSTPASS

class FlagRule(Facts):
    def __init__(self, sites):
        self.sites = sites

    def branch(self, st, cond, taken, ctx):
        if not taken:
            en = {x["ref"]["n"] for x in cir.walk(cond) if x.get("k") == "DeclRefExpr" and
                  (x.get("ref") or {}).get("k") == "EnumConstantDecl" and x["ref"]["n"].startswith("mjDSBL_")}
            if en and "disableflags" in cir.text(cond):
                return st | {fact("flag", e) for e in en}
        return st

    def call(self, st, node, name, ctx):
        if name in self.sites:
            have = {f[1] for f in st if f[0] == "flag"}
            ctx.seen.setdefault(name, set())
            for fl in ctx.required:
                if fl not in have:
                    ctx.report(node, f"{name} is reached on a path that did not test {fl}", key=(name, fl))
        return st


def check_flags(res, unit, collide_names):
    fn = unit.funcs["mj_collision"]
    flags = set()
    for st in cir.walk(fn):
        if st.get("k") != "IfStmt":
            continue
        cond, then, _e = finite.if_parts(st)
        if "disableflags" in cir.text(cond) and any(x.get("k") == "ReturnStmt" for x in cir.walk(then)):
            flags |= {x["ref"]["n"] for x in cir.walk(cond) if x.get("k") == "DeclRefExpr" and
                      (x.get("ref") or {}).get("k") == "EnumConstantDecl" and x["ref"]["n"].startswith("mjDSBL_")}
    required = ("mjDSBL_CONTACT", "mjDSBL_CONSTRAINT")
    sites = set(collide_names) | {"pushGeomGeom", "mj_narrowphase", "mj_collideTree", "mj_broadphase"}
    ex = paths.Explorer(FlagRule(sites), unit, fn)
    ex.ctx.required = required
    ex.ctx.seen = {}
    ex.run()
    if not ex.ctx.seen:
        raise AnalysisError("mj_collision: no broadphase / enqueue call found")
    for fl in required:
        construct = f"mj_collision:early-return:{fl}"
        rep = [r for r in ex.ctx.reports if r.get("key", (None, None))[1] == fl]
        if fl not in flags:
            res.bad("R-MUSTPASS", construct, DRV, fn.get("line"),
                    f"mj_collision has no early return on {fl}: collision detection runs although the flag disables contacts")
        elif rep:
            res.bad("R-MUSTPASS", construct, DRV, rep[0]["line"], rep[0]["msg"])
        else:
            res.ok("R-MUSTPASS", construct, {"guarded_calls": sorted(ex.ctx.seen)})


class PairRule(Facts):
    """facts: ('fcp', a, b, ip) TRUE edge of filterCollisionPair; ('bm', {(prefix, index)...}) FALSE edge of the bitmask filter;
    ('bind', var, text) var last assigned from m->pair_geomN[..]."""

    def __init__(self, unit, bm_name, geomflex):
        self.unit = unit
        self.bm = bm_name
        self.geomflex = geomflex      # callee -> (geom arg position, flex arg position)

    def branch(self, st, cond, taken, ctx):
        if cir.is_call(cond):
            nm = cir.callee(cond)
            a = cir.args(cond)
            if nm == "filterCollisionPair" and taken and len(a) >= 5:
                return st | {fact("fcp", cir.text(a[2]), cir.text(a[3]), cir.text(a[4]))}
            if nm == self.bm and not taken:
                objs = set()
                for x in a:
                    s = cir.strip(x)
                    if s is not None and s.get("k") == "ArraySubscriptExpr":
                        base = cir.strip(cir.kids(s)[0])
                        if base is not None and base.get("k") == "MemberExpr":
                            objs.add(f"{(base.get('n') or '').split('_')[0]}:{cir.text(cir.kids(s)[1])}")
                return st | {fact("bm", *sorted(objs))}
        return st

    def on_assign(self, st, node, var, ctx):
        if node.get("k") == "BinaryOperator" and node.get("op") == "=":
            rhs = cir.strip(cir.kids(node)[1])
            if rhs is not None and rhs.get("k") == "ArraySubscriptExpr" and "pair_geom" in cir.text(rhs):
                return st | {fact("bind", var, cir.text(rhs))}
        return st

    def call(self, st, node, name, ctx):
        a = cir.args(node)
        if name == "pushGeomGeom" and len(a) >= 5:
            g1, g2, ip = cir.text(a[2]), cir.text(a[3]), cir.text(a[4])
            ctx.sites.append((name, node, ip))
            key = f"{ctx.fn.get('n').split('@')[0]}:pushGeomGeom({'-1' if ip == '-1' else 'explicit'})"
            passed = any(f[0] == "fcp" and f[3] == ip and {f[1], f[2]} == {g1, g2} for f in st)
            if not passed:
                ctx.report(node, f"pushGeomGeom({g1}, {g2}, {ip}) is reached without filterCollisionPair({g1}, {g2}, {ip}) having "
                                 f"accepted the pair on this path", key=key)
            if ip != "-1":
                b = {f[1]: f[2] for f in st if f[0] == "bind"}
                want = {f"m->pair_geom1[{ip}]", f"m->pair_geom2[{ip}]"}
                if {b.get(g1), b.get(g2)} != want:
                    ctx.report(node, f"explicit pair {ip}: geoms ({g1}, {g2}) are not m->pair_geom1[{ip}] / m->pair_geom2[{ip}] "
                                     f"(they hold {b.get(g1)}, {b.get(g2)})", key=key + ":geoms")
        elif name in self.geomflex:
            gi, fi = self.geomflex[name]
            g, f = cir.text(a[gi]), cir.text(a[fi])
            ctx.sites.append((name, node, None))
            want = tuple(sorted([f"geom:{g}", f"flex:{f}"]))
            if not any(x[0] == "bm" and tuple(x[1:-1]) == want for x in st):
                ctx.report(node, f"{name}(geom {g}, flex {f}) is reached without the bitmask filter {self.bm}(geom_contype[{g}], "
                                 f"geom_conaffinity[{g}], flex_contype[{f}], flex_conaffinity[{f}]) having accepted this geom/flex "
                                 f"pair on the path", key=f"{ctx.fn.get('n').split('@')[0]}:{name}")
        elif name == "mj_narrowphase" and len(a) >= 3:
            s = cir.strip(a[2])
            if s is not None and s.get("k") == "UnaryOperator" and s.get("op") == "&":
                ctx.sites.append((name, node, "-1"))
                pv = cir.text(cir.kids(s)[0])
                stop = set()
                for f in st:
                    if f[0] == "fcp":
                        stop |= {f[1], f[2]}
                roots, ipair_ok = pair_fields(ctx.fn, pv, stop)
                key = f"{ctx.fn.get('n').split('@')[0]}:mj_narrowphase(&{pv})"
                passed = any(f[0] == "fcp" and f[3] == "-1" and {f[1], f[2]} == roots for f in st)
                if not passed:
                    ctx.report(node, f"the pair {sorted(roots)} stored in `{pv}` reaches mj_narrowphase without "
                                     f"filterCollisionPair(.., -1, ..) having accepted it on this path", key=key)
                if not ipair_ok:
                    ctx.report(node, f"`{pv}.ipair` is set to a value other than -1 for a midphase pair", key=key + ":ipair")
        return st


def pair_fields(fn, pv, stop=()):
    """root variables stored into <pv>.*.g1 / .g2 (locals are followed until a name in `stop`) and whether .ipair stays -1."""
    d = defs_of(fn)

    def roots_of(node, depth=4):
        out = set()
        for x in cir.walk(node):
            if x.get("k") != "DeclRefExpr" or (x.get("ref") or {}).get("k") not in ("VarDecl", "ParmVarDecl"):
                continue
            r = x["ref"]
            if r.get("n") in stop or r.get("id") not in d or depth == 0:
                out.add(r.get("n"))
            else:
                for _op, rhs in d[r.get("id")]:
                    out |= roots_of(rhs, depth - 1)
        return out
    roots = set()
    ipair_ok = True
    for x in cir.walk(fn):
        if x.get("k") == "BinaryOperator" and x.get("op") == "=":
            lhs = cir.text(cir.kids(x)[0])
            if lhs.startswith(pv + ".") and lhs.rsplit(".", 1)[1] in ("g1", "g2"):
                roots |= roots_of(cir.kids(x)[1])
            if lhs.startswith(pv + ".") and lhs.rsplit(".", 1)[1] == "ipair" and cir.text(cir.kids(x)[1]) != "-1":
                ipair_ok = False
    return roots, ipair_ok


def geomflex_callees(unit, bm_name):
    out = {}
    for fname, fn in unit.funcs.items():
        if fname == bm_name:
            continue
        kinds = index_kinds(fn)
        ps = [p.get("n") for p in cir.params(fn)]
        g = [i for i, p in enumerate(ps) if kinds.get(p) == {"geom"}]
        f = [i for i, p in enumerate(ps) if kinds.get(p) == {"flex"}]
        if len(g) == 1 and len(f) == 1 and fn_param_type(fn, ps[g[0]]) == "int" and fn_param_type(fn, ps[f[0]]) == "int":
            out[fname] = (g[0], f[0])
    return out


def run_pair_rule(res, unit, bm_name, geomflex):
    """pushGeomGeom / midphase leaf / geom:flex collide calls in mj_collision and mj_collideTree."""
    expected = {}
    for fname in ("mj_collision", "mj_collideTree"):
        fn = unit.funcs[fname]
        ex = paths.Explorer(PairRule(unit, bm_name, geomflex), unit, fn)
        ex.ctx.sites = []
        ex.run()
        keys = {}
        for name, node, ip in ex.ctx.sites:
            if name == "pushGeomGeom":
                k = f"{fname}:pushGeomGeom({'-1' if ip == '-1' else 'explicit'})"
            elif name == "mj_narrowphase":
                k = f"{fname}:mj_narrowphase(&{cir.text(cir.kids(cir.strip(cir.args(node)[2]))[0])})"
            else:
                k = f"{fname}:{name}"
            keys.setdefault(k, []).append(node)
        for k, nodes in sorted(keys.items()):
            reps = [r for r in ex.ctx.reports if r.get("key", "").startswith(k)]
            # one obligation per call site
            bad_lines = {r["line"] for r in reps}
            for i, node in enumerate(sorted({id(n): n for n in nodes}.values(), key=lambda n: n.get("line") or 0)):
                construct = k if len({id(n) for n in nodes}) == 1 else f"{k}#{i + 1}"
                mine = [r for r in reps if r["line"] == node.get("line")]
                if mine:
                    res.bad("R-MUSTPASS", construct, DRV, node.get("line"), "; ".join(sorted({r['msg'] for r in mine})))
                else:
                    res.ok("R-MUSTPASS", construct, None)
        expected[fname] = keys
    return expected


class ExclRule(Facts):
    """state fact ('excl'): the exclude lookup was consulted on this path and did not skip the pair."""

    def __init__(self, lookup_atoms, sites):
        self.atoms = lookup_atoms        # id(atom node) -> polarity of the edge that proceeds (True / False / None = either)
        self.sites = sites

    def branch(self, st, cond, taken, ctx):
        pol = self.atoms.get(id(cond), "no")
        if pol != "no" and (pol is None or pol == taken):
            return st | {("excl", frozenset())}
        return st

    def call(self, st, node, name, ctx):
        if name in self.sites:
            a = cir.args(node)
            if name == "pushGeomGeom" and len(a) >= 5 and cir.text(a[4]) != "-1":
                return st          # explicit pair: excludes do not apply
            ctx.sites.append((name, node))
            if not any(f[0] == "excl" for f in st):
                ctx.report(node, f"{name} is reached in the bodyflex loop on a path where the exclude-signature lookup was not "
                                 f"consulted: pairs named by <exclude> elements are not skipped", key=name)
        return st


def reads_exclude(unit, node, depth=2):
    """the expression reads m->exclude_signature, directly or through a callee of this unit."""
    for x in cir.walk(node):
        if x.get("k") == "MemberExpr" and x.get("n") == "exclude_signature":
            return True
        if depth and cir.is_call(x) and cir.callee(x) in unit.funcs and reads_exclude(unit, unit.funcs[cir.callee(x)], depth - 1):
            return True
    return False


def check_exclude(res, unit, geomflex):
    fn = unit.funcs["mj_collision"]
    d = defs_of(fn, by_name=True)
    nex = {"m->nexclude"} | {v for v, ds in d.items() if any(cir.text(r) == "m->nexclude" for _o, r in ds)}
    # the lookup: an `if` that can leave the iteration and whose condition reads exclude_signature by == or through a helper
    lookups = []
    for st in cir.walk(fn):
        if st.get("k") != "IfStmt":
            continue
        cond, then, els = finite.if_parts(st)
        direct = any(x.get("k") == "BinaryOperator" and x.get("op") == "==" and reads_exclude(unit, x, 0) for x in cir.walk(cond))
        helper = any(cir.is_call(x) and reads_exclude(unit, x) for x in cir.walk(cond))
        if (direct or helper) and (terminates(then) or (els is not None and terminates(els))):
            lookups.append((st, cond, terminates(then)))
    # the bodyflex loop: the outermost loop of mj_collision that calls the midphase for two different bodyflexes
    outer = None
    for c in cir.calls(fn, "mj_collideTree"):
        a = cir.args(c)
        if cir.text(a[2]) != cir.text(a[3]):
            ls = enclosing_loops(fn, c)
            if ls:
                outer = ls[-1]
    if outer is None:
        raise AnalysisError("mj_collision: the bodyflex-pair loop (calling mj_collideTree for two bodyflexes) was not found")
    atoms = {}
    for st, cond, then_leaves in lookups:
        if not finite.contains(outer, st):
            continue
        for x in cir.walk(cond):
            atoms[id(x)] = (not then_leaves)        # every atom of the lookup condition: the proceeding edge passes
        # `if (nexclude) { ...lookup... }`: no excludes at all also passes
    par = finite.parents(fn)
    for st, cond, _t in lookups:
        y = st
        while id(y) in par and par[id(y)] is not outer:
            y = par[id(y)]
            if y.get("k") == "IfStmt":
                c2, _t2, _e2 = finite.if_parts(y)
                s2 = cir.strip(c2)
                if cir.text(s2) in nex:
                    atoms[id(s2)] = False
    sites = set(geomflex) | {"pushGeomGeom", "mj_collideTree", "mj_collideElems"}
    pf = pseudo_iteration(fn, outer, "mj_collision@bodyflex-loop")
    ex = paths.Explorer(ExclRule(atoms, sites), unit, pf)
    ex.ctx.sites = []
    ex.run()
    by = {}
    for name, node in ex.ctx.sites:
        by.setdefault(name, {})[id(node)] = node
    if not by:
        raise AnalysisError("mj_collision: no enqueue site inside the bodyflex loop")
    for name, nodes in sorted(by.items()):
        for i, node in enumerate(sorted(nodes.values(), key=lambda n: n.get("line") or 0)):
            construct = f"mj_collision:exclude-before:{name}" + (f"#{i + 1}" if len(nodes) > 1 else "")
            mine = [r for r in ex.ctx.reports if r["line"] == node.get("line") and r.get("key") == name]
            if mine:
                res.bad("R-MUSTPASS", construct, DRV, node.get("line"), mine[0]["msg"])
            else:
                res.ok("R-MUSTPASS", construct, None)
    # every non-explicit geom-pair enqueue of mj_collision lies in that loop
    for c in cir.calls(fn, "pushGeomGeom"):
        a = cir.args(c)
        if len(a) >= 5 and cir.text(a[4]) == "-1" and not finite.contains(outer, c):
            res.bad("R-MUSTPASS", "mj_collision:exclude-before:outside-loop", DRV, c.get("line"),
                    "a non-explicit geom pair is enqueued outside the bodyflex loop, where no exclude lookup applies")
    # the lookup compares against the signature of the pair being processed
    construct = "mj_collision:exclude-signature"
    tree = [c for c in cir.calls(outer, "mj_collideTree")]
    pair_vars = set()
    for c in tree:
        a = cir.args(c)
        pair_vars |= {cir.text(a[2]), cir.text(a[3])}
    inloop = [l for l in lookups if finite.contains(outer, l[0])]
    if not inloop:
        res.bad("R-MUSTPASS", construct, DRV, outer.get("line"),
                "the bodyflex loop of mj_collision has no exclude-signature lookup that can skip the pair")
        return
    st0, cond0, _t = inloop[0]
    sig_vars = set()
    sig = None
    for x in cir.walk(cond0):
        if x.get("k") == "BinaryOperator" and x.get("op") == "==" and reads_exclude(unit, x, 0):
            sides = [k for k in cir.kids(x) if not reads_exclude(unit, k, 0)]
            sig = cir.text(sides[0]) if sides else None
            for k in sides:
                for r in resolve(defs_of(fn), k, set(), depth=2):
                    sig_vars |= cir.vars_in(r)
        elif cir.is_call(x) and reads_exclude(unit, x):
            sig = cir.text(x)
            for k in cir.args(x):
                for r in resolve(defs_of(fn), k, set(), depth=2):
                    sig_vars |= cir.vars_in(r)
    if pair_vars and pair_vars <= sig_vars:
        res.ok("R-MUSTPASS", construct, {"signature": sig, "from": sorted(sig_vars)})
    else:
        res.bad("R-MUSTPASS", construct, DRV, st0.get("line"),
                f"the exclude lookup compares against `{sig}` (built from {sorted(sig_vars)}), not the signature of the bodyflex "
                f"pair {sorted(pair_vars)} being processed")


class FcpRule(paths.Rule):
    """filterCollisionPair under a constant binding of its ipair parameter."""

    def __init__(self, unit, bm_name, ipair_name, value, cb_names):
        self.fl = pipeline.Flattener(unit)
        self.bm = bm_name
        self.env = {ipair_name: value}
        self.cb = cb_names

    def initial(self, fn):
        return (False, False)       # (accepted by bitmask or callback, bitmask/callback consulted)

    def _is_filter(self, node):
        if not cir.is_call(node):
            return False
        nm = cir.callee(node)
        if nm == self.bm:
            return True
        ce = cir.callee_expr(node)
        return nm is None and ce is not None and cir.text(ce) in self.cb

    def branch(self, st, cond, taken, ctx):
        v = self.fl.ceval(cond, self.env)
        if v is not None and bool(v) != taken:
            return None
        if self._is_filter(cond) and not taken:
            return (True, st[1])
        return st

    def call(self, st, node, name, ctx):
        if self._is_filter(node):
            return (st[0], True)
        return st

    def ret(self, st, node, ctx):
        e = [x for x in cir.kids(node) if x is not None]
        v = self.fl.ceval(e[0], self.env) if e else None
        ctx.rets.append((st, v, node))


def check_fcp(res, unit, bm_name):
    fn = unit.funcs["filterCollisionPair"]
    ps = [p.get("n") for p in cir.params(fn)]
    # the ipair parameter: the one pushed as the 5th argument at the call sites == 5th parameter; discovered as the int parameter
    # compared with 0 in the function
    ip = None
    for x in cir.walk(fn):
        if x.get("k") == "BinaryOperator" and x.get("op") in ("<", ">=") and cir.text(cir.kids(x)[1]) == "0":
            t = cir.text(cir.kids(x)[0])
            if t in ps:
                ip = t
    if ip is None:
        raise AnalysisError("filterCollisionPair: no parameter is tested against 0 (explicit-pair index not found)")
    cb = {v for v, dn in unit.vars.items() if "contactfilter" in v}
    for value, label in ((-1, "implicit"), (0, "explicit")):
        ex = paths.Explorer(FcpRule(unit, bm_name, ip, value, cb), unit, fn)
        ex.ctx.rets = []
        ex.run()
        if not ex.ctx.rets:
            raise AnalysisError("filterCollisionPair: no return reached")
        construct = f"filterCollisionPair:{label}"
        if value < 0:
            bad = [(st, v, n) for st, v, n in ex.ctx.rets if v != 0 and not st[0]]
            if bad:
                res.bad("R-MUSTPASS", construct, DRV, bad[0][2].get("line"),
                        f"with {ip} < 0 the pair can be accepted (`{cir.text(bad[0][2])}`) on a path that never passed the bitmask "
                        f"filter {bm_name} (or the user callback)")
            else:
                res.ok("R-MUSTPASS", construct, {"returns": len(ex.ctx.rets)})
        else:
            bad = [(st, v, n) for st, v, n in ex.ctx.rets if st[1]]
            if bad:
                res.bad("R-MUSTPASS", construct, DRV, bad[0][2].get("line"),
                        f"with {ip} >= 0 (explicit pair) the contype/conaffinity filter is consulted; explicit pairs bypass it")
            else:
                res.ok("R-MUSTPASS", construct, {"returns": len(ex.ctx.rets)})
    # parameters of explicit pairs
    from .. import specialise
    sp = specialise.Specialiser(unit)
    for fname, pairf, geomf in (("getMargin", "pair_margin", "geom_margin"), ("getGap", "pair_gap", "geom_gap")):
        f2 = unit.funcs[fname]
        ip2 = [p.get("n") for p in cir.params(f2)][-1]
        got = {}
        for value in (-1, 0):
            live = sp.live(f2, {ip2: value})
            fields = set()
            first_ret = None
            for kind, st in live:
                if st.get("k") == "ReturnStmt" and first_ret is None:
                    first_ret = st
            fields = model_fields([first_ret]) if first_ret is not None else set()
            got[value] = fields
        construct = f"{fname}:explicit-params"
        if pairf in got[0] and geomf not in got[0] and geomf in got[-1] and pairf not in got[-1]:
            res.ok("R-MUSTPASS", construct, {"explicit": sorted(got[0]), "implicit": sorted(got[-1])})
        else:
            res.bad("R-MUSTPASS", construct, DRV, f2.get("line"),
                    f"{fname} must read {pairf}[ipair] for explicit pairs and {geomf} of both geoms otherwise; it reads "
                    f"{sorted(got[0])} / {sorted(got[-1])}")
    # mj_narrowphase: parameter block
    nf = unit.funcs["mj_narrowphase"]
    hit = None
    for st in cir.walk(nf):
        if st.get("k") != "IfStmt":
            continue
        cond, then, els = finite.if_parts(st)
        if els is None or cir.has_call(cond):
            continue
        tf, ef = model_fields([then]), model_fields([els])
        if any(f.startswith("pair_") for f in tf | ef) and any(cir.callee(c) == "mj_contactParam" for c in cir.calls(st)):
            hit = (st, cond, then, els)
    construct = "mj_narrowphase:explicit-params"
    if hit is None:
        res.bad("R-MUSTPASS", construct, DRV, nf.get("line"),
                "mj_narrowphase has no branch that takes the contact parameters of explicit pairs from m->pair_*")
    else:
        st, cond, then, els = hit
        vs = sorted(cir.vars_in(cond))
        dn = defs_of(nf, by_name=True)
        prov = " ".join(cir.text(r) for v in vs for _o, r in dn.get(v, []))
        tab = {}
        for v in (-1, 0, 1):
            tab[v] = bool(finite.eval_expr(unit, cond, env={vs[0]: v})) if len(vs) == 1 else None
        explicit_branch = then if tab.get(0) else els
        implicit_branch = els if tab.get(0) else then
        ok = (len(vs) == 1 and "ipair" in prov and tab[-1] != tab[0] and tab[0] == tab[1]
              and any(f.startswith("pair_") for f in model_fields([explicit_branch]))
              and not any(f.startswith("pair_") for f in model_fields([implicit_branch]))
              and any(cir.callee(c) == "mj_contactParam" for c in cir.calls(implicit_branch)))
        if ok:
            res.ok("R-MUSTPASS", construct, {"cond": cir.text(cond), "fields": sorted(model_fields([explicit_branch]))})
        else:
            res.bad("R-MUSTPASS", construct, DRV, st.get("line"),
                    f"`if ({cir.text(cond)})` does not select m->pair_* parameters exactly for ipair >= 0 (table {tab})")


class BodyRule(Facts):
    def __init__(self, nbody_texts):
        self.nbody = nbody_texts

    def branch(self, st, cond, taken, ctx):
        if cir.is_call(cond) and cir.callee(cond) == "filterBodyPair" and not taken:
            d = ctx.defs
            roots = set()
            for a in cir.args(cond):
                roots |= body_roots(d, ctx.params, a)
            return st | {fact("fbp", *sorted(roots))}
        if cond.get("k") == "BinaryOperator" and cond.get("op") == "<" and cir.text(cir.kids(cond)[1]) in self.nbody and not taken:
            return st | {fact("notbody", cir.text(cir.kids(cond)[0]))}
        return st

    def call(self, st, node, name, ctx):
        if name == "add_pair":
            a = cir.args(node)
            x, y = cir.strip(a[1]), cir.strip(a[2])
            ctx.sites.append(node)
            for z in (x, y):
                if z.get("k") == "BinaryOperator" and z.get("op") == "+" and \
                        any(cir.text(k) in self.nbody for k in cir.kids(z)):
                    return st           # nbody + f: a flex
            tx, ty = cir.text(x), cir.text(y)
            if any(f[0] == "notbody" and f[1] in (tx, ty) for f in st):
                return st
            if not any(f[0] == "fbp" and set(f[1:-1]) == {tx, ty} for f in st):
                ctx.report(node, f"add_pair({tx}, {ty}) is reached without filterBodyPair having accepted the bodies {tx}, {ty} "
                                 f"on this path (same-body / parent-child / static filtering skipped)")
        return st


def check_broadphase(res, unit):
    fn = unit.funcs["mj_broadphase"]
    d = defs_of(fn)
    dn = defs_of(fn, by_name=True)
    nbody = {"m->nbody"} | {v for v, ds in dn.items() if len(ds) == 1 and cir.text(ds[0][1]) == "m->nbody"}
    loops = []
    for c in cir.calls(fn, "add_pair"):
        ls = enclosing_loops(fn, c)
        if not ls:
            raise AnalysisError("mj_broadphase: add_pair outside a loop")
        if not any(l is ls[0] for l in loops):
            loops.append(ls[0])
    n = 0
    for i, loop in enumerate(loops):
        pf = pseudo_iteration(fn, loop, f"mj_broadphase@loop{i + 1}")
        ex = paths.Explorer(BodyRule(nbody), unit, pf)
        ex.ctx.sites = []
        ex.ctx.defs = d
        ex.ctx.params = {p.get("n") for p in cir.params(fn)}
        ex.run()
        for node in {id(s): s for s in ex.ctx.sites}.values():
            n += 1
            a = cir.args(node)
            construct = f"mj_broadphase:add_pair({cir.text(a[1])}, {cir.text(a[2])})"
            mine = [r for r in ex.ctx.reports if r["line"] == node.get("line")]
            if mine:
                res.bad("R-MUSTPASS", construct, DRV, node.get("line"), mine[0]["msg"])
            else:
                res.ok("R-MUSTPASS", construct, None)
    if n == 0:
        raise AnalysisError("mj_broadphase: no add_pair call analysed")


# ------------------------------------------------------------------------------------------------------------ R-CMP

def sort_instances(unit, header=SORT_H):
    """functions of the unit generated by the sorting macros: (fn, macro name, comparator names)."""
    out = []
    for name, fn in unit.funcs.items():
        b = cir.body(fn)
        if b is None or b.get("sfile") != header:
            continue
        cmps = set()
        for c in cir.calls(fn):
            nm = cir.callee(c)
            if nm in unit.funcs and len(cir.args(c)) == 3:
                cmps.add(nm)
        out.append((fn, finite.macro_name_at(fn), sorted(cmps)))
    return out


def check_comparator(res, rule, unit, name, file, nan_strict=False):
    fn = unit.funcs[name]
    rep = finite.comparator_report(unit, fn)
    res.count("comparator_leaves", rep["leaves"])
    construct = f"{name}:antisymmetry"
    if rep["ordered"]:
        e1, r1, e2, r2 = rep["ordered"][0]
        res.bad(rule, construct, file, fn.get("line"),
                f"{name} is not antisymmetric: cmp(a,b)={r1} on [{finite.fmt_env(e1)}] but cmp(b,a)={r2} with the arguments swapped "
                f"({len(rep['ordered'])} of {rep['pairs']} input classes)")
    elif rep["results"] != {-1, 0, 1}:
        res.bad(rule, construct, file, fn.get("line"), f"{name} never returns {sorted({-1, 0, 1} - rep['results'])} (sign): not a "
                                                        f"three-way comparison")
    else:
        res.ok(rule, construct, {"input_classes": rep["leaves"], "keys": rep["elem_keys"]})
    if rep["nan"]:
        e1, r1, e2, r2 = rep["nan"][0]
        msg = (f"{name} with a NaN key: cmp(a,b)={r1} on [{finite.fmt_env(e1)}] and cmp(b,a)={r2} swapped "
               f"({len(rep['nan'])} input classes); the order is only defined for NaN-free keys")
        if nan_strict:
            res.bad(rule, f"{name}:nan", file, fn.get("line"), msg)
        else:
            res.extra.setdefault("nan_notes", []).append(msg)
    tr = rep.get("transitive")
    if tr is not None:
        construct = f"{name}:transitivity"
        if tr["violations"]:
            kind, x, y, z = tr["violations"][0]
            res.bad(rule, construct, file, fn.get("line"),
                    f"{name}: {kind} fails for elements {dict(zip(tr['suffixes'], x))}, {dict(zip(tr['suffixes'], y))}, "
                    f"{dict(zip(tr['suffixes'], z))}")
        else:
            res.ok(rule, construct, {"elements": tr["elements"]})
    return rep


# ------------------------------------------------------------------------------------------------------------ override

MARGIN_ARRAYS = ("geom_margin", "body_margin", "flex_margin", "pair_margin")


def check_override(res, unit):
    """Every margin the driver uses to prune or accept a pair is subject to the global override (mjENBL_OVERRIDE replaces all
    margins by opt.o_margin): a read of a model margin array is either an argument of mj_assignMargin, or sits on the
    not-overridden side of a condition on the override.  A margin that bypasses it makes one phase prune pairs that the
    other phases (which honour the override) would keep."""
    from .. import norm
    res.rule("R-OVERRIDE", "margin reads in the collision driver go through mj_assignMargin or an explicit override test", floor=8)
    nreads = 0
    for fname, fn in unit.funcs.items():
        if (fn.get("file") or unit.tu) != unit.tu:
            continue
        body = cir.body(fn)
        if body is None:
            continue
        reads = [x for x in cir.walk(body) if x.get("k") == "MemberExpr" and x.get("arrow") and x.get("n") in MARGIN_ARRAYS]
        if not reads:
            continue
        ovr_locals = {x.get("n") for x in cir.walk(body) if x.get("k") == "VarDecl" and x.get("init") and
                      any(t in cir.text([c for c in cir.kids(x) if c][-1]) for t in ("mjENBL_OVERRIDE", "o_margin"))}
        in_assign = set()
        for c in cir.calls(body, "mj_assignMargin"):
            in_assign |= {id(y) for y in cir.walk(c)}
        bad = []
        for x in reads:
            nreads += 1
            if id(x) in in_assign:
                continue
            gs = norm.guards(body, x) or []
            aware = False
            for c_, pol in gs:
                t = cir.text(c_)
                if "mjENBL_OVERRIDE" in t or "o_margin" in t or (cir.vars_in(c_) & ovr_locals):
                    aware = True
            if not aware:
                bad.append(x)
        if bad:
            res.bad("R-OVERRIDE", f"{fname}:{bad[0].get('n')}", DRV, bad[0].get("line"),
                    f"{fname} uses m->{bad[0].get('n')} ({len(bad)} read(s)) without mj_assignMargin and outside an override test: with "
                    f"mjENBL_OVERRIDE the phases that honour o_margin and this one disagree on which pairs are near")
        else:
            res.ok("R-OVERRIDE", fname, {"reads": len(reads)})
    res.count("margin_reads", nreads)


# ------------------------------------------------------------------------------------------------------------ run

def run(res, tier):
    from .. import norm
    # private procedures (static void helpers with one caller, address never taken, not macro-generated) are analysed inside
    # their caller: factoring a repeated enqueue / parameter sequence out of an anchor function does not hide it
    unit = norm.ViewUnit(engine.unit(DRV), keep=ANCHORS, procedures_only=False)
    res.extra["private_helpers_inlined"] = sorted(unit.private)
    for a in ANCHORS:
        if a not in unit.funcs:
            raise AnalysisError(f"anchor {a} missing in {DRV}")
    res.count("functions", len(unit.funcs))

    res.rule("R-FINITE", "bitmask / body-pair filters equal the documented rules as finite truth tables at every use", floor=16)
    bm_name = check_bitmask(res, unit)
    wrappers, npol = polarity_sites(res, unit, bm_name)
    if not wrappers:
        # the bodyflex-level pre-filter is an optimisation (the leaf filters decide); a tree without it has no wrapper to judge
        res.extra["bodyflex_level_wrapper"] = "absent"
    check_add_pair(res, unit)
    check_body_pair(res, unit)

    res.rule("R-MUSTPASS", "every enqueue / collide call is dominated by the filters that apply to its pair", floor=24)
    geomflex = geomflex_callees(unit, bm_name)
    if not geomflex:
        raise AnalysisError("no geom:flex collide function found")
    check_flags(res, unit, geomflex)
    sites = run_pair_rule(res, unit, bm_name, geomflex)
    if not any("pushGeomGeom(-1)" in k for k in sites["mj_collision"]) or \
            not any("explicit" in k for k in sites["mj_collision"]) or \
            not any("mj_narrowphase" in k for k in sites["mj_collideTree"]):
        raise AnalysisError("enqueue sites (pushGeomGeom implicit/explicit, midphase leaf) not all found")
    check_exclude(res, unit, geomflex)
    check_fcp(res, unit, bm_name)
    check_broadphase(res, unit)

    check_override(res, unit)

    res.rule("R-CMP", "sort comparators are antisymmetric (and transitive) over all order types of their keys", floor=4)
    inst = sort_instances(unit)
    if len(inst) < 3:
        raise AnalysisError(f"expected at least three mjSORT instantiations in {DRV}, found {[f.get('n') for f, _m, _c in inst]}")
    seen = set()
    for fn, macro, cmps in inst:
        if len(cmps) != 1:
            raise AnalysisError(f"{fn.get('n')}: comparator of the sort instantiation not identified ({cmps})")
        if cmps[0] not in seen:
            seen.add(cmps[0])
            check_comparator(res, "R-CMP", unit, cmps[0], DRV, NAN_STRICT)
    res.count("sort_instantiations", len(inst))
    # the contact sort is applied to the midphase output
    if not any(cir.callee(c) in {f.get("n") for f, _m, _c in inst} for c in cir.calls(unit.funcs["mj_collision"])):
        raise AnalysisError("mj_collision does not call a sort instantiation (contact ordering anchor lost)")

    res.explanation = (
        "Finite truth tables (2-bit masks: 256 rows per use of the bitmask filter incl. argument binding; 2592 rows of filterBodyPair "
        "with parameter roles from argument provenance); all-paths dominance of every enqueue / collide call by the filter that applies "
        "to its pair (filterCollisionPair true edge, bitmask false edge per geom/flex, exclude lookup per bodyflex iteration, disable "
        "flags, filterBodyPair in the broadphase), explicit pairs bypass the bitmask and use pair_* parameters; comparator antisymmetry "
        "and transitivity by exhaustive evaluation over all order types of the keys read.")
    res.not_decided = ("that SAP / BVH pruning never drops a close pair; body_contype = OR of geom masks (compiler); sortedness of "
                       "pair_signature / exclude_signature; comparators on NaN keys (recorded under nan_notes).")
    res.assumptions = ["error handlers do not return", "comparator keys are not NaN (state checks reject NaN positions)",
                       "2-bit masks represent all masks: the filter is built from bitwise &, |, ! and logical connectives only"]
