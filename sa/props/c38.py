"""C38 The asset cache behaves as a bounded priority cache.

Decided, from the clang AST of src/user/user_cache.{cc,h} (all structured paths of every method
of the cache class; member roles are discovered from types and accessors, not from names):

R-LOCK       every public method holds a guard (lock_guard/unique_lock/scoped_lock on the class's
             mutex member) at every access to a guarded data member and at every call of a private
             helper that needs the lock; helpers that touch guarded members without locking are
             private and every call site holds the guard; no re-lock of the non-recursive mutex;
             guarded members are private and the class has no friends.
             Protected aliases: a local pointer / reference / iterator / view whose value derives, by data flow, from a
             guarded member (`&it->second`, `lookup.find(k)`, `*ordered.begin()`, `elem.get()`, a reference bound to an
             element, a structured binding of an insert result, a range-for variable, the raw pointer an element
             accessor returns, the result of a private helper that runs under the caller's lock) is itself guarded: it
             may be dereferenced, called through, advanced or passed on only inside the lock region in which it was
             obtained (guard still in scope, no unlock() since; re-locking does not revive it).  Comparing it, testing
             it for null, overwriting it and copying it into another local (which then carries the obligation) do not
             touch the storage.  Values copied out under the lock into types that cannot hold a handle (size_t,
             std::string, std::shared_ptr<T> payload copies, bool) are not aliases.  A method whose caller does not
             hold the mutex must not let an alias escape by `return` or by a store into anything that outlives the call
             and is not itself a guarded member (static, out-parameter).
R-KEYMUT     the element fields read by the ordered container's comparator are written (mutator
             call, direct write, whole-object assignment) only while the element is outside the
             ordered container: after `ordered.erase(p)` and before `ordered.insert(p)`, or on the
             `inserted == true` branch of the lookup-map insertion that created it.
R-PAIRWRITE  per path ledger: every insertion into / erasure from the lookup map, every
             replacement of an element's size and every clear() is matched by exactly the
             corresponding update of the byte counter (by that asset's size, old size read before
             the replacement) and of the ordered container; every counter write is matched by such
             an event.  Residuals of private helpers are propagated to their call sites.
R-BOUND      every counter write that can increase it is dominated by a false outcome of
             `new_value > capacity` for the very value written (idiom: `find(k) != end` implies
             `insert(k).second == false`), every write of the capacity is followed on all paths by
             the trimming helper (which exits only through `counter > capacity` false) before the
             method returns, the counter starts at 0 and `counter = 0` re-establishes the bound.
R-EVICT      the comparator is the strict lexicographic order on (access count, insertion number)
             (truth table over the nine sign combinations), the primary key is the field bumped by
             the lookup path and the secondary key is set from the cache's post-incremented running
             counter, and the trimming loop evicts `*ordered.begin()`.
Layout independence: a scalar local that is initialised once and only read (`const size_t total = size_ - p->BytesCount()
+ size;`, `bool fits = total <= capacity_;`) stands for its defining expression for as long as nothing that expression
reads has changed on the path (afterwards it is an opaque term: exit 2 if the counter is assigned from it, never a pass);
private helpers are summarised and applied at their call sites whatever their nesting; guards may be lock_guard /
unique_lock / scoped_lock (explicit unlock()/lock() and defer_lock are followed); a loop exits on its condition or on an
`if (..) break/return` in its body alike; the evicted element may be named by a local that still equals `*ordered.begin()`.
Not decided: values over histories (that data returned by a lookup is the most recent), unsigned
wrap-around of `size_ + size`, survival of assets referenced by remaining models; aliases captured by lambdas (exit 2),
handles smuggled through integers or through objects of types that do not look like handles; what a user callback does
with the payload pointer it is handed under the lock.
"""
from __future__ import annotations

import collections
import itertools
import os

from .. import cfront, cir, cxx2, norm, paths
from ..cfront import AnalysisError
from ..cxx2 import etext

TU = "src/user/user_cache.cc"
CACHE = "mjCCache"
ANCHOR_METHODS = ("Insert", "PopulateData", "HasAsset", "RemoveModel", "Reset", "SetCapacity", "Size", "Capacity",
                  "DeleteAsset")
ELEM_SIZE_ACCESSOR = "BytesCount"
MUTEX_TYPES = ("std::mutex", "std::recursive_mutex", "std::shared_mutex", "std::timed_mutex")
ORDERED = ("std::set", "std::multiset", "std::map", "std::multimap")
MAPS = ("std::unordered_map", "std::map")
INSERT_OPS = ("insert", "emplace", "try_emplace")
LEDGER_CAP = 4
METHODS_K = ("CXXMethodDecl", "FunctionDecl")


# ------------------------------------------------------------------------------------- roles

class Roles:
    pass


def load():
    ir0 = cfront.load_tu(TU, lang="cxx", filt=CACHE)
    c0 = cxx2.ClassModel(ir0["decls"], CACHE, TU)
    names = {CACHE}
    for f in c0.fields.values():
        tn = cxx2.template_name(f.get("t"))
        if tn in ORDERED:
            a = cxx2.template_args(f.get("t"))
            names.add(a[0].replace("*", "").strip())
            names.add(a[-1].strip())
    pre = os.path.commonprefix(sorted(names))
    if len(pre) >= 3:
        ir = cfront.load_tu(TU, lang="cxx", filt=pre)
    else:
        ir = cfront.load_tu(TU, lang="cxx", types=True)
    return ir


def discover(ir):
    R = Roles()
    R.ir = ir
    cache = R.cache = cxx2.ClassModel(ir["decls"], CACHE, TU)
    for a in ANCHOR_METHODS:
        cache.require_method(a)
    # mutex
    mx = [fid for fid, f in cache.fields.items() if cxx2.strip_cvref(f.get("t")) in MUTEX_TYPES]
    if len(mx) != 1:
        raise AnalysisError(f"{CACHE}: expected exactly one mutex member, found {len(mx)}")
    R.mutex = mx[0]
    R.recursive = "recursive" in cache.fields[R.mutex].get("t")
    R.guarded = {fid for fid in cache.fields if fid != R.mutex}
    # ordered container with comparator
    od = []
    for fid, f in cache.fields.items():
        if cxx2.template_name(f.get("t")) in ORDERED:
            a = cxx2.template_args(f.get("t"))
            want = 2 if "set" in cxx2.template_name(f.get("t")) else 3
            if len(a) >= want:
                od.append((fid, a[0], a[want - 1]))
    if len(od) != 1:
        raise AnalysisError(f"{CACHE}: expected exactly one ordered container with an explicit comparator, found {len(od)}")
    R.ordered, et, cmpname = od[0]
    if not et.strip().endswith("*"):
        raise AnalysisError(f"{CACHE}: ordered container does not hold element pointers ({et})")
    R.elem_name = et.replace("*", "").strip()
    R.elem = E = cxx2.ClassModel(ir["decls"], R.elem_name, TU)
    R.cmp = cxx2.ClassModel(ir["decls"], cmpname, TU)
    # lookup map: owns the elements by value
    lm = [fid for fid, f in cache.fields.items() if cxx2.template_name(f.get("t")) in MAPS and
          len(cxx2.template_args(f.get("t"))) >= 2 and cxx2.template_args(f.get("t"))[1] == R.elem_name]
    if len(lm) != 1:
        raise AnalysisError(f"{CACHE}: expected exactly one map holding {R.elem_name} by value, found {len(lm)}")
    R.lookup = lm[0]
    # comparator key fields, in order of first comparison
    ops = [m for m in R.cmp.methods.values() if m.name == "operator()" and m.node is not None]
    if len(ops) != 1:
        raise AnalysisError(f"{cmpname}: operator() not found")
    R.cmp_op = ops[0]
    keys = []
    for x in cxx2.walk(R.cmp_op.body):
        f = None
        if x.get("k") == "CXXMemberCallExpr":
            m = E.callee_method(x)
            if m is not None:
                f = E.returned_field(m)
                if f is None:
                    raise AnalysisError(f"{cmpname}: calls {m.qual}, which is not a plain field accessor")
        elif x.get("k") == "MemberExpr" and x.get("mid") in E.fields:
            f = x["mid"]
        if f is not None and f not in keys:
            keys.append(f)
    if not keys:
        raise AnalysisError(f"{cmpname}: no element field read by the comparator")
    R.keys = keys
    # counter / capacity through the public accessors
    R.counter = cache.returned_field(cache.require_method("Size")[0])
    R.capacity = cache.returned_field(cache.require_method("Capacity")[0])
    if R.counter is None or R.capacity is None or R.counter == R.capacity:
        raise AnalysisError(f"{CACHE}: Size()/Capacity() are not plain accessors of two distinct members")
    # element size field and its accessors / mutators
    R.esize = E.returned_field(E.require_method(ELEM_SIZE_ACCESSOR)[0])
    if R.esize is None:
        raise AnalysisError(f"{R.elem_name}::{ELEM_SIZE_ACCESSOR} is not a plain accessor")
    R.esize_acc = E.accessors_of(R.esize)
    R.key_mut = {}       # method id -> set(key fields written)
    R.size_mut = {}      # method id -> ("copy", param index) | ("value", param index) | ("unknown", None)
    for m in E.user_methods():
        if m.kind != "CXXMethodDecl":
            continue
        ws = E.field_writes(m)
        kf = {f for f, _, _ in ws if f in keys}
        if kf:
            R.key_mut[m.id] = kf
        for f, node, rhs in ws:
            if f != R.esize:
                continue
            how = ("unknown", None)
            pr = m.params()
            r = cxx2.skip(rhs) if rhs is not None else None
            if r is not None and r.get("k") == "MemberExpr" and r.get("mid") == R.esize:
                b = cxx2.skip(cir.kids(r)[0]) if cir.kids(r) else None
                if b is not None and b.get("k") == "DeclRefExpr":
                    for i, p in enumerate(pr):
                        if p.get("id") == (b.get("ref") or {}).get("id"):
                            how = ("copy", i)
            elif r is not None and r.get("k") == "DeclRefExpr":
                for i, p in enumerate(pr):
                    if p.get("id") == (r.get("ref") or {}).get("id"):
                        how = ("value", i)
            R.size_mut[m.id] = how
    # defaulted / implicit assignment operators overwrite every field
    R.assign_ops = {m.id for m in E.methods.values() if m.name == "operator=" and not m.deleted}
    # user constructors: which parameter initialises which field
    R.ctors = {}
    for m in E.methods.values():
        if m.kind == "CXXConstructorDecl" and m.node is not None and not m.defaulted and not m.implicit and m.params():
            inits = E.ctor_inits(m)
            pm = {}
            for f, e in inits.items():
                e = cxx2.skip(e)
                while e is not None and e.get("k") == "CallExpr" and cir.callee(e) in ("move", "forward"):
                    e = cxx2.skip(cir.args(e)[0])
                if e is not None and e.get("k") == "DeclRefExpr":
                    for i, p in enumerate(m.params()):
                        if p.get("id") == (e.get("ref") or {}).get("id"):
                            pm[f] = i
            R.ctors[m.type] = pm
    R.methods = [m for m in cache.user_methods() if m.kind == "CXXMethodDecl"]
    R.elem_ptr_t = R.elem_name + " *"
    find_id_field(R)
    return R


def is_elem_value_var(R, e):
    """DeclRefExpr to a local/param object of the element class (by value, not a container element)."""
    e = cxx2.skip(e)
    if e is None or e.get("k") != "DeclRefExpr":
        return False
    r = e.get("ref") or {}
    return r.get("k") in ("VarDecl", "ParmVarDecl") and cxx2.strip_cvref(r.get("t")) == R.elem_name and \
        "&" not in (r.get("t") or "") and "*" not in (r.get("t") or "")


def lookup_insert_call(R, e):
    """If e is `lookup.insert/emplace(...)`: (key expr, value expr) else None."""
    e = cxx2.skip(e)
    while e is not None and e.get("k") in ("ExprWithCleanups",):
        e = cxx2.skip(cir.kids(e)[0])
    if e is None or e.get("k") != "CXXMemberCallExpr":
        return None
    mf = cxx2.member_call_on_field(e)
    if not mf or mf[0] != R.lookup or mf[1] not in INSERT_OPS:
        return None
    a = cxx2.real_args(e)[1:]
    if len(a) == 1:
        v = cir.strip(a[0])
        while v is not None and v.get("k") in ("MaterializeTemporaryExpr", "CXXBindTemporaryExpr", "ExprWithCleanups"):
            v = cir.strip(cir.kids(v)[0])
        if v is not None and v.get("k") in ("CXXConstructExpr", "InitListExpr", "CXXTemporaryObjectExpr"):
            pa = cxx2.real_args(v)
            if len(pa) == 2:
                return pa[0], pa[1], e
        if v is not None and v.get("k") == "CallExpr" and cir.callee(v) == "make_pair":
            pa = cir.args(v)
            return pa[0], pa[1], e
        raise AnalysisError(f"{CACHE}: unsupported value expression in {etext(e)}")
    if len(a) == 2:
        return a[0], a[1], e
    raise AnalysisError(f"{CACHE}: unsupported lookup-map insertion {etext(e)}")


def elem_ctor_of(R, fn, var_ref_id):
    """(ctor parameter map, arg list) of the local element object with VarDecl id `var_ref_id`."""
    for x in cxx2.walk(fn):
        if x.get("k") == "VarDecl" and x.get("id") == var_ref_id:
            init = [c for c in cir.kids(x) if c is not None]
            if not init:
                return None
            e = cir.strip(init[-1])
            while e is not None and e.get("k") in ("ExprWithCleanups", "CXXBindTemporaryExpr", "MaterializeTemporaryExpr"):
                e = cir.strip(cir.kids(e)[0])
            if e is None or e.get("k") not in ("CXXConstructExpr", "CXXTemporaryObjectExpr"):
                return None
            pm = R.ctors.get(e.get("ctort"))
            if pm is None:
                return None
            return pm, cxx2.real_args(e)
    return None


def find_id_field(R):
    """The element field that equals the lookup-map key (seen at the insertion sites)."""
    cand = set()
    sites = 0
    for m in R.methods:
        for x in cxx2.walk(m.node):
            if x.get("k") != "CXXMemberCallExpr":
                continue
            ins = lookup_insert_call(R, x)
            if not ins:
                continue
            sites += 1
            k, v, _ = ins
            vv = cxx2.skip(v)
            if not is_elem_value_var(R, vv):
                raise AnalysisError(f"{m.qual}: inserted element is not a local {R.elem_name} object")
            ct = elem_ctor_of(R, m.node, vv["ref"]["id"])
            if ct is None:
                raise AnalysisError(f"{m.qual}: cannot see how the inserted {R.elem_name} is constructed")
            pm, args = ct
            here = {f for f, i in pm.items() if i < len(args) and etext(args[i]) == etext(k)}
            cand = here if sites == 1 else cand & here
    if sites == 0:
        raise AnalysisError(f"{CACHE}: no insertion into the lookup map found")
    if len(cand) != 1:
        raise AnalysisError(f"{CACHE}: cannot identify the element field holding the lookup key ({len(cand)} candidates)")
    R.idfield = cand.pop()
    R.id_acc = R.elem.accessors_of(R.idfield)
    R.insert_sites = sites


# ------------------------------------------------------------------------------------- R-LOCK

def lock_tables(R):
    cache = R.cache
    self_locking, direct = set(), {}
    for m in cache.user_methods():
        direct[m.id] = {x["mid"] for x in cxx2.walk(m.node, lambdas=False)
                        if x.get("k") == "MemberExpr" and x.get("mid") in R.guarded}
        for x in cxx2.walk(m.node):
            if x.get("k") == "VarDecl" and cxx2.guard_decl_mutex(x) == R.mutex:
                self_locking.add(m.id)
            if x.get("k") == "LambdaExpr":
                for y in cxx2.walk(x):
                    if y.get("k") == "MemberExpr" and y.get("mid") in R.guarded:
                        raise AnalysisError(f"{m.qual}: a lambda touches guarded member {cache.fname(y['mid'])}; "
                                            f"lambda bodies are not followed by the lock rule")
    needs = {mid for mid, d in direct.items() if d and mid not in self_locking}
    changed = True
    while changed:
        changed = False
        for m in cache.user_methods():
            if m.id in needs or m.id in self_locking:
                continue
            if any(c.id in needs for c, _ in cxx2.internal_calls(cache, m)):
                needs.add(m.id)
                changed = True
    return self_locking, needs


class LockRule(paths.Rule):
    use_kinds = frozenset({"MemberExpr"})

    def __init__(self, R, method, assumed, self_locking, needs):
        self.R, self.m, self.assumed = R, method, assumed
        self.self_locking, self.needs = self_locking, needs
        self._guards = {}
        self.sites = []      # (callee Method, call node, held)

    def initial(self, fn):
        return frozenset({"<caller>"}) if self.assumed else frozenset()

    def assign(self, st, node, ctx):
        if node.get("k") == "VarDecl" and cxx2.guard_decl_mutex(node) == self.R.mutex:
            if st and not self.R.recursive:
                ctx.report(node, f"the non-recursive mutex `{self.R.cache.fname(self.R.mutex)}` is locked again while "
                                 f"already held (self-deadlock)", key="relock")
            return st | {node.get("id")}
        return st

    def scope_exit(self, st, comp, ctx):
        g = self._guards.get(id(comp))
        if g is None:
            g = self._guards[id(comp)] = frozenset(cxx2.scope_guards(comp))
        return st - g if g else st

    def use(self, st, node, ctx):
        if node.get("mid") in self.R.guarded and not st:
            f = self.R.cache.fname(node["mid"])
            ctx.report(node, f"guarded member `{f}` is accessed without holding `{self.R.cache.fname(self.R.mutex)}`",
                       key=f)
        return st

    def call(self, st, node, name, ctx):
        m = self.R.cache.callee_method(node)
        if m is not None:
            if m.id in self.needs:
                self.sites.append((m, node, bool(st)))
                if not st:
                    ctx.report(node, f"helper {m.desc} touches guarded members and does not lock, but is called "
                                     f"without holding `{self.R.cache.fname(self.R.mutex)}`", key=f"->{m.desc}")
            elif m.id in self.self_locking and st and not self.R.recursive:
                ctx.report(node, f"{m.desc} locks the non-recursive mutex and is called while it is already held "
                                 f"(self-deadlock)", key=f"relock->{m.desc}")
        r = cxx2.receiver(node)
        if r and name in ("unlock", "lock") and r[0] is not None:
            b = cxx2.skip(r[0])
            if b is not None and b.get("k") == "DeclRefExpr":
                vid = (b.get("ref") or {}).get("id")
                if name == "unlock":
                    return st - {vid}
                if vid in {x.get("id") for x in cxx2.walk(ctx.fn) if x.get("k") == "VarDecl" and
                           cxx2.template_name(x.get("t")) in cxx2.GUARD_TEMPLATES}:
                    return st | {vid}
        return st


class AliasRule(paths.Rule):
    """R-LOCK, protected-alias clause.  State: (guards held, {(local id, protected member it points into, stale)}).

    A local becomes a protected alias when it is initialised / assigned / bound from an expression that designates or
    points into a guarded member (cxx2.AliasEval: data flow and types only).  It is valid inside the lock region in which
    it was obtained: when the last guard is released (end of the guard's block, explicit unlock()) every alias held at that
    moment turns stale, and it stays stale if the mutex is taken again (the element may be gone by then).  Every mention of
    a stale alias (or of an alias while no guard is held) that touches what it designates is reported; copies of the handle
    carry the taint on, comparisons / null tests / overwriting the local do not touch the storage.  A method whose caller
    does not hold the mutex must not hand an alias out: not by `return`, not by a store to anything that outlives the call
    and is not itself guarded."""
    use_kinds = frozenset({"DeclRefExpr"})

    def __init__(self, R, method, assumed, self_locking, needs):
        self.R, self.m, self.assumed = R, method, assumed
        self.self_locking, self.needs = self_locking, needs
        self._guards = {}
        self.par = cxx2.parent_map(method.node)
        self.decls, self.binding, self.guard_vars, self.born = {}, {}, set(), {}
        for x in cxx2.walk(method.node):
            k = x.get("k")
            if k in ("VarDecl", "ParmVarDecl", "DecompositionDecl"):
                self.decls[x.get("id")] = x
                if k == "VarDecl" and cxx2.template_name(x.get("t")) in cxx2.GUARD_TEMPLATES:
                    self.guard_vars.add(x.get("id"))
            if k == "DecompositionDecl":
                for b in cir.kids(x):
                    if b and b.get("k") == "BindingDecl":
                        e = [c for c in cir.kids(b) if c is not None]
                        self.binding[b.get("id")] = ("&" in (x.get("t") or ""), (e[0].get("t") if e else None),
                                                     (e[0].get("dt") if e else None), b.get("n"))
        self.lambda_refs = set()
        for x in cxx2.walk(method.node):
            if x.get("k") == "LambdaExpr":
                inner = {y.get("id") for y in cxx2.walk(x) if y.get("k") in ("VarDecl", "ParmVarDecl", "BindingDecl")}
                for y in cxx2.walk(x):
                    if y.get("k") == "DeclRefExpr" and (y.get("ref") or {}).get("id") not in inner:
                        self.lambda_refs.add((y.get("ref") or {}).get("id"))
        rt = method.type[:method.type.find("(")] if "(" in method.type else method.type
        self.ret_ref, self.ret_carries = "&" in rt, cxx2.carries_alias(rt)
        self.ev = cxx2.AliasEval(self.member_root, self.own_call_root, self.is_ref)
        self.tracked = set()

    # -- what AliasEval needs to know about the class
    def member_root(self, mid):
        return self.R.cache.fname(mid) if mid in self.R.guarded else None

    def own_call_root(self, call):
        m = self.R.cache.callee_method(call)
        if m is None or (m.id not in self.needs and m.id not in self.self_locking):
            return None
        rt = m.type[:m.type.find("(")] if "(" in m.type else m.type
        return f"{self.R.cache.name}::{m.name}()", "&" in rt

    def is_ref(self, vid):
        if vid in self.binding:
            return self.binding[vid][0]
        return "&" in ((self.decls.get(vid) or {}).get("t") or "")

    def vtype(self, vid):
        if vid in self.binding:
            return self.binding[vid][1], self.binding[vid][2]
        d = self.decls.get(vid) or {}
        return d.get("t"), d.get("dt")

    def vname(self, vid):
        if vid in self.binding:
            return self.binding[vid][3]
        return (self.decls.get(vid) or {}).get("n") or "?"

    def is_local(self, vid):
        """A variable whose life ends with the call and that nobody else can see."""
        if vid in self.binding:
            return True
        d = self.decls.get(vid)
        if d is None or d.get("storageClass") == "static" or d.get("tls"):
            return False
        return not (d.get("k") == "ParmVarDecl" and "&" in (d.get("t") or ""))

    # -- state
    def initial(self, fn):
        return (frozenset({"<caller>"}) if self.assumed else frozenset(), frozenset())

    @staticmethod
    def env(al):
        return {v: (root, stale) for v, root, stale in al}

    @staticmethod
    def released(held, al):
        """The last guard is gone: what was obtained under it is no longer protected."""
        return (held, al if held else frozenset((v, root, True) for v, root, _ in al))

    def bind(self, st, vid, val, node, ctx):
        """Local `vid` receives the value `val` (AliasEval result or None)."""
        held, al = st
        al = frozenset(a for a in al if a[0] != vid)
        t, dt = self.vtype(vid)
        if val is not None and val[0] != "T" and (self.is_ref(vid) or cxx2.carries_alias(t, dt)):
            if vid in self.lambda_refs:
                raise AnalysisError(f"{self.m.qual}: `{self.vname(vid)}` points into guarded member `{val[1]}` and is used "
                                    f"inside a lambda; lambda bodies are not followed by the lock rule")
            al = al | {(vid, val[1], bool(val[2]) or not held)}
            self.tracked.add(vid)
            self.born[vid] = (node.get("line"), bool(held))
        return held, al

    def escape(self, val, node, how, ctx):
        ctx.report(node, f"a {'reference' if val[0] == 'L' else 'pointer / iterator'} into lock-protected "
                         f"`{val[1]}` {how}; `{self.R.cache.fname(self.R.mutex)}` is no longer held when it is used there, so "
                         f"a concurrent erase / replace / clear of the element frees or rewrites what it designates",
                   key=f"alias-of-{val[1]}:{'returned' if 'return' in how else 'stored'}-beyond-lock")

    # -- transfer
    def assign(self, st, node, ctx):
        held, al = st
        k = node.get("k")
        if k == "VarDecl" and cxx2.guard_decl_mutex(node) == self.R.mutex:
            return held | {node.get("id")}, al
        if k == "VarDecl":
            init = [c for c in cir.kids(node) if c is not None and not c.get("k", "").endswith("Attr")]
            val = self.ev.value(init[-1], self.env(al)) if init else None
            if val is not None and val[0] != "T" and not self.is_local(node.get("id")) and \
                    (self.is_ref(node.get("id")) or cxx2.carries_alias(node.get("t"), node.get("dt"))):
                self.escape(val, node, f"is stored in `{node.get('n')}`, which outlives the call", ctx)
                return st
            return self.bind(st, node.get("id"), val, node, ctx)
        if k == "DecompositionDecl":
            init = [c for c in cir.kids(node) if c is not None and c.get("k") != "BindingDecl"]
            val = self.ev.value(init[-1], self.env(al)) if init else None
            for b in cir.kids(node):
                if b and b.get("k") == "BindingDecl":
                    v = val
                    if v is not None and self.binding[b.get("id")][0] and v[0] != "L":
                        v = None            # reference bindings into a temporary
                    st = self.bind(st, b.get("id"), v, node, ctx)
            return st
        if k == "BinaryOperator" and node.get("op") == "=":
            tgt, rhs = cir.kids(node)
            return self.store(st, tgt, rhs, node, ctx)
        return st

    def store(self, st, tgt, rhs, node, ctx):
        held, al = st
        env = self.env(al)
        val = self.ev.value(rhs, env)
        t = cir.strip(tgt, casts=False)
        tid = (t.get("ref") or {}).get("id") if t is not None and t.get("k") == "DeclRefExpr" else None
        if tid is not None and self.is_local(tid) and not self.is_ref(tid):
            return self.bind(st, tid, val, node, ctx)
        if val is None or val[0] == "T" or not cxx2.carries_alias((t or {}).get("t"), (t or {}).get("dt")):
            return st
        into = self.ev.value(tgt, env)
        if into is not None and into[0] == "L":
            return st                   # stored inside the guarded state itself
        if not self.assumed:
            self.escape(val, node, f"is stored in `{etext(tgt)}`, which outlives the call", ctx)
        return st

    def scope_exit(self, st, comp, ctx):
        g = self._guards.get(id(comp))
        if g is None:
            g = self._guards[id(comp)] = frozenset(cxx2.scope_guards(comp))
        if not g or not (st[0] & g):
            return st
        return self.released(st[0] - g, st[1])

    def use(self, st, node, ctx):
        vid = (node.get("ref") or {}).get("id")
        held, al = st
        ent = next((a for a in al if a[0] == vid), None)
        if ent is None or (held and not ent[2]):
            return st
        how = cxx2.alias_context(self.par, node, self.is_ref(vid), cxx2.direct_handle(*self.vtype(vid)))
        if how in cxx2.ALIAS_BENIGN:
            return st
        mx = self.R.cache.fname(self.R.mutex)
        line, locked_birth = self.born.get(vid, (None, False))
        if not locked_birth:
            when = f"although it was obtained while `{mx}` was not held by this method"
        elif ent[2]:
            when = f"after the lock region in which it was obtained has ended"
        else:
            when = f"while `{mx}` is not held"
        kind = "reference" if self.is_ref(vid) else "pointer / iterator"
        ctx.report(node, f"`{self.vname(vid)}` is a {kind} into lock-protected `{ent[1]}` (obtained at line {line}); {how} "
                         f"{when}: a concurrent erase / replace / clear of the element (any other public method) frees or "
                         f"rewrites what it designates",
                   key=f"alias-of-{ent[1]}:use-outside-lock")
        return st

    def call(self, st, node, name, ctx):
        held, al = st
        r = cxx2.receiver(node)
        if r and name in ("unlock", "lock") and r[0] is not None:
            b = cxx2.skip(r[0])
            vid = (b.get("ref") or {}).get("id") if b is not None and b.get("k") == "DeclRefExpr" else None
            if vid in self.guard_vars:
                if name == "unlock":
                    return self.released(held - {vid}, al) if vid in held else st
                return held | {vid}, al
        if node.get("k") == "CXXOperatorCallExpr" and cxx2.op_name(node) == "=":
            a = cxx2.op_args(node)
            if len(a) == 2:
                return self.store(st, a[0], a[1], node, ctx)
        if r and r[0] is not None and node.get("k") == "CXXMemberCallExpr":
            # a local container / aggregate that receives a handle (v.push_back(p), s.insert(it)) holds it from now on
            b = cir.strip(r[0], casts=False)
            vid = (b.get("ref") or {}).get("id") if b is not None and b.get("k") == "DeclRefExpr" else None
            if vid is not None and vid in self.decls and self.is_local(vid) and not any(a[0] == vid for a in al):
                env = self.env(al)
                for x in cxx2.real_args(node)[1:]:
                    val = self.ev.value(x, env)
                    if val is not None and val[0] != "T":
                        return self.bind(st, vid, val, node, ctx)
        return st

    def ret(self, st, node, ctx):
        if self.assumed or not (self.ret_ref or self.ret_carries):
            return
        c = [x for x in cir.kids(node) if x is not None]
        val = self.ev.value(c[0], self.env(st[1])) if c else None
        if val is None or val[0] == "T":
            return
        if (self.ret_ref and val[0] == "L") or self.ret_carries:
            self.escape(val, node, "is returned to the caller (the guard is released when the method returns)", ctx)


def check_alias(res, R, m, assumed, self_locking, needs):
    """Protected-alias clause of R-LOCK for one method."""
    rule = AliasRule(R, m, assumed, self_locking, needs)
    ctx = cxx2.explore(rule, TU, m.node)
    by = collections.OrderedDict()
    for rp in ctx.reports:
        by.setdefault(rp["key"], rp)
    for key, rp in by.items():
        res.bad("R-LOCK", f"{m.qual}:{key}", rp["file"], rp["line"], rp["msg"])
    if not by:
        res.ok("R-LOCK", f"{m.qual}:protected-aliases",
               {"file": m.file, "line": m.line, "aliases_followed": sorted(rule.vname(v) for v in rule.tracked)})
    return len(rule.tracked)


def check_lock(res, R):
    res.rule("R-LOCK", "public methods hold the mutex at every guarded-member access; non-locking helpers are private "
             "and called only with the mutex held; no re-lock; guarded members private, no friends; pointers / references "
             "/ iterators derived from guarded members are used only inside the lock region they were obtained in and do "
             "not escape it", floor=20)
    cache = R.cache
    self_locking, needs = lock_tables(R)
    R.self_locking, R.needs_lock = self_locking, needs
    n_sites = n_alias = 0
    for m in R.methods:
        private = m.access != "public"
        assumed = private and m.id in needs
        if m.access == "public" and m.id in needs:
            pass     # explored with no lock held: every access is reported
        rule = LockRule(R, m, assumed, self_locking, needs)
        ctx = cxx2.explore(rule, TU, m.node)
        n_alias += check_alias(res, R, m, assumed, self_locking, needs)
        by = collections.OrderedDict()
        for rp in ctx.reports:
            by.setdefault(rp["key"], rp)
        site_bad = {k for k in by if k.startswith("->")}
        if m.access == "public" or not assumed:
            other = [rp for k, rp in by.items() if not k.startswith("->")]
            if other:
                for rp in other:
                    res.bad("R-LOCK", f"{m.qual}:{rp['key']}", rp["file"], rp["line"], rp["msg"])
            else:
                res.ok("R-LOCK", m.qual, {"file": m.file, "line": m.line, "locks": m.id in self_locking,
                                          "touches_guarded": m.id in needs or m.id in self_locking})
        else:
            other = [rp for k, rp in by.items() if not k.startswith("->")]
            for rp in other:
                res.bad("R-LOCK", f"{m.qual}:{rp['key']}", rp["file"], rp["line"], rp["msg"])
            if not other:
                res.ok("R-LOCK", f"{m.qual}:private-helper", {"needs_lock": True, "access": m.access})
        seen = set()
        for callee, node, held in rule.sites:
            key = f"{m.qual}->{callee.desc}"
            if key in seen:
                continue
            seen.add(key)
            n_sites += 1
            if f"->{callee.desc}" in site_bad:
                rp = by[f"->{callee.desc}"]
                res.bad("R-LOCK", key, rp["file"], rp["line"], rp["msg"])
            else:
                res.ok("R-LOCK", key, {"file": m.file, "line": node.get("line")})
        if m.id in needs and m.access == "public":
            # a public method that needs the lock but never takes it was reported at its accesses above
            pass
    # helpers that need the caller's lock must not be callable from outside
    for m in R.methods:
        if m.id in needs and m.access == "public" and m.id not in self_locking:
            continue   # already reported per access
    pub = [cache.fname(f) for f in R.guarded if cache.field_access[f] == "public"]
    if pub or cache.friends:
        res.bad("R-LOCK", f"{CACHE}:encapsulation", cache.file, cache.node.get("line"),
                f"guarded members reachable from outside the class (public: {pub}, friends: {cache.friends}); the lock "
                f"discipline cannot be decided from the class alone")
    else:
        res.ok("R-LOCK", f"{CACHE}:encapsulation", {"guarded": sorted(cache.fname(f) for f in R.guarded)})
    res.count("helper_call_sites", n_sites)
    res.count("protected_aliases_followed", n_alias)


API_TU = "src/user/user_api.cc"
API_FUNCS = {"mj_getCacheSize": "Size", "mj_getCacheCapacity": "Capacity", "mj_setCacheCapacity": "SetCapacity",
             "mj_clearCache": "Reset"}


def check_api(res, R):
    """The C wrappers reach the cache only through public methods that take the lock themselves, and the
    reporting wrappers return the accessor's value unchanged."""
    ir = cfront.load_tu(API_TU, lang="cxx", filt="Cache")
    fns = {d.get("n"): d for d in ir["decls"] if d.get("k") == "FunctionDecl" and cir.body(d) is not None}
    cache = R.cache
    for api, meth in API_FUNCS.items():
        fn = fns.get(api)
        if fn is None:
            raise AnalysisError(f"anchor function {api} not found in {API_TU}")
        calls = []
        for x in cxx2.walk(fn):
            if x.get("k") == "CXXMemberCallExpr":
                r = cxx2.receiver(x)
                ot = cxx2.strip_cvref(((cir.strip(r[0]) if r and r[0] is not None else None) or {}).get("t")).replace("*", "").strip()
                if ot == CACHE:
                    calls.append((x, r[2]))
        construct = f"{api}:locked-public-methods-only"
        bad = []
        for x, nm in calls:
            ms = [m for m in cache.methods_named(nm) if not m.deleted]
            if not ms or any(m.access != "public" or m.id not in R.self_locking for m in ms):
                bad.append((x, nm))
        if not any(nm == meth for _, nm in calls):
            res.bad("R-LOCK", construct, API_TU, fn.get("line"), f"{api} does not call {CACHE}::{meth}")
        elif bad:
            res.bad("R-LOCK", construct, API_TU, bad[0][0].get("line"),
                    f"{api} calls {CACHE}::{bad[0][1]}, which is not a public method that takes the lock itself")
        else:
            res.ok("R-LOCK", construct, {"calls": sorted({nm for _, nm in calls})})
        if meth in ("Size", "Capacity"):
            construct = f"{api}:returns-accessor-unchanged"
            rets = []
            vl = cxx2.value_locals(fn)
            for x in cxx2.walk(fn):
                if x.get("k") == "ReturnStmt":
                    c = [y for y in cir.kids(x) if y is not None]
                    e = cxx2.skip(c[0]) if c else None
                    # `const size_t n = cache->Size(); return n;` returns the accessor's value as well
                    while e is not None and e.get("k") == "DeclRefExpr" and (e.get("ref") or {}).get("id") in vl:
                        e = cxx2.skip(vl[e["ref"]["id"]][1])
                    rets.append(e)
            good = [e for e in rets if e is not None and e.get("k") == "CXXMemberCallExpr" and cir.callee(e) == meth]
            other = [e for e in rets if e is not None and e not in good and not cxx2.is_zero_literal(e)]
            if good and not other:
                res.ok("R-LOCK", construct, None)
            else:
                res.bad("R-LOCK", construct, API_TU, fn.get("line"),
                        f"{api} does not return {CACHE}::{meth}() unchanged (or 0 for a null cache)")


# ------------------------------------------------------------------------------------- ledger / keymut / bound

St = collections.namedtuple("St", "out fresh alias led ver canon facts present dirty defs")


def fs_get(fs, key, default=0):
    for k, v in fs:
        if k == key:
            return v
    return default


def fs_set(fs, key, val, zero=0):
    d = dict(fs)
    if val == zero:
        d.pop(key, None)
    else:
        d[key] = val
    return frozenset(d.items())


class Summary:
    def __init__(self):
        self.leds = []          # distinct exit ledgers (tuple of ((dom, term), n)) in terms of parameter names
        self.establishes = False
        self.writes_counter = False
        self.grow_req = []      # [(origin, form)] growth writes not dominated inside the helper
        self.cap_dirty = False
        self.key_req = {}       # param index -> (what, node)
        self.params = []
        self.touches_lookup = False   # inserts into / erases from the lookup map (also through callees)
        self.mutates_size = False     # replaces an element's size (also through callees)
        self.grows = False            # contains a counter write that can increase it (also through callees)


class CacheRule(paths.Rule):
    """Ledger (R-PAIRWRITE), key mutation (R-KEYMUT) and bound (R-BOUND) state on one path."""

    def __init__(self, R, method, summaries, is_helper):
        self.R, self.m, self.summ, self.is_helper = R, method, summaries, is_helper
        self.exits = []
        self.events = {}         # construct -> (node, kind)
        self.keymut_ok = set()
        self.keymut_sites = {}
        self.bound_ok = {}
        self.bound_sites = {}
        self.summary = Summary()
        self.pnames = [p.get("n") for p in method.params()]
        self.summary.params = self.pnames
        self.elem_params = {p.get("n"): i for i, p in enumerate(method.params())
                            if cxx2.strip_cvref(p.get("t")) == R.elem_ptr_t}
        self.trunc = False
        # value locals (`const size_t total = size_ - p->BytesCount() + size;`, `bool fits = total <= capacity_;`):
        # {VarDecl id: (name, init expr, what the initialiser reads)}; see resolve()
        self.locals = {}
        vl = cxx2.value_locals(method.node)
        via = {d.get("n"): set(cir.vars_in(i)) | {z["ref"].get("n") for z in cir.walk(i) if z.get("k") == "DeclRefExpr" and
                                                  (z.get("ref") or {}).get("k") == "BindingDecl"} for d, i in vl.values()}
        for vid, (decl, init) in vl.items():
            deps = self.def_deps(decl, init)
            if deps is not None:
                deps, work = set(deps), list(deps)
                while work:
                    for v in via.get(work.pop(), ()):
                        if v not in deps:
                            deps.add(v)
                            work.append(v)
                self.locals[vid] = (decl.get("n"), init, frozenset(deps))

    # -- helpers
    def initial(self, fn):
        return St(frozenset(), frozenset(), frozenset(), frozenset(), frozenset(), frozenset(), frozenset(),
                  frozenset(), frozenset(), frozenset())

    # -- value locals: a scalar local that is initialised once and only read stands for its defining expression for as
    #    long as nothing that expression reads has changed on the path (tracked in St.defs; dropped by drop_defs)
    _DEF_OPS = ("+", "-", "<", ">", "<=", ">=", "==", "!=", "&&", "||")

    def def_deps(self, decl, init):
        """What the initialiser of a scalar local reads: tags #C (byte counter), #CAP (capacity), #SZ (an element's
        size), #L (membership of the lookup map) and the names of variables (through pointer locals to theirs); None if
        the initialiser is not an expression the rules interpret (the local then stays an opaque term, as any other
        expression)."""
        R = self.R
        if not cxx2._TRIVIAL.match(cxx2.strip_cvref(decl.get("dt") or decl.get("t"))) or "*" in (decl.get("t") or ""):
            return None
        deps = set()

        def lvalue_vars(x):
            y = self._no_opcalls(x)
            if not cir.is_pure(y):
                return False
            deps.update(cir.vars_in(x))
            for z in cir.walk(x):
                if z.get("k") == "DeclRefExpr" and (z.get("ref") or {}).get("k") == "BindingDecl":
                    deps.add(z["ref"].get("n"))
            return True

        def ok(x):
            x = cxx2.skip(x)
            if x is None:
                return False
            k = x.get("k")
            if k in ("IntegerLiteral", "CXXBoolLiteralExpr"):
                return True
            if k == "DeclRefExpr":
                r = x.get("ref") or {}
                if r.get("k") in ("VarDecl", "ParmVarDecl", "BindingDecl"):
                    deps.add(r.get("n"))
                    return True
                return False
            if k == "MemberExpr":
                b = cxx2.skip(cir.kids(x)[0]) if cir.kids(x) else None
                if x.get("mid") in (R.counter, R.capacity) and (b is None or b.get("k") == "CXXThisExpr"):
                    deps.add("#C" if x["mid"] == R.counter else "#CAP")
                    return True
                if x.get("mid") == R.esize and b is not None:
                    deps.add("#SZ")
                    return lvalue_vars(b)
                return False
            if k == "CXXMemberCallExpr":
                m = R.elem.callee_method(x)
                if m is not None and m.id in R.esize_acc:
                    r = cxx2.receiver(x)
                    deps.add("#SZ")
                    return r[0] is not None and lvalue_vars(r[0])
            if self.presence(x) is not None:
                deps.add("#L")
                return all(lvalue_vars(a) for y in cxx2.walk(x) if y.get("k") == "CXXMemberCallExpr"
                           for a in cxx2.real_args(y)[1:])
            if k == "BinaryOperator" and x.get("op") in self._DEF_OPS:
                return all(ok(c) for c in cir.kids(x))
            if k == "UnaryOperator" and x.get("op") == "!":
                return ok(cir.kids(x)[0])
            return False
        return frozenset(deps) if ok(init) else None

    def resolve(self, st):
        """expr -> expr: value locals whose definition is still current on this path are replaced by it."""
        def res(x):
            x = cxx2.skip(x)
            hops = 0
            while x is not None and x.get("k") == "DeclRefExpr" and (x.get("ref") or {}).get("id") in st.defs and hops < 8:
                x = cxx2.skip(self.locals[x["ref"]["id"]][1])
                hops += 1
            return x
        return res

    def drop_defs(self, st, *tags, var=None):
        if not st.defs:
            return st
        keep = frozenset(d for d in st.defs if not (self.locals[d][2] & set(tags)) and
                         (var is None or (var != self.locals[d][0] and var not in self.locals[d][2])))
        return st if keep == st.defs else st._replace(defs=keep)

    def canon_key(self, st, k):
        seen = set()
        while k not in seen:
            seen.add(k)
            nk = fs_get(st.alias, k, None)
            if nk is None:
                break
            k = nk
        return k

    def key_of_ptr(self, st, e):
        return self.canon_key(st, cxx2.elem_key_ptr(e))

    def key_of_obj(self, st, e):
        return self.canon_key(st, cxx2.elem_key_obj(e))

    def sz_term(self, st, key):
        t = f"SZ({key})#{fs_get(st.ver, key)}"
        return fs_get(st.canon, t, t)

    def leaf_ledger(self, st):
        R = self.R

        def leaf(x):
            x = cxx2.skip(x)
            if x is None:
                return "V()"
            if x.get("k") == "MemberExpr" and x.get("mid") == R.counter:
                return "C"
            if x.get("k") == "CXXMemberCallExpr":
                m = R.elem.callee_method(x)
                if m is not None and m.id in R.esize_acc:
                    r = cxx2.receiver(x)
                    key = self.key_of_ptr(st, r[0]) if r[1] else self.key_of_obj(st, r[0])
                    return self.sz_term(st, key)
            if x.get("k") == "MemberExpr" and x.get("mid") == R.esize:
                b = cir.kids(x)[0]
                key = self.key_of_ptr(st, b) if x.get("arrow") else self.key_of_obj(st, b)
                return self.sz_term(st, key)
            t = f"V({etext(x)})"
            return fs_get(st.canon, t, t)
        return leaf

    def leaf_bound(self, x):
        x = cxx2.skip(x)
        if x is not None and x.get("k") == "MemberExpr" and x.get("mid") == self.R.counter:
            return "C"
        if x is not None and x.get("k") == "MemberExpr" and x.get("mid") == self.R.capacity:
            return "CAP"
        return f"V({etext(x)})"

    def led(self, st, dom, term, delta, origin):
        """Ledger entry (dom, term) += delta; entries carry the constructs that produced them on this path."""
        origins = origin if isinstance(origin, frozenset) else frozenset({origin})
        d = {k: (n, o) for k, n, o in st.led}
        n0, o0 = d.get((dom, term), (0, frozenset()))
        n = n0 + delta
        if abs(n) > LEDGER_CAP:
            self.trunc = True
            return None
        if n == 0:
            d.pop((dom, term), None)
        else:
            d[(dom, term)] = (n, o0 | origins)
        return st._replace(led=frozenset((k, v[0], v[1]) for k, v in d.items()))

    def event(self, construct, node, kind):
        self.events.setdefault(construct, (node, kind))
        if kind == "member":
            self.summary.touches_lookup = True

    def forget_var(self, st, var):
        if not var:
            return st
        def has(s):
            return var in cxx2.words(s)
        out = frozenset(k for k in st.out if not has(k))
        alias = frozenset((a, b) for a, b in st.alias if a != var and not has(b))
        fresh = frozenset(f for f in st.fresh if not (has(f[0]) or has(f[1])))
        facts = frozenset(f for f in st.facts if not any(has(t) for t, _ in f))
        present = frozenset(k for k in st.present if not has(k))
        return self.drop_defs(st._replace(out=out, alias=alias, fresh=fresh, facts=facts, present=present), var=var)

    def range_iter(self, st, loop, ctx):
        for v in cxx2.range_vars(loop):
            st = self.forget_var(st, v)
        return st

    # -- key mutation check
    def check_keymut(self, st, key, node, what, ctx):
        construct = f"{self.m.qual}:{what}"
        self.keymut_sites.setdefault(construct, node)
        if key in st.out:
            return
        base = key.lstrip("&*")
        if self.is_helper and key in self.elem_params:
            self.summary.key_req[self.elem_params[key]] = (what, node)
            return
        ctx.report(node, f"{what}: comparator key of an element is written while the element may be inside the ordered "
                         f"container `{self.R.cache.fname(self.R.ordered)}` (no erase of `{key}` before it on this "
                         f"path, and it is not a freshly inserted element)", key=construct, rule="R-KEYMUT")

    # -- counter writes
    def counter_write(self, st, node, op, rhs, ctx):
        R = self.R
        cname = R.cache.fname(R.counter)
        res_ = self.resolve(st)
        if rhs is not None:
            rhs = res_(rhs)
        construct = f"{self.m.qual}:{cname} {op} {self.describe(rhs, res_)}"
        self.event(construct, node, "counter")
        self.bound_sites.setdefault(construct, node)
        self.summary.writes_counter = True
        leaf = self.leaf_ledger(st)
        # ledger
        if op == "=" and cxx2.is_zero_literal(rhs):
            st = self.led(st, "C", "ABS0", +1, construct)
            if st is None:
                return None
            return self.drop_defs(st._replace(facts=frozenset({frozenset({("C", 1)})}), dirty=frozenset()), "#C")
        if op == "=":
            N = cxx2.linear(rhs, leaf, res_)
            if N.get("C") != 1:
                raise AnalysisError(f"{self.m.qual}: byte counter assigned a value that is not `counter ± terms` "
                                    f"({etext(rhs)})")
            delta = {t: c for t, c in N.items() if t != "C"}
            Nb = cxx2.linear(rhs, self.leaf_bound, res_)
        elif op in ("+=", "-="):
            sg = 1 if op == "+=" else -1
            delta = {t: sg * c for t, c in cxx2.linear(rhs, leaf, res_).items()}
            Nb = {t: sg * c for t, c in cxx2.linear(rhs, self.leaf_bound, res_).items()}
            Nb["C"] = Nb.get("C", 0) + 1
        elif op in ("++", "--"):
            delta = {"V(1)": 1 if op == "++" else -1}
            Nb = {"C": 1, "V(1)": 1 if op == "++" else -1}
        else:
            raise AnalysisError(f"{self.m.qual}: unsupported write `{op}` to the byte counter")
        for t, c in delta.items():
            st = self.led(st, "C", t, c, construct)
            if st is None:
                return None
        st = self.drop_defs(st, "#C")      # locals computed from the old counter value no longer equal their definition
        # bound
        grows = any(c > 0 for t, c in Nb.items() if t != "C")
        form = frozenset(Nb.items())
        if grows:
            self.summary.grows = True
            if form in st.facts:
                self.bound_ok.setdefault(construct, True)
                st = st._replace(facts=frozenset({frozenset({("C", 1)})}))
            else:
                self.bound_ok[construct] = False
                st = st._replace(facts=frozenset(f for f in st.facts if not any(t == "C" for t, _ in f)),
                                 dirty=st.dirty | {(construct, form)})
        else:
            self.bound_ok.setdefault(construct, True)
        return st

    def describe(self, rhs, resolve=None):
        """Name-free description of the written value (terms sorted, locals abstracted by role)."""
        if rhs is None:
            return "1"
        if cxx2.is_zero_literal(rhs):
            return "0"
        R = self.R

        def leaf(x):
            x = cxx2.skip(x)
            if x is not None and x.get("k") == "MemberExpr" and x.get("mid") == R.counter:
                return "counter"
            if x is not None and x.get("k") == "CXXMemberCallExpr":
                m = R.elem.callee_method(x)
                if m is not None and m.id in R.esize_acc:
                    return "elem.size"
            if x is not None and x.get("k") == "MemberExpr" and x.get("mid") == R.esize:
                return "elem.size"
            if x is not None and x.get("k") == "DeclRefExpr" and (x.get("ref") or {}).get("k") == "ParmVarDecl":
                ps = [p.get("id") for p in self.m.params()]
                rid = (x.get("ref") or {}).get("id")
                if rid in ps:
                    return f"param{ps.index(rid)}"
            return "expr"
        N = cxx2.linear(rhs, leaf, resolve)
        return " ".join(f"{'+' if c > 0 else '-'}{t}" for t, c in sorted(N.items()))

    # -- transfer
    def assign(self, st, node, ctx):
        R = self.R
        k = node.get("k")
        if k == "DecompositionDecl":
            init = [c for c in cir.kids(node) if c is not None and c.get("k") != "BindingDecl"]
            binds = [b.get("n") for b in cir.kids(node) if b and b.get("k") == "BindingDecl"]
            for b in binds:
                st = self.forget_var(st, b)
            ins = lookup_insert_call(R, init[-1]) if init else None
            if ins and len(binds) == 2:
                st = st._replace(fresh=st.fresh | {(binds[0], binds[1], etext(ins[0]), self.value_size(st, ins[1], ctx))})
            return st
        if k == "VarDecl":
            st = self.forget_var(st, node.get("n"))
            init = [c for c in cir.kids(node) if c is not None]
            if not init:
                return st
            if node.get("id") in self.locals:
                return st._replace(defs=st.defs | {node.get("id")})
            e = init[-1]
            ins = None
            ee = cxx2.skip(e)
            if ee is not None and ee.get("k") == "CXXMemberCallExpr":
                mf = cxx2.member_call_on_field(ee)
                if mf and mf[0] == R.lookup and mf[1] in INSERT_OPS:
                    ins = lookup_insert_call(R, ee)
            if ins:
                v = node.get("n")
                return st._replace(fresh=st.fresh | {(f"{v}.first", f"{v}.second", etext(ins[0]),
                                                      self.value_size(st, ins[1], ctx))})
            t = node.get("t") or ""
            if cxx2.strip_cvref(t) == R.elem_ptr_t and cir.is_pure(self._no_opcalls(e)):
                return st._replace(alias=fs_set(st.alias, node.get("n"), self.canon_key(st, etext(e)), zero=None))
            if cxx2.strip_cvref(t) == R.elem_name and "&" not in t and "*" not in t:
                # local element object: remember the size it was constructed with
                c = cir.strip(e)
                while c is not None and c.get("k") in ("ExprWithCleanups", "CXXBindTemporaryExpr", "MaterializeTemporaryExpr"):
                    c = cir.strip(cir.kids(c)[0])
                if c is not None and c.get("k") in ("CXXConstructExpr", "CXXTemporaryObjectExpr"):
                    pm = R.ctors.get(c.get("ctort"))
                    a = cxx2.real_args(c)
                    if pm and R.esize in pm and pm[R.esize] < len(a):
                        src = f"V({etext(a[pm[R.esize]])})"
                        return st._replace(canon=fs_set(st.canon, f"SZ(&{node.get('n')})#0", src, zero=None))
            return st
        # plain assignments / ++ / --
        c = cir.kids(node)
        tgt = cir.strip(c[0]) if c else None
        if tgt is None:
            return st
        op = node.get("op")
        if tgt.get("k") == "MemberExpr" and tgt.get("mid") == R.counter:
            rhs = c[1] if len(c) > 1 else None
            return self.counter_write(st, node, op, rhs, ctx)
        if tgt.get("k") == "MemberExpr" and tgt.get("mid") == R.capacity:
            construct = f"{self.m.qual}:{R.cache.fname(R.capacity)} write"
            self.bound_sites.setdefault(construct, node)
            self.bound_ok[construct] = True     # judged at the exits through `dirty`
            return self.drop_defs(st._replace(facts=frozenset(), dirty=st.dirty | {(construct, None)}), "#CAP")
        if tgt.get("k") == "MemberExpr" and tgt.get("mid") in R.keys:
            b = cir.kids(tgt)[0] if cir.kids(tgt) else None
            if b is not None and not is_elem_value_var(R, b):
                key = self.key_of_ptr(st, b) if tgt.get("arrow") else self.key_of_obj(st, b)
                self.check_keymut(st, key, node, f"direct write of {R.elem.fname(tgt['mid'])}", ctx)
            return st
        if tgt.get("k") == "MemberExpr" and tgt.get("mid") == R.esize:
            b = cir.kids(tgt)[0] if cir.kids(tgt) else None
            if b is not None and not is_elem_value_var(R, b):
                raise AnalysisError(f"{self.m.qual}: direct write of an element's size field is not modelled")
            return st
        if tgt.get("k") == "DeclRefExpr":
            return self.forget_var(st, (tgt.get("ref") or {}).get("n"))
        return st

    @staticmethod
    def _no_opcalls(e):
        """A copy of e in which overloaded -> and * calls count as pure (they are for iterators)."""
        def conv(x):
            if x is None:
                return None
            y = dict(x)
            if x.get("k") == "CXXOperatorCallExpr" and cxx2.op_name(x) in ("->", "*"):
                y["k"] = "ParenExpr"
                y["i"] = [conv(a) for a in cxx2.op_args(x)]
                return y
            if x.get("i"):
                y["i"] = [conv(a) for a in x["i"]]
            return y
        return conv(e)

    def value_size(self, st, v, ctx):
        """Ledger term for the size of the object inserted into the lookup map."""
        vv = cxx2.skip(v)
        if is_elem_value_var(self.R, vv):
            t = f"SZ(&{vv['ref']['n']})#0"
            return fs_get(st.canon, t, t)
        return "SZ(<inserted value>)#0"

    def branch(self, st, cond, taken, ctx):
        R = self.R
        res_ = self.resolve(st)
        s, neg = cxx2.cond_core(cond)
        for _ in range(8):          # a bool local stands for its defining test
            s2 = res_(s)
            if s2 is s:
                break
            s, n2 = cxx2.cond_core(s2)
            neg = neg != n2
        if neg:
            taken = not taken
        if s is not None and s.get("k") == "BinaryOperator" and s.get("op") in ("&&", "||"):
            # only reached through a bool local (the engine splits written-out && / || itself): `a && b` true and
            # `a || b` false fix both operands; the other outcomes are disjunctions, from which nothing is learned
            if (s["op"] == "&&") == taken:
                for c in cir.kids(s):
                    st = self.branch(st, c, taken, ctx)
                    if st is None:
                        return None
            return st
        # an own predicate `bool M(..) const { return <test>; }` is its test with the arguments put in
        e = self.predicate_test(s)
        if e is not None:
            self._pred_depth = getattr(self, "_pred_depth", 0) + 1
            try:
                if self._pred_depth > 4:
                    raise AnalysisError(f"{self.m.qual}: recursive predicate methods are not modelled")
                return self.branch(st, e, taken, ctx)
            finally:
                self._pred_depth -= 1
        txt = etext(s)
        # freshly inserted element
        for it_t, ins_t, keyt, szt in st.fresh:
            if txt == ins_t:
                if not taken:
                    return st
                if keyt in st.present:
                    return None       # idiom: find(k) != end  =>  insert(k, ...).second == false
                elem = f"&{it_t}->second"
                construct = f"{self.m.qual}:{R.cache.fname(R.lookup)}.insert"
                self.event(construct, cond, "member")
                st = st._replace(out=st.out | {elem}, fresh=st.fresh - {(it_t, ins_t, keyt, szt)},
                                 canon=fs_set(st.canon, f"SZ({elem})#0", szt, zero=None))
                st = self.led(st, "C", szt, -1, construct)
                if st is None:
                    return None
                return self.led(st, "S", elem, -1, construct)
        # presence tests on the lookup map
        pres = self.presence(s)
        if pres is not None:
            keyt, positive = pres
            if positive == taken:
                return st._replace(present=st.present | {keyt})
            return st._replace(present=st.present - {keyt})
        # comparison against the capacity
        if s is not None and s.get("k") == "BinaryOperator" and s.get("op") in (">", ">=", "<", "<="):
            a, b = (res_(x) for x in cir.kids(s))
            op = s.get("op")
            fa, fb = cxx2.field_of(a), cxx2.field_of(b)
            if fa == R.capacity and fb != R.capacity:
                a, b = b, a
                op = {">": "<", "<": ">", ">=": "<=", "<=": ">="}[op]
            elif fb != R.capacity:
                return st
            le = (op in (">", ">=") and not taken) or (op in ("<=", "<") and taken)
            if le:
                form = frozenset(cxx2.linear(a, self.leaf_bound, res_).items())
                return st._replace(facts=st.facts | {form})
        return st

    def predicate_test(self, s):
        """If s calls, on this object, a method of the cache whose whole body is `return <expr>;`: that expression with
        the (side-effect free) arguments substituted for the parameters, else None."""
        cm = self.R.cache.callee_method(s) if s is not None and s.get("k") == "CXXMemberCallExpr" else None
        if cm is None or cm.body is None:
            return None
        r = cxx2.receiver(s)
        base = cxx2.skip(r[0]) if r and r[0] is not None else None
        if base is None or base.get("k") != "CXXThisExpr":
            return None
        sts = [c for c in cir.kids(cm.body) if c is not None and c.get("k") != "NullStmt"]
        if len(sts) != 1 or sts[0].get("k") != "ReturnStmt":
            return None
        e = [c for c in cir.kids(sts[0]) if c is not None]
        args = cxx2.real_args(s)[1:]
        ps = cm.params()
        if not e or len(args) != len(ps) or not all(cir.is_pure(self._no_opcalls(a)) for a in args):
            return None
        return norm.substitute(e[0], {p_.get("id"): a for p_, a in zip(ps, args)})

    def presence(self, s):
        """(key text, True if the condition being true means `present`) for find()==end() etc."""
        R = self.R
        if s is None:
            return None
        if s.get("k") == "CXXOperatorCallExpr" and cxx2.op_name(s) in ("==", "!="):
            a, b = (cxx2.skip(x) for x in cxx2.op_args(s))
            fa = cxx2.member_call_on_field(a) if a is not None and a.get("k") == "CXXMemberCallExpr" else None
            fb = cxx2.member_call_on_field(b) if b is not None and b.get("k") == "CXXMemberCallExpr" else None
            if fa and fb and fa[0] == fb[0] == R.lookup and {fa[1], fb[1]} == {"find", "end"}:
                f = a if fa[1] == "find" else b
                return etext(cxx2.real_args(f)[1]), cxx2.op_name(s) == "!="
        if s.get("k") == "CXXMemberCallExpr":
            mf = cxx2.member_call_on_field(s)
            if mf and mf[0] == R.lookup and mf[1] in ("contains", "count"):
                return etext(cxx2.real_args(s)[1]), True
        return None

    def call(self, st, node, name, ctx):
        R = self.R
        mf = cxx2.member_call_on_field(node) if node.get("k") == "CXXMemberCallExpr" else None
        a = cxx2.real_args(node)[1:]
        if mf and mf[0] == R.ordered:
            cn = R.cache.fname(R.ordered)
            if mf[1] == "erase" and len(a) == 1:
                key = self.key_of_ptr(st, a[0])
                construct = f"{self.m.qual}:{cn}.erase"
                self.event(construct, node, "ordered")
                st = st._replace(out=st.out | {key})
                return self.led(st, "S", key, -1, construct)
            if mf[1] in ("insert", "emplace") and len(a) == 1:
                key = self.key_of_ptr(st, a[0])
                construct = f"{self.m.qual}:{cn}.insert"
                self.event(construct, node, "ordered")
                st = st._replace(out=st.out - {key})
                return self.led(st, "S", key, +1, construct)
            if mf[1] == "clear":
                construct = f"{self.m.qual}:{cn}.clear"
                self.event(construct, node, "ordered")
                return self.led(st, "S", "ABS0", +1, construct)
            if mf[1] in ("begin", "end", "empty", "size", "find", "count", "cbegin", "cend", "rbegin", "rend"):
                return st
            raise AnalysisError(f"{self.m.qual}: unsupported operation {cn}.{mf[1]}")
        if mf and mf[0] == R.lookup:
            cn = R.cache.fname(R.lookup)
            if mf[1] == "erase" and len(a) == 1:
                construct = f"{self.m.qual}:{cn}.erase"
                self.event(construct, node, "member")
                key = self.erased_elem(st, a[0])
                st = self.drop_defs(st._replace(present=frozenset(), facts=st.facts), "#L", "#SZ")
                st = self.led(st, "C", self.sz_term(st, key), +1, construct)
                if st is None:
                    return None
                return self.led(st, "S", key, +1, construct)
            if mf[1] == "clear":
                construct = f"{self.m.qual}:{cn}.clear"
                self.event(construct, node, "member")
                st = self.drop_defs(st._replace(present=frozenset()), "#L", "#SZ")
                st = self.led(st, "C", "ABS0", -1, construct)
                if st is None:
                    return None
                return self.led(st, "S", "ABS0", -1, construct)
            if mf[1] in INSERT_OPS:
                # the result must be bound (structured binding / pair variable) so that the fresh case is seen
                return self.drop_defs(st, "#L")
            if mf[1] in ("find", "end", "begin", "contains", "count", "size", "empty", "at", "cbegin", "cend"):
                return st
            raise AnalysisError(f"{self.m.qual}: unsupported operation {cn}.{mf[1]}")
        # element methods
        em = R.elem.callee_method(node) if node.get("k") == "CXXMemberCallExpr" else None
        if em is not None:
            r = cxx2.receiver(node)
            if r[0] is not None and not is_elem_value_var(R, r[0]):
                key = self.key_of_ptr(st, r[0]) if r[1] else self.key_of_obj(st, r[0])
                if em.id in R.key_mut:
                    fl = ",".join(sorted(R.elem.fname(f) for f in R.key_mut[em.id]))
                    self.check_keymut(st, key, node, f"{em.name}()->{fl}", ctx)
                if em.id in R.size_mut:
                    how, idx = R.size_mut[em.id]
                    construct = f"{self.m.qual}:{em.name}"
                    self.event(construct, node, "member")
                    old = self.sz_term(st, key)
                    v = fs_get(st.ver, key)
                    self.summary.mutates_size = True
                    st = self.drop_defs(st, "#SZ")
                    st = st._replace(ver=fs_set(st.ver, key, v + 1),
                                     facts=frozenset(f for f in st.facts if not any("(" in t[2:] for t, _ in f)))
                    new = f"SZ({key})#{v + 1}"
                    if how == "copy" and idx < len(a):
                        src = cxx2.skip(a[idx])
                        sk = self.key_of_obj(st, src)
                        srct = self.sz_term(st, sk)
                        st = st._replace(canon=fs_set(st.canon, new, srct, zero=None))
                        new = srct
                    elif how == "value" and idx < len(a):
                        srct = self.leaf_ledger(st)(a[idx])
                        st = st._replace(canon=fs_set(st.canon, new, srct, zero=None))
                        new = srct
                    st = self.led(st, "C", old, +1, construct)
                    if st is None:
                        return None
                    return self.led(st, "C", new, -1, construct)
            return st
        if node.get("k") == "CXXOperatorCallExpr" and cxx2.op_name(node) == "=":
            f = cir.strip(cir.kids(node)[0])
            rid = ((f or {}).get("ref") or {}).get("id")
            if rid in R.assign_ops:
                tgt = cxx2.op_args(node)[0]
                if not is_elem_value_var(R, tgt):
                    key = self.key_of_obj(st, tgt)
                    self.check_keymut(st, key, node, "operator=()->all fields", ctx)
                    raise AnalysisError(f"{self.m.qual}: whole-object assignment to a cached element is not modelled "
                                        f"by the size ledger")
            return st
        # own helpers
        cm = R.cache.callee_method(node) if node.get("k") == "CXXMemberCallExpr" else None
        if cm is not None and cm.id in self.summ:
            return self.apply_summary(st, node, cm, a, ctx)
        return st

    def erased_elem(self, st, arg):
        """Element designated by the argument of lookup.erase(arg)."""
        R = self.R
        x = cxx2.skip(arg)
        if x is not None and x.get("k") == "CXXMemberCallExpr":
            m = R.elem.callee_method(x)
            if m is not None and m.id in R.id_acc:
                r = cxx2.receiver(x)
                return self.key_of_ptr(st, r[0]) if r[1] else self.key_of_obj(st, r[0])
        if x is not None and x.get("k") == "MemberExpr" and x.get("mid") == R.idfield:
            b = cir.kids(x)[0]
            return self.key_of_ptr(st, b) if x.get("arrow") else self.key_of_obj(st, b)
        t = (x or {}).get("t") or ""
        if "iterator" in t:
            return self.canon_key(st, f"&{etext(x)}->second")
        raise AnalysisError(f"{self.m.qual}: cannot tell which element `{R.cache.fname(R.lookup)}.erase({etext(arg)})` "
                            f"removes (expected `elem->{'/'.join(sorted(R.elem.methods[i].name for i in R.id_acc))}()` "
                            f"or an iterator)")

    def apply_summary(self, st, node, cm, args, ctx):
        sm = self.summ[cm.id]
        mapping = {}
        for pn, a in zip(sm.params, args):
            if pn:
                mapping[pn] = self.canon_key(st, etext(a))
        # key-mutation requirements of the helper
        for idx, (what, _) in sm.key_req.items():
            if idx < len(args):
                key = self.key_of_ptr(st, args[idx])
                self.check_keymut(st, key, node, f"{cm.name}()->{what}", ctx)
        # bound
        if sm.cap_dirty:
            st = st._replace(facts=frozenset(), dirty=st.dirty | {(f"{self.m.qual}:{cm.name}() capacity write", None)})
        for origin, form in sm.grow_req:
            f2 = frozenset((cxx2.subst_words(t, mapping) if t.startswith("V(") else t, c) for t, c in form)
            construct = f"{self.m.qual}->{origin}"
            self.bound_sites.setdefault(construct, node)
            if f2 in st.facts:
                self.bound_ok.setdefault(construct, True)
                st = st._replace(facts=frozenset({frozenset({("C", 1)})}))
            else:
                self.bound_ok[construct] = False
                st = st._replace(dirty=st.dirty | {(construct, f2)})
        if sm.touches_lookup:
            self.summary.touches_lookup = True
            st = self.drop_defs(st._replace(present=frozenset()), "#L", "#SZ")
        if sm.mutates_size:
            self.summary.mutates_size = True
            st = self.drop_defs(st, "#SZ")
        if sm.writes_counter:
            st = self.drop_defs(st, "#C")
        if sm.cap_dirty:
            st = self.drop_defs(st, "#CAP")
        if sm.grows:
            self.summary.grows = True
            st = st._replace(facts=frozenset(f for f in st.facts if not any(t == "C" for t, _ in f)))
        if sm.writes_counter:
            self.summary.writes_counter = True
        if sm.establishes:
            st = st._replace(facts=frozenset({frozenset({("C", 1)})}), dirty=frozenset())
        # ledger residuals (several outcomes -> several states)
        outs = []
        for led in (sm.leds or [()]):
            s2 = st
            for (dom, term), n, origins in led:
                s2 = self.led(s2, dom, cxx2.subst_words(term, mapping), n, origins)
                if s2 is None:
                    break
            if s2 is not None:
                outs.append(s2)
        return outs

    def ret(self, st, node, ctx):
        self.exits.append((st, node))

    def fallthrough(self, st, ctx):
        self.exits.append((st, ctx.fn))


def explore_cache(R):
    """Explore every method (helpers first); returns {method id: CacheRule}."""
    order = cxx2.topo_private_first(R.cache, R.methods)
    callers = collections.defaultdict(list)
    for m in R.methods:
        for c, node in cxx2.internal_calls(R.cache, m):
            callers[c.id].append((m, node))
    summaries, rules = {}, {}
    for m in order:
        is_helper = m.access != "public" and bool(callers.get(m.id))
        rule = CacheRule(R, m, summaries, is_helper)
        ctx = cxx2.explore(rule, TU, m.node)
        rule.ctx = ctx
        rules[m.id] = rule
        sm = rule.summary
        leds = []
        for st, _ in rule.exits:
            t = tuple(sorted(st.led, key=lambda e: e[0]))
            if t not in leds:
                leds.append(t)
        sm.leds = leds
        sm.establishes = bool(rule.exits) and all(frozenset({("C", 1)}) in st.facts and not st.dirty
                                                  for st, _ in rule.exits)
        dirty = set()
        for st, _ in rule.exits:
            dirty |= set(st.dirty)
        sm.grow_req = [(o, f) for o, f in sorted(dirty, key=lambda x: x[0]) if f is not None]
        sm.cap_dirty = any(f is None for _, f in dirty)
        summaries[m.id] = sm
    return rules, callers


def check_pairs_keymut_bound(res, R):
    res.rule("R-KEYMUT", "comparator key fields of an element are written only while it is outside the ordered "
             "container (between erase and insert, or freshly inserted into the lookup map)", floor=3)
    res.rule("R-PAIRWRITE", "lookup-map insert/erase/clear and element size replacement are matched on every path by "
             "the byte-counter update by that asset's size and by the ordered-container update, and vice versa",
             floor=12)
    res.rule("R-BOUND", "counter growth is dominated by `new value > capacity` false; capacity writes are followed by "
             "the trimming helper; counter starts at 0", floor=7)
    cache, E = R.cache, R.elem
    rules, callers = explore_cache(R)
    # comparator key discovery is itself an instance
    res.ok("R-KEYMUT", f"{R.cmp.name}::operator():key-fields",
           {"keys": [E.fname(f) for f in R.keys], "mutators": sorted(E.methods[i].name for i in R.key_mut),
            "ordered": cache.fname(R.ordered)})
    # ledger residuals at the exits of the non-helper methods, attributed to the constructs that produced them
    unmatched, reported = {}, set()
    for m in R.methods:
        rule = rules[m.id]
        if rule.is_helper:
            continue
        for st, node in rule.exits:
            for (dom, term), n, origins in st.led:
                for o in sorted(origins):
                    unmatched.setdefault(o, (dom, term, n, node, m))
    for m in R.methods:
        rule = rules[m.id]
        is_helper = rule.is_helper
        reports = rule.ctx.reports
        # ---- R-KEYMUT
        badk = {}
        for rp in reports:
            if rp.get("rule") == "R-KEYMUT":
                badk.setdefault(rp["key"], rp)
        for construct, node in rule.keymut_sites.items():
            if construct in badk:
                rp = badk[construct]
                res.bad("R-KEYMUT", construct, rp["file"], rp["line"], rp["msg"])
            else:
                res.ok("R-KEYMUT", construct, {"file": m.file, "line": node.get("line")})
        # ---- R-PAIRWRITE
        if rule.trunc:
            res.bad("R-PAIRWRITE", f"{m.qual}:loop", m.file, m.line,
                    "membership/counter events inside a loop are not balanced per iteration")
        for construct, (node, kind) in rule.events.items():
            if construct in unmatched:
                dom, term, n, at, _ = unmatched[construct]
                reported.add(construct)
                res.bad("R-PAIRWRITE", construct, m.file, node.get("line"), pair_msg(R, construct, dom, term, n, at))
            else:
                res.ok("R-PAIRWRITE", construct, {"file": m.file, "line": node.get("line"), "kind": kind})
        # ---- R-BOUND
        dirty = {}
        if not is_helper:
            for st, node in rule.exits:
                for origin, form in st.dirty:
                    dirty.setdefault(origin, (form, node))
        for construct, node in rule.bound_sites.items():
            if construct in dirty:
                form, at = dirty.pop(construct)
                res.bad("R-BOUND", construct, m.file, node.get("line"), bound_msg(R, construct, form, at))
            elif rule.bound_ok.get(construct, True) or is_helper:
                res.ok("R-BOUND", construct, {"file": m.file, "line": node.get("line")})
            else:
                res.ok("R-BOUND", construct, {"file": m.file, "line": node.get("line"), "restored": "trim before exit"})
        for construct, (form, at) in dirty.items():
            res.bad("R-BOUND", construct, m.file, at.get("line") or m.line, bound_msg(R, construct, form, at))
    for construct, (dom, term, n, at, m) in unmatched.items():
        if construct not in reported:
            res.bad("R-PAIRWRITE", construct, m.file, at.get("line") or m.line, pair_msg(R, construct, dom, term, n, at))
    # the trimming helper and the initial state
    trims = [m for m in R.methods if rules[m.id].summary.establishes and rules[m.id].summary.writes_counter is False
             or (rules[m.id].summary.establishes and any(x.get("k") in ("WhileStmt", "ForStmt", "DoStmt")
                                                         for x in cxx2.walk(m.node)))]
    trims = [m for m in trims if any(x.get("k") in ("WhileStmt", "ForStmt", "DoStmt") for x in cxx2.walk(m.node))]
    R.trims = trims
    if not trims:
        res.bad("R-BOUND", f"{CACHE}:trim-helper", cache.file, cache.node.get("line"),
                "no method of the cache exits only through `counter > capacity` being false (trimming loop not found)")
    for m in trims:
        res.ok("R-BOUND", f"{m.qual}:establishes-bound", {"file": m.file, "line": m.line})
    f = cache.fields[R.counter]
    init = [c for c in cir.kids(f) if c]
    if init and cxx2.is_zero_literal(init[0]):
        res.ok("R-BOUND", f"{CACHE}:{cache.fname(R.counter)}:initially-0", None)
    else:
        res.bad("R-BOUND", f"{CACHE}:{cache.fname(R.counter)}:initially-0", cache.file, f.get("line"),
                "the byte counter is not default-initialised to 0")
    # constructors must not leave counter/capacity in a state violating the bound: they may only set the capacity
    for m in cache.methods.values():
        if m.kind == "CXXConstructorDecl" and m.node is not None and not m.deleted:
            ws = [w for w in cache.field_writes(m) if w[0] == R.counter]
            inits = cache.ctor_inits(m)
            ci = inits.get(R.counter)
            if ws or (ci is not None and ci.get("k") != "CXXDefaultInitExpr" and not cxx2.is_zero_literal(ci)):
                res.bad("R-BOUND", f"{m.qual}:counter-init", m.file, m.line, "constructor sets the byte counter")
            else:
                res.ok("R-BOUND", f"{m.qual}:counter-init", None)
    return rules


def pair_msg(R, construct, dom, term, n, at):
    cache = R.cache
    if at.get("k") in METHODS_K:
        at = {"line": f"{at.get('line')} (end of {at.get('n')})"}
    what = "byte counter `%s`" % cache.fname(R.counter) if dom == "C" else "ordered container `%s`" % cache.fname(R.ordered)
    side = "more than" if n > 0 else "less than"
    return (f"on a path ending at line {at.get('line')}: the {what} changes by {side} what the lookup-map membership / "
            f"element-size events of this path require (unmatched term {term}, net {n:+d}); every insert/erase/"
            f"replace must be paired with the matching update by that asset's size on the same path")


def bound_msg(R, construct, form, at):
    cache = R.cache
    if at.get("k") in METHODS_K:
        at = {"line": f"{at.get('line')} (end of {at.get('n')})"}
    if form is None:
        return (f"`{cache.fname(R.capacity)}` is written and the path reaching line {at.get('line')} returns without the "
                f"trimming loop having restored `{cache.fname(R.counter)} <= {cache.fname(R.capacity)}`")
    ft = " ".join(f"{'+' if c > 0 else '-'}{t}" for t, c in sorted(form))
    return (f"`{cache.fname(R.counter)}` can grow to ({ft}) on the path reaching line {at.get('line')} without a "
            f"dominating false outcome of `({ft}) > {cache.fname(R.capacity)}` and without trimming before return")


# ------------------------------------------------------------------------------------- R-EVICT

def eval_cmp(R, node, env):
    """Evaluate the comparator body for signs env[(field)] in {-1,0,1} of (e1.field - e2.field)."""
    E = R.elem
    params = [p.get("id") for p in R.cmp_op.params()]

    def key_side(x):
        x = cxx2.skip(x)
        f = b = None
        if x is not None and x.get("k") == "CXXMemberCallExpr":
            m = E.callee_method(x)
            if m is not None:
                f = E.returned_field(m)
                b = cxx2.skip(cxx2.receiver(x)[0])
        elif x is not None and x.get("k") == "MemberExpr" and x.get("mid") in E.fields:
            f = x["mid"]
            b = cxx2.skip(cir.kids(x)[0])
        if f is None or b is None or b.get("k") != "DeclRefExpr":
            raise AnalysisError(f"{R.cmp.name}: unsupported operand {etext(x)}")
        rid = (b.get("ref") or {}).get("id")
        if rid not in params:
            raise AnalysisError(f"{R.cmp.name}: operand {etext(x)} is not a field of a parameter")
        return f, params.index(rid)

    def ev(x):
        x = cxx2.skip(x)
        k = x.get("k")
        if k == "CXXBoolLiteralExpr":
            return bool(x.get("v"))
        if k == "UnaryOperator" and x.get("op") == "!":
            return not ev(cir.kids(x)[0])
        if k == "BinaryOperator" and x.get("op") in ("&&", "||"):
            a, b = cir.kids(x)
            return (ev(a) and ev(b)) if x["op"] == "&&" else (ev(a) or ev(b))
        if k == "BinaryOperator" and x.get("op") in ("<", ">", "<=", ">=", "==", "!="):
            (fa, ia), (fb, ib) = key_side(cir.kids(x)[0]), key_side(cir.kids(x)[1])
            if fa != fb or ia == ib:
                raise AnalysisError(f"{R.cmp.name}: comparison of unrelated operands {etext(x)}")
            s = env[fa] if ia == 0 else -env[fa]
            return {"<": s < 0, ">": s > 0, "<=": s <= 0, ">=": s >= 0, "==": s == 0, "!=": s != 0}[x["op"]]
        if k == "ConditionalOperator":
            c = cir.kids(x)
            return ev(c[1]) if ev(c[0]) else ev(c[2])
        raise AnalysisError(f"{R.cmp.name}: unsupported expression {etext(x)}")

    def run(st):
        if st is None:
            return None
        k = st.get("k")
        if k == "CompoundStmt":
            for c in cir.kids(st):
                r = run(c)
                if r is not None:
                    return r
            return None
        if k == "ReturnStmt":
            return ("ret", ev(cir.kids(st)[0]))
        if k == "IfStmt":
            c = cir.kids(st)
            if ev(c[0]):
                return run(c[1])
            return run(c[2]) if len(c) > 2 else None
        raise AnalysisError(f"{R.cmp.name}: unsupported statement {k}")
    r = run(node)
    if r is None:
        raise AnalysisError(f"{R.cmp.name}: comparator can fall off its end")
    return r[1]


def least_args(R, m):
    """{id(call): True/False} for the calls of own-class methods in method m: True when, on every path reaching the call,
    one argument is the least element of the ordered container *at that moment*: `*ordered.begin()` written in place, or
    a local initialised from it with no change of the ordered container (and no own-class call) in between."""
    cache = R.cache
    least_txt = f"*{cache.fname(R.ordered)}.begin()"
    READS = ("begin", "end", "cbegin", "cend", "empty", "size", "find", "count", "contains")

    class Least(paths.Rule):
        def __init__(self):
            self.seen = {}

        def initial(self, fn):
            return frozenset()

        def assign(self, st, node, ctx):
            if node.get("k") == "VarDecl":
                init = [c for c in cir.kids(node) if c is not None]
                st = st - {node.get("id")}
                if init and etext(init[-1]) == least_txt:
                    return st | {node.get("id")}
                e = cxx2.skip(init[-1]) if init else None
                if e is not None and e.get("k") == "DeclRefExpr" and (e.get("ref") or {}).get("id") in st:
                    return st | {node.get("id")}
                return st
            c = cir.kids(node)
            t = cxx2.skip(c[0]) if c else None
            if t is not None and t.get("k") == "DeclRefExpr":
                return st - {(t.get("ref") or {}).get("id")}
            return st

        def call(self, st, node, name, ctx):
            mf = cxx2.member_call_on_field(node) if node.get("k") == "CXXMemberCallExpr" else None
            if mf and mf[0] == R.ordered:
                return st if mf[1] in READS else frozenset()
            if node.get("k") == "CXXMemberCallExpr" and cache.callee_method(node) is not None:
                ok = False
                for a in cxx2.real_args(node)[1:]:
                    e = cxx2.skip(a)
                    if etext(a) == least_txt or (e is not None and e.get("k") == "DeclRefExpr" and
                                                 (e.get("ref") or {}).get("id") in st):
                        ok = True
                self.seen[id(node)] = self.seen.get(id(node), True) and ok
                return frozenset()
            return st

        def range_iter(self, st, loop, ctx):
            return st
    rule = Least()
    cxx2.explore(rule, TU, m.node)
    return rule.seen


def check_evict(res, R, rules):
    res.rule("R-EVICT", "comparator = strict lexicographic order on (access count, insertion number); eviction takes "
             "*ordered.begin(); key roles identified from the lookup and insertion paths", floor=4)
    E, cache = R.elem, R.cache
    cmpq = f"{R.cmp.name}::operator()"
    if len(R.keys) != 2:
        res.bad("R-EVICT", f"{cmpq}:lexicographic", R.cmp.file, R.cmp_op.line,
                f"comparator reads {len(R.keys)} element fields, the property names two (access count, insertion order)")
        return
    k1, k2 = R.keys
    wrong = []
    for s1, s2 in itertools.product((-1, 0, 1), repeat=2):
        got = eval_cmp(R, R.cmp_op.body, {k1: s1, k2: s2})
        want = s1 < 0 or (s1 == 0 and s2 < 0)
        if got != want:
            wrong.append((s1, s2, got))
    if wrong:
        res.bad("R-EVICT", f"{cmpq}:lexicographic", R.cmp.file, R.cmp_op.line,
                f"comparator is not the strict lexicographic order on ({E.fname(k1)}, {E.fname(k2)}): for sign "
                f"combinations (first key, second key) {[(a, b) for a, b, _ in wrong]} it answers {[g for _, _, g in wrong]}")
    else:
        res.ok("R-EVICT", f"{cmpq}:lexicographic", {"primary": E.fname(k1), "secondary": E.fname(k2), "rows": 9})
    # roles: primary = the key bumped (++ / += 1) by a mutator called on the lookup path (PopulateData);
    #        secondary = the key set from the cache's post-incremented running counter on the fresh-insert path
    def closure(ms):
        seen, work = {}, list(ms)
        while work:
            m = work.pop()
            if m.id in seen or m.node is None:
                continue
            seen[m.id] = m
            work.extend(c for c, _ in cxx2.internal_calls(cache, m))
        return list(seen.values())
    pop = closure(cache.require_method("PopulateData"))
    ins = closure(cache.require_method("Insert"))
    bumped, stamped = set(), set()
    for m in pop:
        for x in cxx2.walk(m.node):
            if x.get("k") == "CXXMemberCallExpr":
                em = E.callee_method(x)
                if em is not None and em.id in R.key_mut:
                    for f, node, rhs in E.field_writes(em):
                        if f in R.keys and node.get("k") == "UnaryOperator" and node.get("op") == "++":
                            bumped.add(f)
                        if f in R.keys and node.get("k") == "CompoundAssignOperator" and node.get("op") == "+=" and \
                                etext(rhs) == "1":
                            bumped.add(f)
            # friend-style direct writes
            if x.get("k") == "UnaryOperator" and x.get("op") == "++" and cxx2.field_of(cir.kids(x)[0]) in R.keys:
                bumped.add(cxx2.field_of(cir.kids(x)[0]))
            if x.get("k") == "CompoundAssignOperator" and x.get("op") == "+=" and \
                    cxx2.field_of(cir.kids(x)[0]) in R.keys and etext(cir.kids(x)[1]) == "1":
                bumped.add(cxx2.field_of(cir.kids(x)[0]))
    counter_field = None
    for m in ins:
        vl = cxx2.value_locals(m.node)

        def snap(e):
            """a local initialised once (`const auto n = insert_num_++;`) holds the value of its initialiser"""
            e = cxx2.skip(e)
            while e is not None and e.get("k") == "DeclRefExpr" and (e.get("ref") or {}).get("id") in vl:
                e = cxx2.skip(vl[e["ref"]["id"]][1])
            return e
        for x in cxx2.walk(m.node):
            if x.get("k") == "BinaryOperator" and x.get("op") == "=" and cxx2.field_of(cir.kids(x)[0]) in R.keys:
                arg = snap(cir.kids(x)[1])
                if arg is not None and arg.get("k") == "UnaryOperator" and arg.get("op") == "++" and \
                        arg.get("isPostfix") and cxx2.field_of(cir.kids(arg)[0]) in cache.fields:
                    stamped.add(cxx2.field_of(cir.kids(x)[0]))
                    counter_field = cxx2.field_of(cir.kids(arg)[0])
            if x.get("k") == "CXXMemberCallExpr":
                em = E.callee_method(x)
                if em is not None and em.id in R.key_mut:
                    a = cxx2.real_args(x)[1:]
                    ws = [(f, rhs) for f, node, rhs in E.field_writes(em) if f in R.keys]
                    if len(a) == 1 and len(ws) == 1:
                        arg = snap(a[0])
                        if arg is not None and arg.get("k") == "UnaryOperator" and arg.get("op") == "++" and \
                                arg.get("isPostfix") and cxx2.field_of(cir.kids(arg)[0]) in cache.fields:
                            rr = cxx2.skip(ws[0][1])
                            if rr is not None and rr.get("k") == "DeclRefExpr" and \
                                    (rr.get("ref") or {}).get("k") == "ParmVarDecl":
                                stamped.add(ws[0][0])
                                counter_field = cxx2.field_of(cir.kids(arg)[0])
    if bumped == {k1}:
        res.ok("R-EVICT", f"{cmpq}:primary-is-access-count", {"field": E.fname(k1), "bumped_in": "PopulateData"})
    else:
        res.bad("R-EVICT", f"{cmpq}:primary-is-access-count", R.cmp.file, R.cmp_op.line,
                f"the comparator's first key `{E.fname(k1)}` is not the field incremented by the lookup path "
                f"(PopulateData increments {[E.fname(f) for f in bumped]})")
    if stamped == {k2}:
        res.ok("R-EVICT", f"{cmpq}:secondary-is-insertion-order",
               {"field": E.fname(k2), "from": cache.fname(counter_field) + "++"})
        # the running counter is only ever incremented or reset together with the containers
        ok = True
        for m in R.methods:
            for f, node, rhs in cache.field_writes(m):
                if f == counter_field:
                    if node.get("k") == "UnaryOperator" and node.get("op") == "++":
                        continue
                    if node.get("op") == "=" and cxx2.is_zero_literal(rhs):
                        cleared = {cxx2.member_call_on_field(x) for x in cxx2.walk(m.node)
                                   if x.get("k") == "CXXMemberCallExpr"}
                        if (R.ordered, "clear") in cleared and (R.lookup, "clear") in cleared:
                            continue
                    ok = False
                    res.bad("R-EVICT", f"{m.qual}:{cache.fname(counter_field)}:monotone", m.file, node.get("line"),
                            "the insertion counter is changed other than by ++ (or reset together with clearing the "
                            "containers); insertion numbers would no longer order elements by insertion")
        if ok:
            res.ok("R-EVICT", f"{CACHE}:{cache.fname(counter_field)}:monotone", None)
    else:
        res.bad("R-EVICT", f"{cmpq}:secondary-is-insertion-order", R.cmp.file, R.cmp_op.line,
                f"the comparator's second key `{E.fname(k2)}` is not the field stamped from the cache's post-incremented "
                f"running counter on insertion (stamped: {[E.fname(f) for f in stamped]})")
    # eviction takes the least element: every loop one of whose exit tests (loop condition, or an `if (..) break/return`
    # directly in its body) compares counter and capacity
    cands = []
    for m in R.methods:
        for lp in cxx2.walk(m.node):
            if lp.get("k") in ("WhileStmt", "ForStmt", "DoStmt"):
                for cond in cxx2.loop_exit_conds(lp):
                    fs = {x.get("mid") for x in cxx2.walk(cond)}
                    if R.counter in fs and R.capacity in fs:
                        cands.append((m, lp))
                        break
    if not cands:
        res.bad("R-EVICT", f"{CACHE}:evicts-least", cache.file, cache.node.get("line"),
                "no trimming loop (condition over the byte counter and the capacity) found")
    for m, lp in cands:
        good = False
        where = lp
        least = least_args(R, m)
        for x in cxx2.walk(lp):
            if x.get("k") == "CXXMemberCallExpr" and cache.callee_method(x) is not None:
                where = x
                if least.get(id(x)):
                    good = True
        if good:
            res.ok("R-EVICT", f"{m.qual}:evicts-least", {"file": m.file, "line": where.get("line")})
        else:
            res.bad("R-EVICT", f"{m.qual}:evicts-least", m.file, where.get("line"),
                    f"the trimming loop does not evict `*{cache.fname(R.ordered)}.begin()` (the least element under the "
                    f"comparator)")


# ------------------------------------------------------------------------------------- entry

def run(res, tier):
    ir = load()
    R = discover(ir)
    res.count("methods", len(R.methods))
    res.count("element_methods", len(R.elem.user_methods()))
    check_lock(res, R)
    check_api(res, R)
    rules = check_pairs_keymut_bound(res, R)
    check_evict(res, R, rules)
    cache, E = R.cache, R.elem
    res.extra["roles"] = {
        "mutex": cache.fname(R.mutex), "ordered": cache.fname(R.ordered), "lookup": cache.fname(R.lookup),
        "counter": cache.fname(R.counter), "capacity": cache.fname(R.capacity), "element": R.elem_name,
        "comparator": R.cmp.name, "comparator_keys": [E.fname(f) for f in R.keys], "element_size": E.fname(R.esize),
        "element_id": E.fname(R.idfield), "key_mutators": sorted(E.methods[i].name for i in R.key_mut),
        "size_mutators": {E.methods[i].name: list(v) for i, v in R.size_mut.items()},
        "needs_lock_helpers": sorted(cache.methods[i].desc for i in R.needs_lock if cache.methods[i].access != "public"),
        "trim_helpers": [m.desc for m in R.trims],
    }
    res.explanation = (
        "All-paths analysis (clang AST, correlated predicates) of every method of the cache class with member roles "
        "discovered from types/accessors: lock held at every guarded access and helper call, and at every use of a "
        "pointer / reference / iterator derived from a guarded member, none of which may outlive its lock region "
        "(R-LOCK); comparator key "
        "fields written only while the element is out of the ordered set (R-KEYMUT); a per-path symbolic ledger "
        "matching lookup-map membership and element-size changes against byte-counter and ordered-set updates "
        "(R-PAIRWRITE); growth of the counter dominated by the capacity comparison of the very value written, "
        "capacity writes followed by the trimming helper (R-BOUND); comparator truth table and eviction of the least "
        "element (R-EVICT).")
    res.not_decided = ("values over operation histories (most recent data returned), unsigned wrap-around of "
                       "`size_ + size`, survival of assets referenced by remaining models, callers outside "
                       "user_cache.cc (they can only use the public methods: members are private, no friends); what a "
                       "user callback does with the payload pointer it is handed under the lock; handles into guarded "
                       "members that are captured by lambdas (analysis error) or carried by types that do not look "
                       "like pointers / iterators / views.")
    res.assumptions = ["std containers behave as specified (insert on an existing key reports false, erase(begin()) "
                       "removes the least element)", "element methods other than the discovered mutators do not write "
                       "key or size fields (checked from their bodies)"]


# ------------------------------------------------------------------------------------- self-test (thorough tier)

_CC, _H = TU, "src/user/user_cache.h"
_HELPER_AT = "// trims out data to meet memory requirements"
# the shapes of /verif/refactors/D-p4 as small anchored edits (controls) and the same shapes with a defect (mutants)
_CAP_TEST = "    if (size_ - asset_ptr->BytesCount() + size > capacity_) { return false; }\n"
_CNT_WRITE = "    size_ = size_ - asset_ptr->BytesCount() + size;\n"
_HOISTED = "    const std::size_t replaced = size_ - asset_ptr->BytesCount() + size;\n"
_DEL1 = ("void mjCCache::Delete(mjCAsset* asset) {\n  size_ -= asset->BytesCount();\n  entries_.erase(asset);\n"
         "  for (auto& reference : asset->References()) { models_[reference].erase(asset); }\n  lookup_.erase(asset->Id());\n}")
_DEL2 = ("void mjCCache::Delete(mjCAsset* asset, const std::string& skip) {\n  size_ -= asset->BytesCount();\n"
         "  entries_.erase(asset);\n\n  for (auto& reference : asset->References()) {\n"
         "    if (reference != skip) { models_[reference].erase(asset); }\n  }\n  lookup_.erase(asset->Id());\n}")
_DEL_EXCEPT = ("void mjCCache::Delete(mjCAsset* asset, const std::string& skip) {\n  DeleteExcept(asset, &skip);\n}\n\n"
               "void mjCCache::DeleteExcept(mjCAsset* asset, const std::string* skip) {\n%s  entries_.erase(asset);\n"
               "  for (const std::string& model : asset->References()) {\n    if (skip && model == *skip) { continue; }\n"
               "    models_[model].erase(asset);\n  }\n  lookup_.erase(asset->Id());\n}")
_MERGE = [(_CC, _DEL1, "void mjCCache::Delete(mjCAsset* asset) {\n  DeleteExcept(asset, nullptr);\n}"),
          (_H, "  void Trim();", "  void Trim();\n  void DeleteExcept(mjCAsset* asset, const std::string* skip);")]
_TRIM = "  while (size_ > capacity_) { Delete(*entries_.begin()); }"
_TRIM_FOR = ("  for (;;) {\n    if (size_ <= capacity_) { break; }\n    mjCAsset* lowest = *entries_.%s();\n"
             "    Delete(lowest);\n  }")
_POP_LOCK = ("PopulateData(const std::string& id, const mjResource* resource, mjCDataFunc fn) {\n"
             "  std::lock_guard<std::mutex> lock(mutex_);")
_POP_ULOCK = ("PopulateData(const std::string& id, const mjResource* resource, mjCDataFunc fn) {\n"
              "  std::unique_lock<std::mutex> lock(mutex_);")
# protected-alias clause of R-LOCK: PopulateData rewritten so that the guard lives in an inner block (`%s` = declarations placed
# before the block, `%s` = what replaces the final `return asset->PopulateData(fn);`)
_POP_HEAD = "PopulateData(const std::string& id, const mjResource* resource, mjCDataFunc fn) {\n"
_POP_TAIL = "  entries_.insert(asset);\n\n  return asset->PopulateData(fn);"
_POP_ELEM = "  mjCAsset* asset = &(it->second);\n\n  // update priority queue"
_POP_Q = "R-LOCK construct=mjCCache::PopulateData(const std::string &, const mjResource *, mjCDataFunc):alias-of-lookup_:"


def _pop_block(before, in_block_tail, after, elem=None):
    """PopulateData with `before` declared ahead of a block that holds the lock_guard; the block ends with
    `in_block_tail` and is followed by `after`."""
    ed = [(_CC, _POP_LOCK, _POP_HEAD + before + "  {\n  std::lock_guard<std::mutex> lock(mutex_);"),
          (_CC, _POP_TAIL, "  entries_.insert(asset);\n" + in_block_tail + "  }\n\n" + after)]
    if elem is not None:
        ed.append((_CC, _POP_ELEM, elem + "\n\n  // update priority queue"))
    return ed


_FIND_DEF = ("mjCAsset* mjCCache::Find(const std::string& id) {\n%s  auto it = lookup_.find(id);\n"
             "  return it == lookup_.end() ? nullptr : &(it->second);\n}\n\n")
_DEL_ASSET = "  auto                        it = lookup_.find(id);\n  if (it != lookup_.end()) { Delete(&(it->second)); }"
_GUARD_LINE = "  std::lock_guard<std::mutex> lock(mutex_);\n"

SELFTEST = {
    # name: (edits, substring expected among the new reports, or None for a control that must stay silent)
    # ---- protected aliases: must fire
    "alias-callback-after-guard-block": (_pop_block("  mjCAsset* asset = nullptr;\n", "", "  return asset->PopulateData(fn);",
                                                    elem="  asset = &(it->second);"), _POP_Q + "use-outside-lock"),
    "alias-iterator-call-after-unlock": ([(_CC, _POP_LOCK, _POP_ULOCK),
                                          (_CC, _POP_TAIL, "  entries_.insert(asset);\n  lock.unlock();\n\n"
                                           "  return it->second.PopulateData(fn);")], _POP_Q + "use-outside-lock"),
    "alias-element-reference-returned": ([(_CC, _HELPER_AT, "const mjCAsset& mjCCache::Peek(const std::string& id) {\n" + _GUARD_LINE +
                                           "  return lookup_.at(id);\n}\n\n" + _HELPER_AT),
                                          (_H, "  void DeleteAsset(const std::string& id);",
                                           "  void DeleteAsset(const std::string& id);\n  const mjCAsset& Peek(const std::string& id);")],
                                         "R-LOCK construct=mjCCache::Peek(const std::string &):alias-of-lookup_:returned-beyond-lock"),
    "alias-element-pointer-stored-in-static": ([(_CC, _POP_ELEM, "  mjCAsset* asset = &(it->second);\n"
                                                 "  static const mjCAsset* last_hit = nullptr;\n  last_hit = asset;\n\n"
                                                 "  // update priority queue")], _POP_Q + "stored-beyond-lock"),
    "alias-element-pointer-stored-in-out-param": ([(_CC, _HELPER_AT, "bool mjCCache::Locate(const std::string& id, const mjCAsset** out) {\n" +
                                                    _GUARD_LINE + "  auto it = lookup_.find(id);\n  if (it == lookup_.end()) { return false; }\n"
                                                    "  *out = &(it->second);\n  return true;\n}\n\n" + _HELPER_AT),
                                                   (_H, "  void DeleteAsset(const std::string& id);", "  void DeleteAsset(const std::string& id);\n"
                                                    "  bool Locate(const std::string& id, const mjCAsset** out);")],
                                                  "R-LOCK construct=mjCCache::Locate(const std::string &, const mjCAsset **):alias-of-lookup_:"
                                                  "stored-beyond-lock"),
    "alias-kept-across-unlock-relock": ([(_CC, _POP_LOCK, _POP_ULOCK),
                                         (_CC, _POP_ELEM, "  mjCAsset* asset = &(it->second);\n  lock.unlock();\n  lock.lock();\n\n"
                                          "  // update priority queue")], _POP_Q + "use-outside-lock"),
    "alias-raw-payload-pointer-after-guard-block": (_pop_block("  const void* raw = nullptr;\n", "  raw = asset->Data();\n",
                                                               "  return fn(raw);"), _POP_Q + "use-outside-lock"),
    "alias-element-reference-after-guard-block": (_pop_block("  const std::string* stamp = nullptr;\n  bool ok = false;\n",
                                                             "  const std::string& ts = asset->Timestamp();\n  stamp = &ts;\n"
                                                             "  ok = asset->PopulateData(fn);\n", "  return ok && !stamp->empty();"),
                                                  _POP_Q + "use-outside-lock"),
    "alias-find-helper-locks-itself": ([(_CC, _HELPER_AT, _FIND_DEF % _GUARD_LINE + _HELPER_AT),
                                        (_H, "  void Trim();", "  void Trim();\n  mjCAsset* Find(const std::string& id);"),
                                        (_CC, "void mjCCache::DeleteAsset(const std::string& id) {\n" + _GUARD_LINE + _DEL_ASSET,
                                         "void mjCCache::DeleteAsset(const std::string& id) {\n  mjCAsset* found = Find(id);\n" +
                                         _GUARD_LINE + "  if (found) { Delete(found); }")],
                                       "R-LOCK construct=mjCCache::Find(const std::string &):alias-of-lookup_:returned-beyond-lock"),
    # ---- protected aliases: controls (values copied out under the lock are not aliases; aliases used under the lock)
    "control-payload-shared-ptr-copied-under-lock": (_pop_block("  std::shared_ptr<const void> payload;\n", "  payload = asset->data_;\n",
                                                                "  return fn(payload.get());"), None),
    "control-size-and-string-copied-under-lock": (_pop_block("  std::size_t nbytes = 0;\n  std::string stamp;\n  bool ok = false;\n",
                                                             "  nbytes = asset->BytesCount();\n  stamp = it->second.Timestamp();\n"
                                                             "  ok = asset->PopulateData(fn);\n",
                                                             "  return ok && nbytes > 0 && !stamp.empty();"), None),
    "control-alias-used-only-inside-guard-block": (_pop_block("  bool ok = false;\n", "  ok = asset->PopulateData(fn);\n", "  return ok;"),
                                                   None),
    "control-alias-null-test-after-guard-block": (_pop_block("  mjCAsset* asset = nullptr;\n  bool ok = false;\n",
                                                             "  ok = asset->PopulateData(fn);\n", "  return ok && asset != nullptr;",
                                                             elem="  asset = &(it->second);"), None),
    "control-unlock-after-last-alias-use": ([(_CC, _POP_LOCK, _POP_ULOCK),
                                             (_CC, _POP_TAIL, "  entries_.insert(asset);\n  const bool ok = asset->PopulateData(fn);\n"
                                              "  lock.unlock();\n\n  return ok;")], None),
    "control-private-find-helper-under-callers-lock": ([(_CC, _HELPER_AT, _FIND_DEF % "" + _HELPER_AT),
                                                        (_H, "  void Trim();", "  void Trim();\n  mjCAsset* Find(const std::string& id);"),
                                                        (_CC, _DEL_ASSET, "  mjCAsset* found = Find(id);\n  if (found) { Delete(found); }")],
                                                       None),
    "remove-lock_guard": ([(_CC, "std::size_t mjCCache::Size() const {\n  std::lock_guard<std::mutex> lock(mutex_);\n",
                            "std::size_t mjCCache::Size() const {\n")], "R-LOCK construct=mjCCache::Size() const:size_"),
    "lock-scope-too-small": ([(_CC, "  std::lock_guard<std::mutex> lock(mutex_);\n  capacity_ = size;\n  Trim();",
                               "  { std::lock_guard<std::mutex> lock(mutex_);\n  capacity_ = size; }\n  Trim();")],
                             "R-LOCK construct=mjCCache::SetCapacity(std::size_t)->Trim()"),
    "bump-without-erase": ([(_CC, "    asset_ptr->AddReference(modelname);",
                             "    asset_ptr->AddReference(modelname);\n    asset_ptr->IncrementAccess();")],
                           "R-KEYMUT construct=mjCCache::Insert"),
    "bump-before-erase": ([(_CC, "  entries_.erase(asset);\n  asset->IncrementAccess();\n  entries_.insert(asset);",
                            "  asset->IncrementAccess();\n  entries_.erase(asset);\n  entries_.insert(asset);")],
                          "R-KEYMUT construct=mjCCache::PopulateData"),
    "drop-size-decrement": ([(_CC, "void mjCCache::Delete(mjCAsset* asset) {\n  size_ -= asset->BytesCount();\n",
                              "void mjCCache::Delete(mjCAsset* asset) {\n")],
                            "R-PAIRWRITE construct=mjCCache::Delete(mjCAsset *):lookup_.erase"),
    "drop-size-increment": ([(_CC, "  size_ += size;\n  return true;", "  return true;")],
                            "R-PAIRWRITE construct=mjCCache::Insert"),
    "replace-before-accounting": ([(_CC, "    size_ = size_ - asset_ptr->BytesCount() + size;\n    asset_ptr->ReplaceData(asset);",
                                    "    asset_ptr->ReplaceData(asset);\n    size_ = size_ - asset_ptr->BytesCount() + size;")],
                                  "R-PAIRWRITE construct=mjCCache::Insert"),
    "skip-capacity-test": ([(_CC, "    if (size_ - asset_ptr->BytesCount() + size > capacity_) { return false; }\n", "")],
                           "R-BOUND construct=mjCCache::Insert"),
    "weaken-capacity-test": ([(_CC, "if ((size_ + size > capacity_) && lookup_", "if ((size > capacity_) && lookup_")],
                             "R-BOUND construct=mjCCache::Insert"),
    "setcapacity-without-trim": ([(_CC, "  capacity_ = size;\n  Trim();", "  capacity_ = size;")],
                                 "R-BOUND construct=mjCCache::SetCapacity(std::size_t):capacity_ write"),
    "comparator-reversed": ([(_H, "return e1->AccessCount() < e2->AccessCount();",
                              "return e1->AccessCount() > e2->AccessCount();")],
                            "R-EVICT construct=mjCAssetCompare::operator():lexicographic"),
    "evict-greatest": ([(_CC, "Delete(*entries_.begin());", "Delete(*entries_.rbegin());")],
                       "R-EVICT construct=mjCCache::Trim():evicts-least"),
    "control-rename-locals": ([(_CC, "asset_ptr", "p"), (_CC, "auto [it, inserted]", "auto [iter, fresh]"),
                               (_CC, "mjCAsset* p = &(it->second);\n\n  if (!inserted)",
                                "mjCAsset* p = &(iter->second);\n\n  if (!fresh)"),
                               (_CC, "if (it->second.Timestamp() == asset.Timestamp())",
                                "if (iter->second.Timestamp() == asset.Timestamp())")], None),
    "control-rename-members": ([(_CC, "std::size_t", "std::SIZET"), (_CC, "size_", "bytes_"), (_CC, "std::SIZET", "std::size_t"),
                                (_H, "  std::size_t        size_       = 0;  // current size",
                                 "  std::size_t        bytes_      = 0;  // current size"),
                                (_CC, "asset.bytes_      = other.bytes_;", "asset.size_      = other.size_;"),
                                (_CC, "entries_", "queue_"), (_H, "entries_;", "queue_;"),
                                (_CC, "mutex_", "mu_"), (_H, "mutable std::mutex mutex_;", "mutable std::mutex mu_;")], None),
    "control-reorder": ([(_CC, "  entries_.insert(asset_ptr);\n  models_[modelname].insert(asset_ptr);\n  size_ += size;",
                          "  size_ += size;\n  models_[modelname].insert(asset_ptr);\n  entries_.insert(asset_ptr);"),
                         (_CC, "void mjCCache::Delete(mjCAsset* asset) {\n  size_ -= asset->BytesCount();\n  entries_.erase(asset);",
                          "void mjCCache::Delete(mjCAsset* asset) {\n  entries_.erase(asset);\n  size_ -= asset->BytesCount();")], None),
    "control-extract-helper": ([(_CC, "  entries_.erase(asset);\n  asset->IncrementAccess();\n  entries_.insert(asset);", "  Touch(asset);"),
                                (_CC, _HELPER_AT, "void mjCCache::Touch(mjCAsset* a) {\n  entries_.erase(a);\n  a->IncrementAccess();\n"
                                 "  entries_.insert(a);\n}\n\n" + _HELPER_AT),
                                (_H, "  void Trim();", "  void Trim();\n  void Touch(mjCAsset* a);")], None),
    "control-hoist-size-local": ([(_CC, _CAP_TEST, _HOISTED + "    if (replaced > capacity_) { return false; }\n"),
                                  (_CC, _CNT_WRITE, "    size_ = replaced;\n")], None),
    "hoisted-size-skips-capacity-test": ([(_CC, _CAP_TEST, _HOISTED), (_CC, _CNT_WRITE, "    size_ = replaced;\n")],
                                         "R-BOUND construct=mjCCache::Insert"),
    "hoisted-size-forgets-old-bytes": ([(_CC, _CAP_TEST, "    const std::size_t replaced = size_ + size;\n"
                                         "    if (replaced > capacity_) { return false; }\n"),
                                        (_CC, _CNT_WRITE, "    size_ = replaced;\n")], "R-PAIRWRITE construct=mjCCache::Insert"),
    "hoisted-size-stale-after-counter-write": ([(_CC, _CAP_TEST, _HOISTED + "    if (replaced > capacity_) { return false; }\n"),
                                                (_CC, _CNT_WRITE, "    size_ -= asset_ptr->BytesCount();\n    size_ = replaced;\n")],
                                               "<exit 2>"),
    "control-merge-delete-overloads": (_MERGE + [(_CC, _DEL2, _DEL_EXCEPT % "  size_ -= asset->BytesCount();\n")], None),
    "merged-delete-drops-size-decrement": (_MERGE + [(_CC, _DEL2, _DEL_EXCEPT % "")],
                                           "R-PAIRWRITE construct=mjCCache::DeleteExcept"),
    "control-trim-for-break": ([(_CC, _TRIM, _TRIM_FOR % "begin")], None),
    "trim-for-break-evicts-greatest": ([(_CC, _TRIM, _TRIM_FOR % "rbegin")], "R-EVICT construct=mjCCache::Trim():evicts-least"),
    "trim-for-break-stale-least": ([(_CC, _TRIM, (_TRIM_FOR % "begin").replace("    Delete(lowest);", "    entries_.erase(lowest);\n"
                                     "    lowest->IncrementAccess();\n    entries_.insert(lowest);\n    Delete(lowest);"))],
                                   "R-EVICT construct=mjCCache::Trim():evicts-least"),
    "trim-for-break-wrong-exit": ([(_CC, _TRIM, (_TRIM_FOR % "begin").replace("size_ <= capacity_", "size_ > capacity_"))],
                                  "R-BOUND construct=mjCCache::SetCapacity(std::size_t):capacity_ write"),
    "control-unique-lock-split-guard": ([(_CC, "std::lock_guard<std::mutex> lock(mutex_);\n\n  // check if asset is too large",
                                          "std::unique_lock<std::mutex> lock(mutex_);\n\n  // check if asset is too large"),
                                         (_CC, "  if ((size_ + size > capacity_) && lookup_.find(id) == lookup_.end()) { return false; }",
                                          "  if (size_ + size > capacity_) {\n    if (lookup_.find(id) == lookup_.end()) { return false; }\n  }"),
                                         (_CC, _POP_LOCK, _POP_ULOCK)], None),
    "unique-lock-released-early": ([(_CC, _POP_LOCK, _POP_ULOCK),
                                    (_CC, "  // update priority queue\n", "  lock.unlock();\n  // update priority queue\n")],
                                   "R-LOCK construct=mjCCache::PopulateData"),
    "unique-lock-deferred": ([(_CC, _POP_LOCK, _POP_ULOCK.replace("lock(mutex_)", "lock(mutex_, std::defer_lock)"))],
                             "R-LOCK construct=mjCCache::PopulateData"),
    "control-hasasset-conditional": ([(_CC, "  if (it == lookup_.end()) { return nullptr; }\n\n  return &(it->second.Timestamp());",
                                       "  return (it != lookup_.end()) ? &(it->second.Timestamp()) : nullptr;")], None),
    "control-new-asset-branch-first": ([(_CC, "  if (!inserted) {\n", "  if (inserted) {\n    asset_ptr->SetInsertNum(insert_num_++);\n"
                                         "    entries_.insert(asset_ptr);\n    models_[modelname].insert(asset_ptr);\n    size_ += size;\n"
                                         "    return true;\n  }\n  {\n"),
                                        (_CC, "  // new asset\n  asset_ptr->SetInsertNum(insert_num_++);\n  entries_.insert(asset_ptr);\n"
                                         "  models_[modelname].insert(asset_ptr);\n  size_ += size;\n  return true;\n}", "  return true;\n}"),
                                        (_CC, "    if (it->second.Timestamp() == asset.Timestamp()) { return true; }\n"
                                         "    asset_ptr->SetTimestamp(asset.Timestamp());\n" + _CNT_WRITE +
                                         "    asset_ptr->ReplaceData(asset);\n",
                                         "    if (asset_ptr->Timestamp() != asset.Timestamp()) {\n"
                                         "      asset_ptr->SetTimestamp(asset.Timestamp());\n  " + _CNT_WRITE +
                                         "      asset_ptr->ReplaceData(asset);\n    }\n")], None),
    "control-accessor-through-local": ([(_CC, "  std::lock_guard<std::mutex> lock(mutex_);\n  return size_;",
                                         "  std::lock_guard<std::mutex> lock(mutex_);\n  const std::size_t bytes = size_;\n  return bytes;"),
                                        (_CC, "  asset_ptr->SetInsertNum(insert_num_++);", "  const auto stamp = insert_num_++;\n"
                                         "  asset_ptr->SetInsertNum(stamp);")], None),
    "control-extract-capacity-predicate": ([(_CC, "  if ((size_ + size > capacity_) && lookup_", "  if (WouldExceed(size) && lookup_"),
                                            (_CC, _HELPER_AT, "bool mjCCache::WouldExceed(std::size_t extra) const {\n"
                                             "  return size_ + extra > capacity_;\n}\n\n" + _HELPER_AT),
                                            (_H, "  void Trim();", "  void Trim();\n  bool WouldExceed(std::size_t extra) const;")],
                                           None),
    "capacity-predicate-weakened": ([(_CC, "  if ((size_ + size > capacity_) && lookup_", "  if (WouldExceed(size) && lookup_"),
                                     (_CC, _HELPER_AT, "bool mjCCache::WouldExceed(std::size_t extra) const {\n"
                                      "  return extra > capacity_;\n}\n\n" + _HELPER_AT),
                                     (_H, "  void Trim();", "  void Trim();\n  bool WouldExceed(std::size_t extra) const;")],
                                    "R-BOUND construct=mjCCache::Insert"),
    "control-extract-accounting": ([(_CC, "  size_ += size;\n  return true;", "  Grow(size);\n  return true;"),
                                    (_CC, _HELPER_AT, "void mjCCache::Grow(std::size_t n) { size_ += n; }\n\n" + _HELPER_AT),
                                    (_H, "  void Trim();", "  void Trim();\n  void Grow(std::size_t n);")], None),
}


def run_selftest(pid, table, res, rename=None):
    """Apply each edit set to a scratch copy of the sources and compare the reports with the unchanged copy."""
    import re as _re
    from .. import scratch
    parts = ["include", "src", "cmake", "CMakeLists.txt"]
    pat = _re.compile(r"rule=(\S+) construct=(.*?)(?:: | \S+:\d+ )")

    def reports(out):
        return {f"{a} construct={b}" for a, b in pat.findall(out)}
    with scratch.scratch(parts) as root:
        rc0, out0 = scratch.run_check(pid, root)
    if rc0 == 2:
        raise AnalysisError(f"self-test: the check does not run on an unchanged scratch copy: {out0[-300:]}")
    base = reports(out0)
    results, failed = {}, []
    for name, (edits, expect) in table.items():
        with scratch.scratch(parts) as root:
            try:
                for f, old, new in edits:
                    scratch.edit(root, f, old, new, count=10 ** 6)
            except RuntimeError as e:
                results[name] = f"anchor lost: {e}"
                failed.append(name)
                continue
            rc, out = scratch.run_check(pid, root)
        got = reports(out)
        if rename:
            got = {rename(g) for g in got}
        new = sorted(got - base)
        if expect == "<exit 2>":
            ok = rc == 2
        elif rc == 2:
            ok = False
        elif expect is None:
            ok = not new
        else:
            ok = any(expect in g for g in new)
        results[name] = {"exit": rc, "new_reports": new[:6], "expected": expect or "<silent>", "ok": ok}
        if not ok:
            failed.append(name)
    res.extra["selftest"] = results
    res.count("selftest_mutations", sum(1 for v in table.values() if v[1] is not None))
    res.count("selftest_controls", sum(1 for v in table.values() if v[1] is None))
    if failed:
        raise AnalysisError(f"self-test failed for {failed}: a seeded defect was not reported or a behaviour-preserving "
                            f"edit was")


def selftest(res):
    run_selftest("C38", SELFTEST, res)
