"""C39 Virtual file system operations have set semantics.

Decided, from the clang AST of src/user/user_vfs.{cc,h}, user_util.{cc,h} (key class) and
user_resource.cc (resource API):

R-KEYNORM   every access to the string-keyed table(s) of class VFS (find/contains/count/at/[]/
            emplace/insert/try_emplace/insert_or_assign/erase/extract) is enumerated and the
            provenance of its key expression is computed (locals through their definitions,
            parameters of private/internal functions through every call site, results of internal
            helper functions that only read their string arguments through their return
            statements, substr/copy transparent).  A key must be the string of an object of the path class (normalised by
            construction, see below) or the provider prefix, and its provenance class must also
            be used at an insertion; a raw `const char*`/string parameter of an entry point
            reaching a table access is a violation.  The path class invariant is checked on its
            own source: every public constructor taking strings assigns the string member from
            the same normalising function, the non-normalising factory is private and only fed
            from the (already normalised) member.
R-ADDFIRST  every insertion into the table is non-overwriting and dominated, on every path, by a
            containment test of the same key with negative outcome; in the add path the positive
            outcome returns the repeated-name code (== 2 as documented in mujoco.h) with no write to
            the table or through the found entry before that return; the C wrappers return that
            status unchanged.  The containment test is `contains(k)`, `count(k)` (bare or compared with 0) or
            `find(k) != end()` alike; k is compared after never-reassigned locals / references that alias the key
            expression are expanded; the outcome may reach the branch through a bool local (initialised or assigned,
            e.g. inside a lock scope and tested after it), which stands for the test until it is given another value or
            the table changes.
R-DELRESULT the unmount path returns success only on paths that erased the entry it found and a
            failure code (== -1 as documented) on every path where the lookup found nothing;
            mj_unmountVFS / mj_deleteFileVFS return values derived from that result only.
            mj_deleteFileVFS: 0 is returned exactly on the paths on which an unmount attempt erased an entry
            (decided on the call-frame interpretation of R-DELEXACT, so early returns, nested ifs, ?:, a local that holds
            the first status and helper functions are all read alike).
R-DELEXACT  the delete / unmount entry points are interpreted abstractly over call frames (wrappers, helpers and the
            class methods are entered with their arguments classified as the caller's exact reduced name -- the name
            parameter, a path object built from it by the one-argument constructor, its string accessors -- or as any
            other key).  What is known about the exact name ("nothing", "absent", "present", "erased") is learnt from the
            outcome of containment tests / find() of the exact key wherever they are written.  An erase from the mount
            table under a key other than the exact name may happen only where the exact name is known to be absent: the
            legacy (stripped, lower-cased) key is a fallback, never the first choice.  Necessary: with both names mounted,
            any other order removes the wrong entry.
R-DERIVED   derived-state coherence.  Every data member of the class other than the mount table is classified from data
            and control flow (cxx2.MemberFlow): it is *filled from lookups* when a value stored into it derives from the
            table (an iterator, the mapped object, a presence test, anything read through the found entry, the result of a
            method that returns such a value) or is stored under the control of such a lookup (the "not found"
            fall-through results: the default mount, nullptr, false); it is *read back* when a value read from it is
            returned by a function that also works on the table (or fills the member), or a test of it against the
            function's own argument decides such a return.  A member that is both is a cache of the table.  On every
            path of every function that inserts into or erases from the table (constructors / destructor excepted) the
            cache must be emptied (clear(), = {}, reset(), nullptr) -- before the change with nothing stored in between, or
            after it; helpers are followed through summaries.  Removing one key is accepted only for an exact-key cache
            (every entry is filled under the very key that all table lookups of the filling function use) and only for
            that key; an insertion needs no invalidation only for an exact-key cache that stores nothing for names that
            were not found.  With longest-prefix / scan / fall-through lookups both insertions and removals change the
            answers of other names, so only emptying is accepted.  The census of all members (role, where filled, where
            read back) is part of the evidence, and a fixed miniature class (built as IR, independent of /repo) with a
            forgotten memo must be reported on every run, so the rule cannot pass by matching nothing.
R-READBACK  the buffer provider's read callback (a lambda, or a named function / static member
            function of the file, stored in `read`) returns data()/size() of one and the same member of the
            provider object reached from the resource -- held by value or through one dereference (`->`, `*`,
            `.get()`: raw or smart pointer); that member is written only in the provider's constructors; the buffer
            constructor copies exactly the n source bytes (counted loop appending src[i], or a range copy of
            [src, src + n), into the member or into a local / temporary that is stored into it);
            contents-private-copy: in every constructor the member is given a value built there (container filled in
            place, by-value result of a reading function, make_unique / make_shared / new, a local object, the fresh result
            of a function of the file) and never one that derives -- by data flow or under control of a lookup -- from an
            object with static storage duration (a pool shared between providers: with a content digest as key, which
            bytes a present name returns would depend on hash collisions and on what other providers hold);
            VFS::Read and mju_readResource pass buffer pointer and result through unchanged.
Not decided: behaviour over histories (which of several entries a prefix/legacy lookup picks),
derived state kept outside the class (file-level statics, provider objects), caches that are re-validated on read or
invalidated through a second member (reported as "cannot decide"), counters (++/--) as derived state,
concurrent add/add races (the containment test and the emplace are in two lock scopes), the
write path (mju_writeResource is not one of the property's operations; listed in the evidence).
"""
from __future__ import annotations

import os
import re

from .. import cfront, cir, cxx2, paths
from ..cfront import AnalysisError
from ..cxx2 import etext

TU = "src/user/user_vfs.cc"
UTIL_TU = "src/user/user_util.cc"
RES_TU = "src/user/user_resource.cc"
API_HEADER = "include/mujoco/mujoco.h"
VFSCLS = "VFS"
KEYCLS = "FilePath"
API = ("mj_addBufferVFS", "mj_addFileVFS", "mj_deleteFileVFS", "mj_containsBufferVFS", "mj_containsFileVFS",
       "mj_mountVFS", "mj_unmountVFS")
ANCHOR_METHODS = ("Mount", "Unmount", "ContainsBuffer", "ContainsFile", "Open", "Read")
MAPS = ("std::unordered_map", "std::map")
KEYED_OPS = ("find", "contains", "count", "at", "emplace", "insert", "try_emplace", "insert_or_assign", "erase",
             "extract", "equal_range")
INSERT_OPS = ("emplace", "insert", "try_emplace")
OVERWRITE_OPS = ("insert_or_assign", "[]", "at")
MUTATING_OPS = INSERT_OPS + ("insert_or_assign", "erase", "clear", "extract", "swap", "merge", "[]")
KEYLESS_OPS = ("begin", "end", "cbegin", "cend", "clear", "empty", "size")
# table accesses reached only through these public methods are outside the property's operations
OUT_OF_SCOPE = {"Write": "mju_writeResource/VFS::Write is not one of C39's operations (add, delete, lookup, read)"}


class Fn:
    def __init__(self, name, qual, node, kind, cls=None, access=None, internal=False, file=None):
        self.name, self.qual, self.node, self.kind = name, qual, node, kind
        self.cls, self.access, self.internal = cls, access, internal
        self.file = file or node.get("file")
        self.params = cir.params(node)


class World:
    """Functions of the VFS translation unit, call sites, parameter ownership."""

    def __init__(self):
        self.ir = cfront.load_tu(TU, lang="cxx", types=True)
        decls = self.ir["decls"]
        self.vfs = cxx2.ClassModel(decls, VFSCLS, TU)
        for a in ANCHOR_METHODS:
            self.vfs.require_method(a)
        self.fns = []
        self.by_decl = {}
        for m in self.vfs.methods.values():
            if m.node is not None and not m.implicit and not m.defaulted:
                f = Fn(m.name, m.qual, m.node, "method", self.vfs, m.access, internal=(m.access != "public"), file=m.file)
                f.method = m
                self.fns.append(f)
                self.by_decl[m.id] = f
                self.by_decl[m.node.get("id")] = f
        # other classes defined in the TU file (the buffer provider)
        self.local_classes = []
        for d, ns in cxx2.all_decls(decls):
            if d.get("k") == "CXXRecordDecl" and d.get("completeDefinition") and d.get("n") and \
                    (d.get("file") == TU) and d.get("n") != VFSCLS:
                cm = cxx2.ClassModel(decls, d["n"], TU)
                if cm.node is not d:
                    continue
                self.local_classes.append(cm)
                for m in cm.methods.values():
                    tmpl = getattr(m, "template", None)
                    if m.node is None or m.implicit or m.defaulted:
                        continue
                    if tmpl is not None and re.search(r"\bArgs\b|<dependent", m.type):
                        continue           # the uninstantiated pattern
                    f = Fn(m.name, m.qual, m.node, "method", cm, m.access, internal=True, file=TU)
                    f.method = m
                    self.fns.append(f)
                    self.by_decl[m.id] = f
        self.free = {}
        for d, ns in cxx2.all_decls(decls):
            if d.get("k") == "FunctionDecl" and cir.body(d) is not None and d.get("file") == TU:
                internal = "<anon>" in ns or d.get("storageClass") == "static"
                f = Fn(d.get("n"), d.get("n"), d, "function", None, None, internal=internal, file=TU)
                self.fns.append(f)
                self.free[d.get("n")] = f
                self.by_decl[d.get("id")] = f
        for a in API:
            if a not in self.free:
                raise AnalysisError(f"anchor function {a} not found in {TU}")
        self.param_owner = {}
        for f in self.fns:
            for i, p in enumerate(f.params):
                self.param_owner[p.get("id")] = (f, i)
        # lambdas: parameters of lambdas are owned by nobody (callbacks)
        self.calls = {}          # callee Fn -> [(caller Fn, call node, args)]
        for f in self.fns:
            for x in cxx2.walk(f.node):
                g = self.callee(x)
                if g is not None:
                    self.calls.setdefault(id(g), []).append((f, x, self.call_args(x)))
        # string-keyed tables
        self.tables = [fid for fid, fd in self.vfs.fields.items()
                       if cxx2.template_name(fd.get("t")) in MAPS and
                       (cxx2.template_args(fd.get("t")) or [""])[0] in ("std::string", "std::basic_string<char>")]
        if not self.tables:
            raise AnalysisError(f"{VFSCLS}: no string-keyed table member found")
        mx = [fid for fid, fd in self.vfs.fields.items() if cxx2.strip_cvref(fd.get("t")) == "std::mutex"]
        self.mutex = mx[0] if len(mx) == 1 else None
        # the mount table by role: the string-keyed table(s) the status-returning add path inserts into and the delete
        # path erases from.  Another string-keyed member (a memo of lookups, say) is not the table R-KEYNORM / R-ADDFIRST /
        # R-DELRESULT speak about; it is classified and checked by R-DERIVED.
        self.string_tables = list(self.tables)
        ins, era = set(), set()
        for fn in self.fns:
            if fn.kind != "method" or fn.cls is not self.vfs or "Status" not in (fn.node.get("t") or "").split("(")[0]:
                continue
            for x in cxx2.walk(fn.node):
                ta = table_access(self, x)
                if ta and ta[1] in INSERT_OPS + OVERWRITE_OPS and ta[1] != "at":
                    ins.add(ta[0])
                if ta and ta[1] in ("erase", "extract"):
                    era.add(ta[0])
        primary = (ins & era) or ins
        if primary:
            self.tables = [t for t in self.string_tables if t in primary]

    def callee(self, x):
        if x is None:
            return None
        if x.get("k") == "CXXMemberCallExpr":
            c = cir.kids(x)
            f = cir.strip(c[0]) if c else None
            if f is not None and f.get("k") == "MemberExpr":
                return self.by_decl.get(f.get("mid"))
            return None
        if x.get("k") == "CallExpr":
            c = cir.kids(x)
            f = cir.strip(c[0]) if c else None
            if f is not None and f.get("k") == "DeclRefExpr":
                r = f.get("ref") or {}
                g = self.by_decl.get(r.get("id"))
                if g is not None:
                    return g
                if r.get("k") == "FunctionDecl":
                    return self.free.get(r.get("n"))
            return None
        if x.get("k") in ("CXXConstructExpr", "CXXTemporaryObjectExpr", "CXXNewExpr"):
            return None
        return None

    @staticmethod
    def call_args(x):
        return [a for a in cir.kids(x)[1:]]

    def tname(self, fid):
        return self.vfs.fname(fid)


# ------------------------------------------------------------------------------------- key class invariant

def check_key_class(res):
    """The path class normalises in every public constructor; un-normalised construction is private."""
    ir = cfront.load_tu(UTIL_TU, lang="cxx", filt=KEYCLS)
    K = cxx2.ClassModel(ir["decls"], KEYCLS, UTIL_TU)
    sf = [fid for fid, f in K.fields.items() if cxx2.strip_cvref(f.get("t")) in ("std::string", "std::basic_string<char>")]
    if len(sf) != 1:
        raise AnalysisError(f"{KEYCLS}: expected exactly one string member, found {len(sf)}")
    pf = sf[0]
    accessors = set()
    for m in K.methods.values():
        if m.node is None:
            continue
        if K.returned_field(m) == pf:
            accessors.add(m.name)
        else:
            b = m.body
            rets = [x for x in cxx2.walk(b) if x.get("k") == "ReturnStmt"] if b else []
            if len(rets) == 1:
                e = cxx2.skip(cir.kids(rets[0])[0]) if cir.kids(rets[0]) else None
                if e is not None and e.get("k") == "CXXMemberCallExpr":
                    r = cxx2.receiver(e)
                    if r and r[2] in ("c_str", "data") and cxx2.field_of(r[0]) == pf:
                        accessors.add(m.name)

    def source_call(e):
        """Name of the own static/member function whose result initialises the member, else None."""
        e = cxx2.skip(e)
        if e is not None and e.get("k") in ("CallExpr", "CXXMemberCallExpr"):
            nm = cir.callee(e)
            if nm and any(m.name == nm for m in K.methods.values()):
                return nm
        return None
    norm = {}
    raw_ctor = []
    for m in K.methods.values():
        if m.kind != "CXXConstructorDecl" or m.node is None or m.defaulted or m.implicit or m.deleted:
            continue
        ps = m.params()
        if not ps:
            continue
        src = None
        ini = K.ctor_inits(m).get(pf) if any(c and c.get("k") == "CXXCtorInitializer" for c in cir.kids(m.node)) else None
        if ini is not None and ini.get("k") not in ("CXXConstructExpr",) or (ini is not None and cxx2.real_args(ini)):
            src = source_call(ini)
        ws = [w for w in K.field_writes(m) if w[0] == pf]
        for _, node, rhs in ws:
            src = source_call(rhs)
        if m.access == "public":
            norm[m.qual] = (src, m)
    fns = {s for s, _ in norm.values()}
    res.rule("R-KEYNORM", "every table access key comes from the same normalisation (path-class string or provider "
             "prefix, matching an insertion); the path class normalises in every public constructor", floor=18)
    if len(fns) == 1 and None not in fns:
        normaliser = fns.pop()
    else:
        normaliser = None
        cnt = {}
        for s, _ in norm.values():
            if s:
                cnt[s] = cnt.get(s, 0) + 1
        if cnt:
            normaliser = max(cnt, key=cnt.get)
    for q, (src, m) in sorted(norm.items()):
        if src is not None and src == normaliser:
            res.ok("R-KEYNORM", f"{q}:normalises", {"via": src, "file": m.file, "line": m.line})
        else:
            res.bad("R-KEYNORM", f"{q}:normalises", m.file, m.line,
                    f"public constructor of {KEYCLS} stores the path without passing it through "
                    f"{normaliser or 'the normalising function'}() (got {src})")
    if not norm:
        raise AnalysisError(f"{KEYCLS}: no public string constructor found")
    nm = [m for m in K.methods.values() if m.name == normaliser]
    if not nm or nm[0].node is None:
        raise AnalysisError(f"{KEYCLS}::{normaliser} has no visible definition")
    # non-normalising writers of the member: must be private, and fed from the member itself
    raw_makers = []
    for m in K.user_methods():
        if m.kind == "CXXConstructorDecl":
            continue
        for f, node, rhs in K.field_writes(m):
            pass
        # writes through a local object (factory): `FilePath path; path.path_ = str;`
        for x in cxx2.walk(m.node):
            tgt = None
            if x.get("k") == "CXXOperatorCallExpr" and cxx2.op_name(x) == "=":
                tgt = cxx2.op_args(x)[0]
            elif x.get("k") == "BinaryOperator" and x.get("op") == "=":
                tgt = cir.kids(x)[0]
            if tgt is not None and cxx2.field_of(tgt) == pf:
                raw_makers.append(m)
                break
    for m in raw_makers:
        key = f"{m.qual}:private-factory"
        if m.access == "public":
            res.bad("R-KEYNORM", key, m.file, m.line,
                    f"{m.desc} builds a {KEYCLS} without normalising and is public")
        else:
            res.ok("R-KEYNORM", key, {"access": m.access})
    raw_names = {m.name for m in raw_makers}
    seen = set()
    for m in K.user_methods():
        for x in cxx2.walk(m.node):
            if x.get("k") in ("CallExpr", "CXXMemberCallExpr") and cir.callee(x) in raw_names:
                a = [y for y in cir.kids(x)[1:] if y is not None]
                ok_src = bool(a)
                for y in a:
                    y = cxx2.skip(y)
                    while y is not None and y.get("k") == "CallExpr" and cir.callee(y) in ("move", "forward"):
                        y = cxx2.skip(cir.args(y)[0])
                    base = y
                    while base is not None and base.get("k") == "CXXMemberCallExpr":
                        r = cxx2.receiver(base)
                        own = K.callee_method(base)
                        if own is not None:
                            base = {"k": "MemberExpr", "mid": pf} if pf in K.fields_read_by(own) else None
                            break
                        base = cxx2.skip(r[0]) if r and r[0] is not None else None
                    if cxx2.field_of(base) != pf:
                        ok_src = False
                n = sum(1 for s in seen if s.startswith(m.qual)) + 1
                key = f"{m.qual}:raw-factory-arg#{n}"
                seen.add(key)
                if ok_src:
                    res.ok("R-KEYNORM", key, {"arg": etext(a[0])})
                else:
                    res.bad("R-KEYNORM", key, m.file, x.get("line"),
                            f"{cir.callee(x)}() (no normalisation) is fed `{etext(a[0]) if a else ''}`, which is not "
                            f"derived from the already normalised member")
    return {"class": KEYCLS, "member": K.fname(pf), "normaliser": normaliser, "string_accessors": sorted(accessors),
            "raw_factories": sorted(raw_names)}


# ------------------------------------------------------------------------------------- provenance

class Prov:
    def __init__(self, W, keyinfo):
        self.W = W
        self.accessors = set(keyinfo["string_accessors"])
        self.oos = []

    def is_keycls(self, t):
        t = cxx2.strip_cvref(t or "")
        return t == KEYCLS or t.endswith("::" + KEYCLS)

    def is_strlike(self, t):
        """a type whose objects carry a key text and can be edited in place (strings, views are not editable, the path class)"""
        t = t or ""
        return "std::string" in t.replace("std::string_view", "") or "basic_string<" in t or self.is_keycls(t)

    def chain(self, obj):
        """Derivation chain of an object of the path class."""
        obj = cxx2.skip(obj)
        if obj is None:
            return "?"
        if obj.get("k") == "CXXMemberCallExpr":
            r = cxx2.receiver(obj)
            if r and r[0] is not None and self.is_keycls((cir.strip(r[0]) or {}).get("t")):
                return self.chain(r[0]) + "." + r[2]
        return KEYCLS

    def prov(self, e, fn, seen=None):
        seen = seen if seen is not None else set()
        e = cxx2.skip(e)
        if e is None:
            return {("unknown", "")}
        k = e.get("k")
        if k == "StringLiteral":
            return {("literal", str(e.get("v")))}
        if k == "ConditionalOperator":
            c = cir.kids(e)
            return self.prov(c[1], fn, seen) | self.prov(c[2], fn, seen)
        if k == "CXXMemberCallExpr":
            r = cxx2.receiver(e)
            if r and r[0] is not None:
                ot = (cxx2.skip(r[0]) or {}).get("t") or ""
                if self.is_keycls(ot):
                    if r[2] in self.accessors:
                        return {("norm", self.chain(r[0]) + "." + r[2])}
                    return {("unknown", etext(e))}
                if r[2] in ("substr", "c_str", "data"):
                    return self.prov(r[0], fn, seen)
            via = self.through_helper(e, seen)
            return via if via is not None else {("unknown", etext(e))}
        if k == "CallExpr":
            via = self.through_helper(e, seen)
            return via if via is not None else {("unknown", etext(e))}
        if k == "MemberExpr":
            c = cir.kids(e)
            base = cxx2.skip(c[0]) if c else None
            bt = cxx2.strip_cvref((base or {}).get("t") or "").replace("*", "").replace("struct ", "").strip()
            if e.get("n") == "prefix" and "ResourceProvider" in bt:
                return {("prefix", f"{bt}::prefix")}
            if base is not None and self.is_keycls(e.get("t")):
                return {("norm-object", f"{bt}::{e.get('n')}")}
            return {("field", f"{bt}::{e.get('n')}")}
        if k == "DeclRefExpr":
            ref = e.get("ref") or {}
            rid = ref.get("id")
            if ref.get("k") == "BindingDecl":
                return {("stored-key", ref.get("n"))}
            if ref.get("k") == "ParmVarDecl":
                own = self.W.param_owner.get(rid)
                if own is None:
                    return {("raw", f"<callback>:{ref.get('n')}")}
                g, idx = own
                if not g.internal:
                    return {("raw", f"{g.qual}:{ref.get('n')}")}
                if (id(g), idx) in seen:
                    return set()
                seen = seen | {(id(g), idx)}
                out = set()
                sites = self.W.calls.get(id(g), [])
                if not sites:
                    return {("raw", f"{g.qual}:{ref.get('n')} (no call site)")}
                for caller, node, args in sites:
                    if idx >= len(args):
                        out.add(("unknown", f"default argument of {g.qual}"))
                        continue
                    if caller.kind == "method" and caller.cls is self.W.vfs and caller.name in OUT_OF_SCOPE:
                        self.oos.append({"caller": caller.qual, "callee": g.qual, "arg": etext(args[idx]),
                                         "line": node.get("line"), "reason": OUT_OF_SCOPE[caller.name]})
                        continue
                    out |= self.prov(args[idx], caller, seen)
                return out
            if ref.get("k") == "VarDecl":
                if ("var", rid) in seen:
                    return set()
                seen = seen | {("var", rid)}
                out = set()
                found = False
                for x in cxx2.walk(fn.node):
                    if x.get("k") == "VarDecl" and x.get("id") == rid:
                        found = True
                        init = [c for c in cir.kids(x) if c is not None]
                        if init:
                            out |= self.prov(init[-1], fn, seen)
                        else:
                            out.add(("literal", '""'))
                    tgt = rhs = None
                    if x.get("k") == "CXXOperatorCallExpr" and cxx2.op_name(x) in ("=", "+="):
                        a = cxx2.op_args(x)
                        tgt, rhs = a[0], a[1]
                        if cxx2.op_name(x) == "+=":
                            rhs = {"k": "OpaqueAppend", "i": [a[1]]}
                    elif x.get("k") == "BinaryOperator" and x.get("op") == "=":
                        tgt, rhs = cir.kids(x)
                    if tgt is not None:
                        t = cxx2.skip(tgt)
                        if t is not None and t.get("k") == "DeclRefExpr" and (t.get("ref") or {}).get("id") == rid:
                            if rhs.get("k") == "OpaqueAppend":
                                out.add(("unknown", "appended: " + etext(rhs["i"][0])))
                            else:
                                out |= self.prov(rhs, fn, seen)
                if not found:
                    return {("unknown", f"global {ref.get('n')}")}
                return out
        if k in ("CXXConstructExpr", "CXXTemporaryObjectExpr"):
            return {("unknown", etext(e))}
        return {("unknown", etext(e))}

    def through_helper(self, call, seen):
        """Provenance of the result of a call of an internal function of this file: the union over what its return
        statements return (its parameters resolve through every call site, as for any internal function).  Only for
        helpers that cannot edit a string they were given (class-type parameters are const): a function that takes a
        string by value or by non-const reference may transform it in place, which provenance does not see."""
        g = self.W.callee(call)
        if g is None or not g.internal or cir.body(g.node) is None:
            return None
        for p_ in g.params:
            t = p_.get("t") or ""
            if self.is_strlike(t) and not t.startswith("const "):
                return None
        if ("fn", id(g)) in seen:
            return set()
        rets = [e for _, e in returns_of(g.node)]
        if not rets or any(e is None for e in rets):
            return None
        for e in rets:          # nor may it return a string object it could have edited after initialising it
            for y in cxx2.walk(e):
                r = (y.get("ref") or {}) if y.get("k") == "DeclRefExpr" else {}
                t = r.get("t") or ""
                if r.get("k") in ("VarDecl", "ParmVarDecl") and not t.startswith("const ") and self.is_strlike(t):
                    return None
        out = set()
        for e in rets:
            out |= self.prov(e, g, seen | {("fn", id(g))})
        return out

    def keycls_object_prov(self, obj, fn):
        """A path-class object is normalised by the class invariant whatever its origin."""
        return {("norm", self.chain(obj))}


def table_access(W, x):
    """(table field id, op, key expr or None) if x accesses a table of the VFS class."""
    if x.get("k") == "CXXMemberCallExpr":
        mf = cxx2.member_call_on_field(x)
        if mf and mf[0] in W.tables:
            a = cxx2.real_args(x)[1:]
            return mf[0], mf[1], (a[0] if a and mf[1] in KEYED_OPS else None)
    if x.get("k") == "CXXOperatorCallExpr":
        of = cxx2.op_call_on_field(x)
        if of and of[0] in W.tables and of[1] == "[]":
            return of[0], "[]", cxx2.op_args(x)[1]
    return None


def iterator_source(W, fn, arg):
    """If arg is an iterator variable initialised from table.find(k): the find call."""
    a = cxx2.skip(arg)
    if a is None or "iterator" not in (a.get("t") or ""):
        return None
    if a.get("k") == "DeclRefExpr":
        rid = (a.get("ref") or {}).get("id")
        for x in cxx2.walk(fn.node):
            if x.get("k") == "VarDecl" and x.get("id") == rid:
                init = [c for c in cir.kids(x) if c is not None]
                if init:
                    e = cxx2.skip(init[-1])
                    ta = table_access(W, e) if e is not None else None
                    if ta and ta[1] == "find":
                        return e
    return "unknown"


def check_keynorm(res, W, keyinfo):
    P = Prov(W, keyinfo)
    accesses = []
    for fn in W.fns:
        per = {}
        for x in cxx2.walk(fn.node):
            ta = table_access(W, x)
            if ta is None:
                # range-for over the table / passing the table itself
                continue
            fid, op, key = ta
            if op in KEYLESS_OPS:
                continue
            base = f"{fn.qual}:{W.tname(fid)}.{op}"
            per[base] = per.get(base, 0) + 1
            accesses.append([fn, x, fid, op, key, base, per[base]])
    counts = {}
    for a in accesses:
        counts[a[5]] = counts.get(a[5], 0) + 1
    rows = []
    for fn, x, fid, op, key, base, n in accesses:
        construct = base if counts[base] == 1 else f"{base}#{n}"
        if key is None:
            raise AnalysisError(f"{construct}: table operation without a key argument")
        it = iterator_source(W, fn, key)
        if it == "unknown":
            raise AnalysisError(f"{construct}: iterator argument whose origin is not a find() on the table")
        if it is not None:
            rows.append((construct, fn, x, fid, op, None, {("iterator", "from find()")}))
            continue
        kt = cxx2.skip(key)
        atoms = P.prov(key, fn)
        rows.append((construct, fn, x, fid, op, key, atoms))
    ins_kinds = {}
    for construct, fn, x, fid, op, key, atoms in rows:
        if op in INSERT_OPS + OVERWRITE_OPS:
            for a in atoms:
                ins_kinds.setdefault(fid, set()).add(a[0])
    table_rows = []
    for construct, fn, x, fid, op, key, atoms in rows:
        kinds = {a[0] for a in atoms}
        table_rows.append({"construct": construct, "key": etext(key) if key is not None else "<iterator>",
                           "provenance": sorted(f"{a[0]}:{a[1]}" for a in atoms), "line": x.get("line")})
        file = fn.file or TU
        if not atoms:
            if P.oos:
                res.ok("R-KEYNORM", construct, {"note": "reached only from out-of-scope callers"})
                continue
            raise AnalysisError(f"{construct}: no provenance found for key `{etext(key)}`")
        bad = []
        for a in sorted(atoms):
            if a[0] in ("norm", "iterator"):
                continue
            if a[0] == "prefix":
                if "prefix" not in ins_kinds.get(fid, set()):
                    bad.append(f"provider-prefix key but no insertion uses a provider prefix")
                continue
            if a[0] == "literal" and a[1] in ('""',):
                continue
            if a[0] == "raw":
                bad.append(f"raw, un-normalised `{a[1]}`")
            elif a[0] == "field":
                bad.append(f"un-normalised field `{a[1]}`")
            else:
                bad.append(f"unclassified key source `{a[1]}` ({a[0]})")
        if "norm" in kinds and "norm" not in ins_kinds.get(fid, set()) and op not in INSERT_OPS:
            bad.append("normalised key but no insertion uses a normalised key")
        if bad:
            normed = sorted(f"{r[0]}" for r in rows if r[4] in INSERT_OPS and any(a[0] == "norm" for a in r[6]))
            res.bad("R-KEYNORM", construct, file, x.get("line"),
                    f"`{W.tname(fid)}.{op}({etext(key)})` uses a key that did not go through the normalisation used at "
                    f"insertion ({'; '.join(bad)}); insertions normalise: {normed}")
        else:
            res.ok("R-KEYNORM", construct, {"key": etext(key) if key is not None else "<iterator>",
                                            "provenance": sorted(f"{a[0]}:{a[1]}" for a in atoms)})
    # keyless scans that compare keys: both sides must go through the same function
    for fn in W.fns:
        for loop in cxx2.walk(fn.node):
            if loop.get("k") != "CXXForRangeStmt":
                continue
            c = cir.kids(loop)
            rng = [d for pre in c[:-1] if pre and pre.get("k") == "DeclStmt" for d in cir.kids(pre)
                   if d and d.get("isImplicit") and (d.get("n") or "").startswith("__range")]
            if not rng or cxx2.field_of([y for y in cir.kids(rng[0]) if y][-1]) not in W.tables:
                continue
            binds = cxx2.range_vars(loop)
            cmps = []
            for x in cxx2.walk(c[-1]):
                if x.get("k") == "CXXOperatorCallExpr" and cxx2.op_name(x) in ("==", "!="):
                    a, b = cxx2.op_args(x)
                    if cxx2.words(etext(a)) & binds or cxx2.words(etext(b)) & binds:
                        cmps.append((x, a, b))
            construct = f"{fn.qual}:{W.tname(cxx2.field_of([y for y in cir.kids(rng[0]) if y][-1]))} scan"
            if not cmps:
                res.ok("R-KEYNORM", construct, {"note": "iteration without key comparison"})
                continue
            for x, a, b in cmps:
                def fn_of(e, depth=0):
                    e = cxx2.skip(e)
                    if e is not None and e.get("k") == "CallExpr":
                        return cir.callee(e)
                    if e is not None and e.get("k") == "DeclRefExpr" and (e.get("ref") or {}).get("k") == "VarDecl" and depth < 2:
                        for y in cxx2.walk(fn.node):
                            if y.get("k") == "VarDecl" and y.get("id") == e["ref"]["id"]:
                                init = [z for z in cir.kids(y) if z is not None]
                                if init:
                                    return fn_of(init[-1], depth + 1)
                    return None
                fa, fb = fn_of(a), fn_of(b)
                if fa is not None and fa == fb:
                    res.ok("R-KEYNORM", construct, {"both_sides": fa, "line": x.get("line")})
                else:
                    res.bad("R-KEYNORM", construct, fn.file or TU, x.get("line"),
                            f"stored keys are compared with a query normalised differently ({fa} vs {fb})")
    res.extra["table_accesses"] = table_rows
    res.extra["out_of_scope_accesses"] = P.oos
    res.count("table_accesses", len(rows))
    return rows


# ------------------------------------------------------------------------------------- path rules

_ASSIGNED = {}


def assigned_vars(fn_node):
    """ids of variables/parameters that are (re)assigned, incremented or have their address taken in a function."""
    got = _ASSIGNED.get(id(fn_node))
    if got is not None:
        return got
    out = set()
    for x in cxx2.walk(fn_node):
        tgt = None
        if x.get("k") in ("BinaryOperator", "CompoundAssignOperator") and (x.get("op") or "").endswith("=") and \
                x.get("op") not in ("==", "!=", "<=", ">="):
            tgt = cir.kids(x)[0]
        elif x.get("k") == "CXXOperatorCallExpr" and (cxx2.op_name(x) or "").endswith("=") and \
                cxx2.op_name(x) not in ("==", "!=", "<=", ">="):
            tgt = cxx2.op_args(x)[0]
        elif x.get("k") == "UnaryOperator" and x.get("op") in ("++", "--", "&"):
            tgt = cir.kids(x)[0]
        if tgt is not None:
            t = cxx2.skip(tgt)
            if t is not None and t.get("k") == "DeclRefExpr":
                out.add((t.get("ref") or {}).get("id"))
    _ASSIGNED[id(fn_node)] = out
    return out


_ADDR = {}


def address_taken(fn_node):
    """ids of locals whose address is taken or that are bound to a non-const reference (they can change behind the name)."""
    got = _ADDR.get(id(fn_node))
    if got is None:
        got = set()
        for x in cxx2.walk(fn_node):
            if x.get("k") == "UnaryOperator" and x.get("op") == "&":
                t = cxx2.skip(cir.kids(x)[0])
                if t is not None and t.get("k") == "DeclRefExpr":
                    got.add((t.get("ref") or {}).get("id"))
            if x.get("k") == "VarDecl" and "&" in (x.get("t") or "") and not (x.get("t") or "").startswith("const "):
                for y in cxx2.walk(x):
                    if y.get("k") == "DeclRefExpr" and (y.get("ref") or {}).get("k") == "VarDecl":
                        got.add(y["ref"].get("id"))
        _ADDR[id(fn_node)] = got
    return got


def stable_expand(fn_node, e):
    """Replace a never-reassigned local by its initialiser when that initialiser only mentions
    never-reassigned variables (so both denote the same value everywhere in the function)."""
    asg = assigned_vars(fn_node)
    e = cxx2.skip(e)
    for _ in range(4):
        if e is None or e.get("k") != "DeclRefExpr" or (e.get("ref") or {}).get("k") != "VarDecl":
            break
        rid = e["ref"]["id"]
        if rid in asg:
            break
        init = None
        for x in cxx2.walk(fn_node):
            if x.get("k") == "VarDecl" and x.get("id") == rid:
                c = [y for y in cir.kids(x) if y is not None]
                init = c[-1] if c else None
        if init is None:
            break
        free = {(y.get("ref") or {}).get("id") for y in cxx2.walk(init) if y.get("k") == "DeclRefExpr" and
                (y.get("ref") or {}).get("k") in ("VarDecl", "ParmVarDecl")}
        if free & asg:
            break
        e = cxx2.skip(init)
    return e


def keytext(fn_node, e):
    return etext(stable_expand(fn_node, e))


def presence_test(W, s, defs, fn_node=None):
    """(table, key text, True if cond true means present) for contains()/find()!=end()/it!=end()."""
    if s is None:
        return None
    if s.get("k") == "CXXMemberCallExpr":
        ta = table_access(W, s)
        if ta and ta[1] in ("contains", "count"):
            return ta[0], keytext(fn_node, ta[2]), True
        # an internal predicate whose body is `return <presence test on a parameter>;`
        g = W.callee(s)
        if g is not None and g.internal:
            rets = returns_of(g.node)
            if len(rets) == 1 and rets[0][1] is not None:
                core, neg = cxx2.cond_core(rets[0][1])
                inner = presence_test(W, core, {}, g.node)
                if inner is not None:
                    names = [p.get("n") for p in g.params]
                    args = W.call_args(s)
                    if inner[1] in names and names.index(inner[1]) < len(args):
                        return inner[0], keytext(fn_node, args[names.index(inner[1])]), inner[2] != neg
    if s.get("k") == "BinaryOperator" and s.get("op") in ("==", "!=", ">", "<"):
        # `table.count(k) != 0`, `table.count(k) > 0`, `0 == table.count(k)`: the same test as the bare call
        a, b = (cxx2.skip(x) for x in cir.kids(s))
        for x, y, first in ((a, b, True), (b, a, False)):
            if x is not None and x.get("k") == "CXXMemberCallExpr" and cxx2.is_zero_literal(y) and \
                    (s.get("op") in ("==", "!=") or (s.get("op") == ">") == first):
                inner = presence_test(W, x, defs, fn_node)
                if inner is not None:
                    return inner[0], inner[1], inner[2] == (s.get("op") != "==")
    if s.get("k") == "CXXOperatorCallExpr" and cxx2.op_name(s) in ("==", "!="):
        a, b = (cxx2.skip(x) for x in cxx2.op_args(s))
        sides = []
        for y in (a, b):
            ta = table_access(W, y) if y is not None and y.get("k") == "CXXMemberCallExpr" else None
            if ta and ta[1] in ("end", "cend"):
                sides.append(("end", ta[0], None))
                continue
            if ta and ta[1] == "find":
                sides.append(("find", ta[0], keytext(fn_node, ta[2])))
            elif y is not None and y.get("k") == "DeclRefExpr" and (y.get("ref") or {}).get("id") in defs:
                sides.append(("find",) + defs[y["ref"]["id"]])
            else:
                sides.append((None, None, None))
        kinds = {x[0] for x in sides}
        if kinds == {"find", "end"}:
            f = [x for x in sides if x[0] == "find"][0]
            return f[1], f[2], cxx2.op_name(s) == "!="
    return None


class AddRule(paths.Rule):
    """Facts about containment tests; insertion must be dominated by `absent`; the repeated-name return
    by `present` with no mutation in between."""

    def __init__(self, W, fn, repeated_id, status_return):
        self.W, self.fn, self.repeated_id, self.status_return = W, fn, repeated_id, status_return
        self.ins_sites = {}
        self.rep_sites = {}
        self.ins_keys = set()
        for x in cxx2.walk(fn.node):
            ta = table_access(W, x)
            if ta and ta[1] in INSERT_OPS + OVERWRITE_OPS and ta[2] is not None:
                self.ins_keys.add((ta[0], keytext(fn.node, ta[2])))

    def initial(self, fn):
        # (facts {(table, key, present?)}, iterator defs {(var id, table, key)}, mutated?)
        return (frozenset(), frozenset(), False)

    def assign(self, st, node, ctx):
        facts, defs, mut = st
        if node.get("k") == "VarDecl":
            init = [c for c in cir.kids(node) if c is not None]
            e = cxx2.skip(init[-1]) if init else None
            ta = table_access(self.W, e) if e is not None and e.get("k") == "CXXMemberCallExpr" else None
            defs = frozenset(d for d in defs if d[0] != node.get("id"))
            if ta and ta[1] == "find":
                defs = defs | {(node.get("id"), ta[0], keytext(self.fn.node, ta[2]))}
            elif e is not None and node.get("id") not in address_taken(self.fn.node):
                # `const bool known = table.contains(k);` -- the local stands for the test until the table changes or the
                # local is given another value (see the assignment case below)
                core, neg = cxx2.cond_core(e)
                pt = presence_test(self.W, core, {d[0]: (d[1], d[2]) for d in defs if len(d) == 3}, self.fn.node)
                if pt is not None:
                    defs = defs | {(node.get("id"), pt[0], pt[1], pt[2] != neg)}
            nm = node.get("n")
            facts = frozenset(f for f in facts if nm not in cxx2.words(f[1]))
            defs = frozenset(d for d in defs if len(d) == 3 or d[0] == node.get("id") or nm not in cxx2.words(d[2]))
            return (facts, defs, mut)
        c = cir.kids(node)
        tgt = cir.strip(c[0]) if c else None
        if tgt is not None and tgt.get("k") == "DeclRefExpr":
            nm = (tgt.get("ref") or {}).get("n")
            vid = (tgt.get("ref") or {}).get("id")
            facts = frozenset(f for f in facts if nm not in cxx2.words(f[1]))
            # the local gets a new value: what it stood for is gone; `known = table.find(k) != table.end();` (declared
            # earlier, assigned inside a lock scope, tested after it) makes it stand for that test from here on
            defs = frozenset(d for d in defs if d[0] != vid and (len(d) == 3 or nm not in cxx2.words(d[2])))
            if node.get("k") == "BinaryOperator" and node.get("op") == "=" and (tgt.get("ref") or {}).get("k") == "VarDecl" \
                    and vid not in address_taken(self.fn.node):
                core, neg = cxx2.cond_core(c[1])
                pt = presence_test(self.W, core, {d[0]: (d[1], d[2]) for d in defs if len(d) == 3}, self.fn.node) \
                    if core is not None else None
                if pt is not None:
                    defs = defs | {(vid, pt[0], pt[1], pt[2] != neg)}
        return (facts, defs, mut)

    def branch(self, st, cond, taken, ctx):
        facts, defs, mut = st
        s, neg = cxx2.cond_core(cond)
        if neg:
            taken = not taken
        pt = presence_test(self.W, s, {d[0]: (d[1], d[2]) for d in defs if len(d) == 3}, self.fn.node)
        if pt is None and s is not None and s.get("k") == "DeclRefExpr":
            for d in defs:
                if len(d) == 4 and d[0] == (s.get("ref") or {}).get("id"):
                    pt = d[1:]
        if pt is None:
            return st
        t, key, pos = pt
        present = (pos == taken)
        facts = frozenset(f for f in facts if not (f[0] == t and f[1] == key)) | {(t, key, present)}
        return (facts, defs, mut)

    def call(self, st, node, name, ctx):
        facts, defs, mut = st
        W = self.W
        ta = table_access(W, node)
        if ta is not None:
            t, op, key = ta
            if op in INSERT_OPS + OVERWRITE_OPS and key is not None and op != "at":
                kt = keytext(self.fn.node, key)
                construct = f"{self.fn.qual}:{W.tname(t)}.{op}"
                self.ins_sites.setdefault(construct, node)
                if (t, kt, False) not in facts:
                    what = "can overwrite an existing entry and " if op in OVERWRITE_OPS else ""
                    ctx.report(node, f"`{W.tname(t)}.{op}({kt}, ...)` {what}is not dominated by a containment test of "
                                     f"`{kt}` with negative outcome on this path", key=construct)
                elif mut == "since-test":
                    ctx.report(node, f"`{W.tname(t)}` is modified between the containment test and the insertion of "
                                     f"`{kt}`", key=construct)
                facts = frozenset(f for f in facts if f[0] != t)
                return (facts, self._stale(defs, t), True)
            if op in MUTATING_OPS:
                facts = frozenset(f for f in facts if f[0] != t)
                return (facts, self._stale(defs, t), True)
            return st
        # writes through the found entry: it->second.reset(...), it->second = ..., swap
        r = cxx2.receiver(node) if node.get("k") == "CXXMemberCallExpr" else None
        if r and r[0] is not None and r[2] in ("reset", "swap", "release") and self._entry_expr(r[0], defs):
            return (facts, defs, True)
        if node.get("k") == "CXXOperatorCallExpr" and cxx2.op_name(node) == "=" and \
                self._entry_expr(cxx2.op_args(node)[0], defs):
            return (facts, defs, True)
        return st

    @staticmethod
    def _stale(defs, t):
        """a change of table t ends the validity of bool locals that hold a containment test of it"""
        return frozenset(d for d in defs if not (len(d) == 4 and d[1] == t))

    def _entry_expr(self, e, defs):
        ids = {d[0] for d in defs if len(d) == 3}
        for x in cxx2.walk(e):
            if x.get("k") == "DeclRefExpr" and (x.get("ref") or {}).get("id") in ids:
                return True
            if table_access(self.W, x):
                return True
        return False

    def ret(self, st, node, ctx):
        facts, defs, mut = st
        if not self.status_return:
            return
        c = [x for x in cir.kids(node) if x is not None]
        e = cxx2.skip(c[0]) if c else None
        is_rep = e is not None and e.get("k") == "DeclRefExpr" and (e.get("ref") or {}).get("id") == self.repeated_id
        present = [(t, k) for t, k, p in facts if p and (t, k) in self.ins_keys]
        construct = f"{self.fn.qual}:return-repeated-name"
        if is_rep:
            self.rep_sites.setdefault(construct, node)
            if not present:
                ctx.report(node, "the repeated-name code is returned on a path without a positive containment test of the "
                                 "key that the method inserts", key=construct)
            elif mut:
                ctx.report(node, "the table or the existing entry is modified before the repeated-name code is returned "
                                 "(adding an existing name must not change its contents)", key=construct)
        elif present:
            self.rep_sites.setdefault(construct, node)
            ctx.report(node, f"a path on which `{present[0][1]}` is already in `{self.W.tname(present[0][0])}` returns "
                             f"`{etext(e)}` instead of the repeated-name code", key=construct)


def enum_consts(W):
    out = {}
    for c in cir.kids(W.vfs.node):
        if c and c.get("k") == "EnumDecl":
            for e in cir.kids(c):
                if e and e.get("k") == "EnumConstantDecl":
                    v = None
                    for x in cxx2.walk(e):
                        if x.get("k") == "ConstantExpr" and x.get("v") is not None:
                            v = int(x["v"])
                            break
                    out[e.get("n")] = (e.get("id"), v)
    return out


def api_doc(repo):
    """{function: {code: meaning}} from the documentation comments of the public header."""
    try:
        text = open(os.path.join(repo, API_HEADER)).read()
    except OSError:
        raise AnalysisError(f"{API_HEADER} not readable")
    out = {}
    for m in re.finditer(r"((?:^//[^\n]*\n)+)MJAPI\s+\w[\w\s\*]*?\b(mj_\w+VFS)\s*\(", text, re.M):
        doc = " ".join(l.lstrip("/ ").strip() for l in m.group(1).splitlines())
        out[m.group(2)] = {int(a): b.strip() for a, b in re.findall(r"(-?\d+):\s*([A-Za-z ]+?)(?=[,.;]|$)", doc)}
    return out


def returns_of(fn_node):
    out = []
    for x in cxx2.walk(fn_node, lambdas=False):
        if x.get("k") == "ReturnStmt":
            c = [y for y in cir.kids(x) if y is not None]
            out.append((x, cxx2.skip(c[0]) if c else None))
    return out


def passthrough_var(fn_node, e):
    """If e is a local initialised once (never reassigned): its initialiser, else e."""
    e = cxx2.skip(e)
    hops = 0
    while e is not None and e.get("k") == "DeclRefExpr" and (e.get("ref") or {}).get("k") == "VarDecl" and hops < 4:
        rid = e["ref"]["id"]
        init = None
        for x in cxx2.walk(fn_node):
            if x.get("k") == "VarDecl" and x.get("id") == rid:
                c = [y for y in cir.kids(x) if y is not None]
                init = c[-1] if c else None
            tgt = None
            if x.get("k") == "BinaryOperator" and x.get("op") == "=":
                tgt = cir.kids(x)[0]
            elif x.get("k") == "CXXOperatorCallExpr" and cxx2.op_name(x) == "=":
                tgt = cxx2.op_args(x)[0]
            elif x.get("k") == "UnaryOperator" and x.get("op") == "&":
                tgt = cir.kids(x)[0]
            if tgt is not None:
                t = cxx2.skip(tgt)
                if t is not None and t.get("k") == "DeclRefExpr" and (t.get("ref") or {}).get("id") == rid:
                    return e
        if init is None:
            return e
        e = cxx2.skip(init)
        hops += 1
    return e


def returns_not_from(W, fn, site_nodes):
    """Return statements reachable after one of `site_nodes` (calls) that do not return that call's value."""
    class After(paths.Rule):
        def initial(self, f):
            return -1          # (None would end the path in the engine)

        def call(self, st, node, name, ctx):
            for i, sn in enumerate(site_nodes):
                if node is sn:
                    return i
            return st

        def ret(self, st, node, ctx):
            c = [y for y in cir.kids(node) if y is not None]
            e = cxx2.skip(c[0]) if c else None
            src = stable_expand(fn.node, e) if e is not None else None
            if src is not None and any(src is sn for sn in site_nodes):
                return
            if st >= 0:
                ctx.report(node, f"`return {etext(e)}` after the call of {etext(cir.kids(site_nodes[st])[0])}() does not "
                                 f"return that call's status", key="after")
    ctx = cxx2.explore(After(), TU, fn.node)
    return ctx.reports


def check_add(res, W, rows):
    res.rule("R-ADDFIRST", "insertions are non-overwriting and dominated by a negative containment test of the same key; "
             "the positive outcome returns the repeated-name code (2) before any mutation; wrappers pass the status on",
             floor=8)
    consts = enum_consts(W)
    doc = api_doc(cfront.REPO)
    for nm in ("kRepeatedName", "kSuccess"):
        if nm not in consts:
            raise AnalysisError(f"anchor enumerator {VFSCLS}::{nm} not found")
    rep_id, rep_v = consts["kRepeatedName"]
    succ_id, succ_v = consts["kSuccess"]
    for api in ("mj_addBufferVFS", "mj_addFileVFS", "mj_mountVFS"):
        d = doc.get(api) or {}
        want = [c for c, t in d.items() if "repeated" in t]
        ok0 = [c for c, t in d.items() if "success" in t]
        if not want or not ok0:
            raise AnalysisError(f"{API_HEADER}: documented return codes of {api} not found")
        if want[0] == rep_v and ok0[0] == succ_v:
            res.ok("R-ADDFIRST", f"{api}:documented-codes", {"repeated": rep_v, "success": succ_v})
        else:
            res.bad("R-ADDFIRST", f"{api}:documented-codes", TU, W.free[api].node.get("line"),
                    f"{VFSCLS}::kRepeatedName == {rep_v}, kSuccess == {succ_v} but {API_HEADER} documents repeated name "
                    f"as {want[0]} and success as {ok0[0]}")
    # path rule on every VFS method that inserts into a table
    inserting = []
    for fn in W.fns:
        if any((ta := table_access(W, x)) and ta[1] in INSERT_OPS + OVERWRITE_OPS and ta[1] != "at"
               for x in cxx2.walk(fn.node)):
            inserting.append(fn)
    if not inserting:
        raise AnalysisError("no insertion into the VFS table found")
    add_methods = []
    for fn in inserting:
        status_return = "Status" in (fn.node.get("t") or "").split("(")[0]
        rule = AddRule(W, fn, rep_id, status_return)
        ctx = cxx2.explore(rule, TU, fn.node)
        by = {}
        for rp in ctx.reports:
            by.setdefault(rp["key"], rp)
        for construct, node in rule.ins_sites.items():
            if construct in by:
                rp = by.pop(construct)
                res.bad("R-ADDFIRST", construct, rp["file"], rp["line"], rp["msg"])
            else:
                res.ok("R-ADDFIRST", construct, {"file": fn.file, "line": node.get("line")})
        if status_return:
            add_methods.append(fn)
            construct = f"{fn.qual}:return-repeated-name"
            if construct in by:
                rp = by.pop(construct)
                res.bad("R-ADDFIRST", construct, rp["file"], rp["line"], rp["msg"])
            elif construct in rule.rep_sites:
                res.ok("R-ADDFIRST", construct, {"file": fn.file, "line": rule.rep_sites[construct].get("line")})
            else:
                res.bad("R-ADDFIRST", construct, fn.file, fn.node.get("line"),
                        f"{fn.qual} inserts into the table but never returns the repeated-name code")
        for k, rp in by.items():
            res.bad("R-ADDFIRST", k, rp["file"], rp["line"], rp["msg"])
    if not add_methods:
        raise AnalysisError("no status-returning add method found")
    # wrappers: BufferProvider::Mount<...> instantiations and the C functions return the status unchanged
    add_ids = {id(f) for f in add_methods}
    wrappers = []
    for fn in W.fns:
        if id(fn) in add_ids:
            continue
        for x in cxx2.walk(fn.node, lambdas=False):
            g = W.callee(x)
            if g is not None and id(g) in add_ids:
                wrappers.append((fn, x, g))
    level = {id(f): 0 for f in add_methods}
    todo = list(wrappers)
    checked = set()
    frontier = {id(f) for f in add_methods}
    all_wrappers = []
    for depth in range(4):
        nxt = set()
        for fn in W.fns:
            if id(fn) in level:
                continue
            sites = [(x, W.callee(x)) for x in cxx2.walk(fn.node, lambdas=False)
                     if W.callee(x) is not None and id(W.callee(x)) in frontier]
            if sites:
                all_wrappers.append((fn, sites))
                nxt.add(id(fn))
        for i in nxt:
            level[i] = depth + 1
        frontier = nxt
        if not nxt:
            break
    for fn, sites in all_wrappers:
        if fn.kind == "function" and fn.name not in ("mj_addBufferVFS", "mj_addFileVFS", "mj_mountVFS") and \
                not fn.internal:
            continue
        construct = f"{fn.qual}:returns-status-unchanged"
        site_nodes = [sn for sn, _ in sites]
        bad = returns_not_from(W, fn, site_nodes)
        direct = any(stable_expand(fn.node, e) is sn for _, e in returns_of(fn.node) if e is not None for sn in site_nodes)
        if direct and not bad:
            res.ok("R-ADDFIRST", construct, {"file": fn.file, "line": fn.node.get("line")})
        elif bad:
            res.bad("R-ADDFIRST", construct, fn.file, bad[0]["line"], bad[0]["msg"])
        else:
            res.bad("R-ADDFIRST", construct, fn.file, fn.node.get("line"),
                    f"{fn.qual} does not return the status of {sites[0][1].qual} unchanged")
    return consts, doc


class DelRule(paths.Rule):
    """Unmount: success only after erasing the found entry; not-found paths return a failure code."""

    def __init__(self, W, fn, consts):
        self.W, self.fn, self.consts = W, fn, consts
        self.byid = {v[0]: (k, v[1]) for k, v in consts.items()}
        self.rets = {}

    def initial(self, fn):
        # (facts, defs, erased?)
        return (frozenset(), frozenset(), False)

    assign = AddRule.assign
    branch = AddRule.branch

    def call(self, st, node, name, ctx):
        facts, defs, er = st
        ta = table_access(self.W, node)
        if ta and ta[1] == "erase":
            key = ta[2]
            src = iterator_source(self.W, self.fn, key) if key is not None else None
            found = False
            if src not in (None, "unknown"):
                k2 = keytext(self.fn.node, table_access(self.W, src)[2])
                found = (ta[0], k2, True) in facts
            elif key is not None and (ta[0], keytext(self.fn.node, key), True) in facts:
                found = True
            return (facts, AddRule._stale(defs, ta[0]), "found" if found else "blind")
        return st

    def ret(self, st, node, ctx):
        facts, defs, er = st
        c = [x for x in cir.kids(node) if x is not None]
        e = cxx2.skip(c[0]) if c else None
        rid = (e.get("ref") or {}).get("id") if e is not None and e.get("k") == "DeclRefExpr" else None
        name, val = self.byid.get(rid, (etext(e), None))
        absent = any(not p for _, _, p in facts)
        present = any(p for _, _, p in facts)
        construct = f"{self.fn.qual}:return {name}"
        self.rets.setdefault(construct, node)
        if val == 0:
            if er != "found":
                ctx.report(node, "success is returned on a path that did not erase an entry it had found "
                                 f"({'nothing erased' if not er else 'erase not preceded by a successful lookup'})",
                           key=construct)
        elif val is not None:
            if er:
                ctx.report(node, f"failure code {name} is returned after the entry was erased", key=construct)
            elif present and not absent:
                # provider-null style early failures happen before any lookup; after a successful lookup a failure
                # must not be reported
                ctx.report(node, f"failure code {name} is returned on a path where the lookup found the entry",
                           key=construct)
        else:
            ctx.report(node, f"return value `{etext(e)}` is not a status constant", key=construct)

    def fallthrough(self, st, ctx):
        ctx.report(ctx.fn, "control can reach the end of the method without a status", key=f"{self.fn.qual}:no-return")


def check_delete(res, W, consts, doc):
    res.rule("R-DELRESULT", "unmount returns success only after erasing the entry it found and a failure code when the "
             "lookup found nothing; C wrappers derive their result from it only", floor=5)
    um = [f for f in W.fns if f.kind == "method" and f.cls is W.vfs and f.name == "Unmount"]
    fn = um[0]
    rule = DelRule(W, fn, consts)
    ctx = cxx2.explore(rule, TU, fn.node)
    by = {}
    for rp in ctx.reports:
        by.setdefault(rp["key"], rp)
    vals = set()
    for construct, node in rule.rets.items():
        if construct in by:
            rp = by.pop(construct)
            res.bad("R-DELRESULT", construct, rp["file"], rp["line"], rp["msg"])
        else:
            res.ok("R-DELRESULT", construct, {"file": fn.file, "line": node.get("line")})
    for k, rp in by.items():
        res.bad("R-DELRESULT", k, rp["file"], rp["line"], rp["msg"])
    # documented codes
    for api in ("mj_unmountVFS", "mj_deleteFileVFS"):
        d = doc.get(api) or {}
        nf = [c for c, t in d.items() if "not found" in t]
        ok0 = [c for c, t in d.items() if "success" in t]
        if not nf or not ok0:
            raise AnalysisError(f"{API_HEADER}: documented return codes of {api} not found")
        fail_vals = {v for n, (i, v) in consts.items() if n != "kSuccess" and n != "kRepeatedName"}
        rets = {consts[n][1] for construct in rule.rets for n in consts if construct.endswith(f"return {n}")}
        if rets <= {ok0[0], nf[0]} and ok0[0] in rets and nf[0] in rets:
            res.ok("R-DELRESULT", f"{api}:documented-codes", {"success": ok0[0], "not_found": nf[0]})
        else:
            res.bad("R-DELRESULT", f"{api}:documented-codes", TU, W.free[api].node.get("line"),
                    f"Unmount returns {sorted(rets)} but {API_HEADER} documents {ok0[0]} (success) / {nf[0]} (not found)")
    # mj_unmountVFS: returns cast of Unmount's status (other returns are argument checks before the call)
    w = W.free["mj_unmountVFS"]
    calls = [x for x in cxx2.walk(w.node) if W.callee(x) is fn]
    construct = "mj_unmountVFS:returns-status-unchanged"
    if len(calls) != 1:
        res.bad("R-DELRESULT", construct, TU, w.node.get("line"), "mj_unmountVFS does not call VFS::Unmount exactly once")
    else:
        bad = returns_not_from(W, w, calls)
        direct = any(stable_expand(w.node, e) is calls[0] for _, e in returns_of(w.node) if e is not None)
        if bad or not direct:
            if bad:
                res.bad("R-DELRESULT", construct, bad[0]["file"], bad[0]["line"], bad[0]["msg"])
            else:
                res.bad("R-DELRESULT", construct, TU, w.node.get("line"), "the status of VFS::Unmount is never returned")
        else:
            res.ok("R-DELRESULT", construct, {"line": calls[0].get("line")})
    # mj_deleteFileVFS:result-derived-from-unmount is decided by check_delete_exact (same abstract interpretation)


# ------------------------------------------------------------------------------------- read path

def provider_of(e, res_id):
    """e is (a cast of) `<resource parameter>->provider`."""
    e = cxx2.skip(e)
    if e is None or e.get("k") != "MemberExpr" or e.get("n") != "provider":
        return False
    b = cxx2.skip(cir.kids(e)[0]) if cir.kids(e) else None
    return b is not None and b.get("k") == "DeclRefExpr" and (b.get("ref") or {}).get("id") == res_id


def callback_of(W, fn_node, e, hops=0):
    """The function a callback expression denotes: (parameters, body, node for the report line), "null" for a null
    pointer, None when it cannot be told.  A lambda and a named function with the same body are the same callback."""
    e = cxx2.skip(e)
    while e is not None and e.get("k") == "UnaryOperator" and e.get("op") in ("&", "+", "*"):
        e = cxx2.skip(cir.kids(e)[0])           # &Fn, +[]{..}, *Fn all decay to the function
    if e is None:
        return None
    if e.get("k") in ("CXXNullPtrLiteralExpr", "GNUNullExpr") or cxx2.is_zero_literal(e):
        return "null"
    if e.get("k") == "CXXMemberCallExpr" and (cir.callee(e) or "").startswith("operator ") and not cxx2.real_args(e)[1:]:
        r = cxx2.receiver(e)                    # closure-to-function-pointer conversion: <lambda>.operator int (*)(..)()
        e = cxx2.skip(r[0]) if r and r[0] is not None else None
        if e is None:
            return None
    lam = e if e.get("k") == "LambdaExpr" else None
    if lam is not None:
        b = cxx2.lambda_body(lam)
        return (cxx2.lambda_params(lam), b, lam) if b is not None else None
    if e.get("k") == "DeclRefExpr":
        r = e.get("ref") or {}
        if r.get("k") in ("FunctionDecl", "CXXMethodDecl"):
            g = W.by_decl.get(r.get("id"))
            if g is None and r.get("k") == "FunctionDecl":
                g = W.free.get(r.get("n"))
            if g is not None and cir.body(g.node) is not None:
                return (g.params, cir.body(g.node), g.node)
            return None
        if r.get("k") == "VarDecl" and hops < 4:
            vl = cxx2.value_locals(fn_node).get(r.get("id"))
            if vl is not None:
                return callback_of(W, fn_node, vl[1], hops + 1)
    return None


def member_through_deref(o, fields):
    """The MemberExpr of a data member (one of `fields`) that the object expression o designates: the member itself, or
    what it points to through one dereference (`*m`, `m->`, `m.get()`, built-in or overloaded) -- a byte container held
    by value, by raw pointer or by a smart pointer is read the same way."""
    o = cxx2.skip(o)
    steps = 0
    while o is not None and steps < 3:
        k = o.get("k")
        if k == "MemberExpr" and o.get("mid") in fields and o.get("t") != "<bound member function type>":
            return o
        steps += 1
        if k == "CXXOperatorCallExpr" and cxx2.op_name(o) in ("->", "*") and len(cxx2.op_args(o)) == 1:
            o = cxx2.skip(cxx2.op_args(o)[0])
        elif k == "UnaryOperator" and o.get("op") == "*":
            o = cxx2.skip(cir.kids(o)[0])
        elif k == "CXXMemberCallExpr" and (cxx2.receiver(o) or (None, None, None))[2] == "get" and not cxx2.real_args(o)[1:]:
            o = cxx2.skip(cxx2.receiver(o)[0])
        else:
            return None
    return None


def is_handle_type(t, dt=None):
    """the type refers to an object instead of containing it (raw / smart pointer, iterator, view)"""
    sp = dt or t or ""
    return "_ptr<" in sp or cxx2.carries_alias(t, dt)


def static_storage_vars(W):
    """{VarDecl id: name} of the mutable objects with static storage duration visible in the TU file: namespace-scope
    variables, static data members and function-local statics (constants excluded)."""
    out = {}

    def take(v):
        t = (v.get("t") or "").strip()
        if not t.startswith("const ") and not v.get("constexpr") and "mutex" not in t:
            out[v.get("id")] = v.get("n")
    for d, ns in cxx2.all_decls(W.ir["decls"]):
        if d.get("k") == "VarDecl" and (d.get("file") == TU or d.get("nfile") == TU):
            take(d)
        if d.get("k") == "CXXRecordDecl" and d.get("file") == TU:
            for c in cir.kids(d):
                if c and c.get("k") == "VarDecl" and c.get("storageClass") == "static":
                    take(c)
    for f in W.fns:
        for x in cxx2.walk(f.node):
            if x.get("k") == "VarDecl" and x.get("storageClass") == "static":
                take(x)
    return out


def member_stores(BP, m, fid):
    """[(node, [stored expressions])] for the places of constructor / method m that give the member itself a value
    (`member = e`, `member.reset(e)`), and [(node, method)] for calls that build the held container in place."""
    whole, inplace = [], []
    for x in cxx2.walk(m.node):
        ap = cxx2.assignment_parts(x)
        if ap is not None and ap[2] == "=":
            t = cxx2.skip(ap[0])
            if t is not None and t.get("k") == "MemberExpr" and t.get("mid") == fid:
                whole.append((x, [ap[1]]))
            continue
        if x.get("k") == "CXXMemberCallExpr":
            r = cxx2.receiver(x)
            if not r or r[0] is None:
                continue
            t = cxx2.skip(r[0])
            direct = t is not None and t.get("k") == "MemberExpr" and t.get("mid") == fid
            if direct and r[2] in ("reset", "swap") and cxx2.real_args(x)[1:] and is_handle_type(t.get("t"), t.get("dt")):
                whole.append((x, cxx2.real_args(x)[1:]))
            elif member_through_deref(r[0], {fid}) is not None and r[2] in (
                    "push_back", "emplace_back", "assign", "insert", "append", "resize", "reserve"):
                inplace.append((x, r[2]))
    return whole, inplace


def copies_n_bytes(BP, m, fid):
    """The constructor copies exactly the bytes [src, src + n) of its buffer argument into what the member holds: a loop
    counting i from 0 to n that appends src[i], or an iterator-range construction / assign / insert over (src, src + n) --
    on the member itself (directly or through one dereference), or on a local / temporary that is then stored into it
    (possibly wrapped: std::move, make_unique / make_shared, an argument of a function whose result is stored)."""
    ps = m.params()
    src = {p.get("id") for p in ps if re.search(r"const void \*", p.get("t") or "")}
    cnt = {p.get("id") for p in ps if re.search(r"size_t|int|long", p.get("t") or "") and "*" not in (p.get("t") or "")}
    whole, _ = member_stores(BP, m, fid)
    stored = [v for _, vs in whole for v in vs]

    def is_src(e):
        b = passthrough_var(m.node, e)
        return b is not None and b.get("k") == "DeclRefExpr" and (b.get("ref") or {}).get("id") in src

    def is_cnt(e):
        b = passthrough_var(m.node, e)
        return b is not None and b.get("k") == "DeclRefExpr" and (b.get("ref") or {}).get("id") in cnt

    def is_end(e):
        e = cxx2.skip(e)
        if e is None or e.get("k") != "BinaryOperator" or e.get("op") != "+":
            return False
        a, b = cir.kids(e)
        return (is_src(a) and is_cnt(b)) or (is_cnt(a) and is_src(b))

    def reaches_member(target):
        """target: ("member",) | ("local", var id) | ("node", expression node)"""
        if target[0] == "member":
            return True
        for v in stored:
            for y in cxx2.walk(v):
                if target[0] == "node" and y is target[1]:
                    return True
                if target[0] == "local" and y.get("k") == "DeclRefExpr" and (y.get("ref") or {}).get("id") == target[1]:
                    return True
        return False

    def target_of(obj):
        if member_through_deref(obj, {fid}) is not None:
            return ("member",)
        o = cxx2.skip(obj)
        if o is not None and o.get("k") == "DeclRefExpr" and (o.get("ref") or {}).get("k") == "VarDecl" and \
                not is_handle_type(o.get("t"), o.get("dt")):
            return ("local", o["ref"].get("id"))
        return None
    detail = "no loop appending the source bytes and no range copy of [src, src + n) found"
    # range forms
    for x in cxx2.walk(m.node):
        k = x.get("k")
        args, target = None, None
        if k in ("CXXConstructExpr", "CXXTemporaryObjectExpr"):
            args, target = cxx2.real_args(x), ("node", x)
        elif k == "CallExpr" and cir.callee(x) in ("make_unique", "make_shared"):
            args, target = cxx2.real_args(x)[1:], ("node", x)
        elif k == "CXXMemberCallExpr":
            r = cxx2.receiver(x)
            if r and r[2] in ("assign", "insert", "append") and r[0] is not None:
                args, target = cxx2.real_args(x)[1:], target_of(r[0])
        if not args or target is None:
            continue
        pair = any(is_src(a) and is_end(b) for a, b in zip(args, args[1:]))
        if not pair:
            continue
        if target[0] == "node":       # `T local(src, src + n);` / `T local = T(src, src + n);`: the local is the target
            for d in cxx2.walk(m.node):
                if d.get("k") == "VarDecl" and any(y is x for c in cir.kids(d) if c is not None for y in cxx2.walk(c)) and \
                        not is_handle_type(d.get("t"), d.get("dt")):
                    if reaches_member(("local", d.get("id"))):
                        return True, "range copy into a local that is stored into the member"
        if reaches_member(target):
            return True, "range copy of [src, src + n)"
        detail = "a range copy of [src, src + n) is made but its result is not what the member is given"
    # loop form
    for lp in cxx2.walk(m.node):
        if lp.get("k") not in ("ForStmt", "WhileStmt"):
            continue
        pushes_any = [x for x in cxx2.walk(lp) if x.get("k") == "CXXMemberCallExpr" and
                      (cxx2.receiver(x) or (None, None, None))[2] == "push_back" and
                      target_of(cxx2.receiver(x)[0]) is not None]
        # `for (i = 0; i < n; i++) S` and `i = 0; while (i < n) { S; i++; }` are the same counted loop
        L = cxx2.index_loop(m.node, lp)
        if L is None:
            if any(target_of(cxx2.receiver(x)[0]) == ("member",) for x in pushes_any):
                raise AnalysisError(f"{m.qual}: the loop at line {lp.get('line')} appends to `{BP.fname(fid)}` but is "
                                    f"not of a form read as a loop counting an index up by one")
            continue
        i_id = L["var"]
        starts0 = cxx2.is_zero_literal(L["start"])
        bound_ok = is_cnt(L["bound"])
        body = {"k": "CompoundStmt", "i": L["body"]}
        pushes = [x for x in cxx2.walk(body) if any(x is y for y in pushes_any)]
        if len(pushes) != 1:
            continue
        target = target_of(cxx2.receiver(pushes[0])[0])
        a = cxx2.skip(cxx2.real_args(pushes[0])[1])
        elem_ok = a is not None and a.get("k") == "ArraySubscriptExpr" and \
            (cxx2.skip(cir.kids(a)[1]).get("ref") or {}).get("id") == i_id
        base_ok = elem_ok and is_src(cir.kids(a)[0])
        other = [x for x in cxx2.walk(body) if x.get("k") == "CXXMemberCallExpr" and x is not pushes[0] and
                 (cxx2.receiver(x) or (None,))[0] is not None and target_of(cxx2.receiver(x)[0]) == target]
        if starts0 and bound_ok and base_ok and not other:
            if reaches_member(target):
                return True, "loop appending src[i] for i in [0, n)"
            detail = "the loop copies the source bytes into a local that is not what the member is given"
        else:
            detail = (f"loop does not append src[i] for i in [0, n): start0={starts0} bound={bound_ok} element={base_ok}")
    return False, detail


def check_private_copy(res, W, BP, fid):
    """The bytes a provider hands out are its own copy of what the add call was given: in every constructor the member the
    read callback reads from is given a value that is built there (a container filled / constructed in place, the by-value
    result of a reading function, a fresh owner from make_unique / make_shared / new, a local object) -- never one that
    derives from storage with static duration (a pool shared between providers, whatever its key: with a digest as key,
    which bytes a name returns depends on hash collisions and on what other providers hold)."""
    construct = f"{BP.name}:contents-private-copy"
    statics = static_storage_vars(W)
    flow = cxx2.MemberFlow(W.fns, set(), W.callee, seed_vars=set(statics))
    fname = BP.fname(fid)
    fd = BP.fields[fid]
    handle = is_handle_type(fd.get("t"), fd.get("dt"))

    def shared_via(e, f):
        """names of the functions / static objects through which e derives from static storage"""
        out = []
        for x in cxx2.walk(e):
            if x.get("k") == "DeclRefExpr" and (x.get("ref") or {}).get("id") in statics:
                out.append(f"static `{statics[x['ref']['id']]}`")
            if x.get("k") in ("CallExpr", "CXXMemberCallExpr"):
                g = W.callee(x)
                if g is not None and flow.ret.get(id(g)):
                    names = sorted({statics[y["ref"]["id"]] for y in cxx2.walk(g.node) if y.get("k") == "DeclRefExpr" and
                                    (y.get("ref") or {}).get("id") in statics})
                    gq = f"{g.cls.name}::{g.name}" if getattr(g, "cls", None) is not None else g.name
                    out.append(f"{gq}()" + (f", which returns what it finds in / keeps in static `{', '.join(names)}`"
                                               if names else ", whose result derives from static storage"))
        return out or ["static storage"]

    def fresh(e, f, depth=0):
        """True: e is an object / owner built here; None: cannot tell"""
        e = cxx2.skip(e)
        if e is None or depth > 6:
            return None
        k = e.get("k")
        if k == "CXXNewExpr":
            return True
        if k in ("CXXConstructExpr", "CXXTemporaryObjectExpr", "InitListExpr"):
            if is_handle_type(e.get("t"), e.get("dt")):
                a = cxx2.real_args(e)
                return fresh(a[0], f, depth + 1) if len(a) == 1 else (True if not a else None)
            return True
        if k == "DeclRefExpr":
            r = e.get("ref") or {}
            if r.get("k") == "VarDecl" and r.get("id") not in statics:
                if not is_handle_type(e.get("t"), e.get("dt")):
                    return True
                vl = cxx2.value_locals(f.node).get(r.get("id"))
                return fresh(vl[1], f, depth + 1) if vl is not None else None
            return None
        if k in ("CallExpr", "CXXMemberCallExpr"):
            nm = cir.callee(e)
            if nm in ("move", "forward") and cxx2.real_args(e)[1:]:
                return fresh(cxx2.real_args(e)[1], f, depth + 1)
            if nm in ("make_unique", "make_shared"):
                return True
            g = W.callee(e)
            if g is not None and cir.body(g.node) is not None:
                rets = [r for _, r in returns_of(g.node)]
                if rets and all(r is not None and fresh(r, g, depth + 1) for r in rets):
                    return True
                return None
            if not is_handle_type(e.get("t"), e.get("dt")) and "&" not in (e.get("t") or ""):
                return True            # a by-value result that contains its bytes is a separate object
        return None
    ctors = [m for m in BP.methods.values() if m.kind == "CXXConstructorDecl" and m.node is not None and not m.implicit
             and not m.defaulted and not m.deleted and m.params() and
             not any(BP.name in (p.get("t") or "") for p in m.params())]
    if not ctors:
        raise AnalysisError(f"{BP.name}: no constructor with a body found")
    bad, undecided, oks = [], [], []
    for m in ctors:
        f = W.by_decl.get(m.id)
        if f is None:
            raise AnalysisError(f"{m.qual}: constructor not among the analysed functions")
        whole, inplace = member_stores(BP, m, fid)
        inits = [c for c in cir.kids(m.node) if c is not None and c.get("k") == "CXXCtorInitializer"]
        for c in inits:
            if flow.mentions(c, f):
                bad.append((m, c, shared_via(c, f)))
        if not whole and not (inplace and not handle):
            undecided.append((m, f"no statement of the constructor gives `{fname}` its bytes"))
            continue
        for x, vals in whole:
            if any(flow.mentions(v, f) for v in vals):
                bad.append((m, x, [w for v in vals for w in shared_via(v, f)]))
            elif not all(fresh(v, f) for v in vals):
                undecided.append((m, f"`{etext(x)}` is not read as a value built in the constructor"))
            else:
                oks.append(m)
        for x, op in inplace:
            if any(flow.mentions(a, f) for a in cxx2.real_args(x)[1:]):
                bad.append((m, x, [w for a in cxx2.real_args(x)[1:] for w in shared_via(a, f)]))
            elif not handle:
                oks.append(m)
    if bad:
        m, x, via = bad[0]
        res.bad("R-READBACK", construct, TU, x.get("line") or m.line,
                f"{m.qual} does not give `{fname}` (the member the read callback returns) a copy of its own: the value comes "
                f"through {'; '.join(dict.fromkeys(via))} -- storage shared between providers, so the bytes read for a "
                f"present name can be those added under another name")
    elif undecided:
        m, why = undecided[0]
        raise AnalysisError(f"R-READBACK: {construct}: cannot decide for {m.qual}: {why}")
    else:
        res.ok("R-READBACK", construct, {"constructors": sorted({m.qual for m in oks}), "held": "by handle" if handle else "by value"})


def check_read(res, W):
    res.rule("R-READBACK", "the buffer provider's read callback returns data()/size() of one member written only by the "
             "provider's constructors; VFS::Read and mju_readResource pass pointer and size through", floor=6)
    prov = [cm for cm in W.local_classes if any("ResourceProvider" in (b or "") for b in cm.bases)]
    if len(prov) != 1:
        raise AnalysisError(f"expected exactly one resource-provider class in {TU}, found {len(prov)}")
    BP = prov[0]
    # read callbacks: the functions stored in the `read` member of the provider: a lambda written in place, a named
    # function / static member function of this file (`&Cls::Fn`, `Fn`), or a never-reassigned local holding one of these
    callbacks = []
    for m in BP.methods.values():
        if m.node is None or (getattr(m, "template", None) is not None and re.search(r"\bArgs\b", m.type)):
            continue
        for x in cxx2.walk(m.node):
            if x.get("k") in ("BinaryOperator", "CXXOperatorCallExpr") and (x.get("op") == "=" or cxx2.op_name(x) == "="):
                c = cir.kids(x) if x.get("k") == "BinaryOperator" else cxx2.op_args(x)
                tgt = cxx2.skip(c[0])
                if tgt is None or tgt.get("k") != "MemberExpr" or tgt.get("n") != "read":
                    continue
                cb = callback_of(W, m.node, c[1])
                if cb is None:
                    raise AnalysisError(f"{m.qual}: cannot tell which function `{etext(tgt)} = {etext(c[1])}` stores as "
                                        f"the read callback (expected a lambda or a function defined in {TU})")
                if cb != "null":
                    callbacks.append((m, cb))
    if not callbacks:
        raise AnalysisError(f"{BP.name}: no read callback found")
    fields_used = set()
    for m, (ps, body, lam) in callbacks:
        construct = f"{m.qual}:read-callback"
        if len(ps) != 2:
            res.bad("R-READBACK", construct, TU, lam.get("line"), "read callback does not take (resource, out)")
            continue
        out_id = ps[1].get("id")
        res_id = ps[0].get("id")
        outs, rets, selfs = [], [], {}
        problems = []
        for x in cxx2.walk(body):
            if x.get("k") == "VarDecl":
                init = [c for c in cir.kids(x) if c is not None]
                if init and provider_of(init[-1], res_id):
                    selfs[x.get("id")] = x
            if x.get("k") == "BinaryOperator" and x.get("op") == "=":
                t = cxx2.skip(cir.kids(x)[0])
                if t is not None and t.get("k") == "UnaryOperator" and t.get("op") == "*":
                    b = cxx2.skip(cir.kids(t)[0])
                    if b is not None and b.get("k") == "DeclRefExpr" and (b.get("ref") or {}).get("id") == out_id:
                        outs.append(cxx2.skip(cir.kids(x)[1]))
            if x.get("k") == "ReturnStmt":
                c = [y for y in cir.kids(x) if y is not None]
                rets.append(cxx2.skip(c[0]) if c else None)

        def member_of_self(e, meth):
            if e is None or e.get("k") != "CXXMemberCallExpr":
                return None
            r = cxx2.receiver(e)
            if not r or r[2] != meth:
                return None
            o = member_through_deref(r[0], BP.fields)
            if o is None:
                return None
            b = cxx2.skip(cir.kids(o)[0])
            if b is not None and b.get("k") == "DeclRefExpr" and (b.get("ref") or {}).get("id") in selfs and \
                    (b.get("ref") or {}).get("id") not in assigned_vars(body):
                return o.get("mid")
            if provider_of(b, res_id):       # `((Provider*)res->provider)->member` without the local
                return o.get("mid")
            return None
        if len(outs) != 1 or len(rets) != 1:
            problems.append(f"{len(outs)} writes to *out and {len(rets)} returns (expected one each)")
        else:
            fd, fs = member_of_self(outs[0], "data"), member_of_self(rets[0], "size")
            if fd is None or fs is None or fd != fs:
                problems.append(f"*out = {etext(outs[0])}, return {etext(rets[0])}: not data()/size() of one member of "
                                f"the provider object of this resource")
            else:
                fields_used.add(fd)
        if problems:
            res.bad("R-READBACK", construct, TU, lam.get("line"), "; ".join(problems))
        else:
            res.ok("R-READBACK", construct, {"line": lam.get("line"), "member": BP.fname(next(iter(fields_used)))})
    # the member is written only in constructors
    MUT = ("push_back", "emplace_back", "assign", "resize", "clear", "insert", "erase", "pop_back", "swap", "reserve",
           "shrink_to_fit", "data")
    for fid in fields_used:
        for m in BP.methods.values():
            if m.node is None or (getattr(m, "template", None) is not None and re.search(r"\bArgs\b", m.type)):
                continue
            writes = []
            for x in cxx2.walk(m.node):
                if x.get("k") == "CXXMemberCallExpr":
                    r = cxx2.receiver(x)
                    if r and r[2] in MUT + ("reset", "release") and r[0] is not None:
                        o = member_through_deref(r[0], {fid})
                        if o is not None:
                            if r[2] == "data" and "const" in (cxx2.skip(r[0]).get("t") or ""):
                                continue
                            writes.append((x, r[2]))
                if x.get("k") == "CXXOperatorCallExpr" and cxx2.op_name(x) in ("=", "[]"):
                    if member_through_deref(cxx2.op_args(x)[0], {fid}) is not None:
                        writes.append((x, "operator" + cxx2.op_name(x)))
                if x.get("k") == "BinaryOperator" and x.get("op") == "=" and \
                        member_through_deref(cir.kids(x)[0], {fid}) is not None:
                    writes.append((x, "="))
            if m.kind == "CXXConstructorDecl":
                continue
            real = [w for w in writes if not (w[1] == "data" and any(w[0] is o or True for o in ()))]
            # data() inside the read callback is the read itself
            real = [w for w in writes if w[1] != "data"]
            construct = f"{m.qual}:{BP.fname(fid)}-not-written"
            if real:
                res.bad("R-READBACK", construct, TU, real[0][0].get("line"),
                        f"stored contents `{BP.fname(fid)}` are modified outside the constructors ({real[0][1]})")
            else:
                res.ok("R-READBACK", construct, None)
        # the buffer constructor copies exactly n source bytes
        for m in BP.methods.values():
            if m.kind != "CXXConstructorDecl" or m.node is None or m.implicit or m.defaulted:
                continue
            if not [p for p in m.params() if re.search(r"const void \*", p.get("t") or "")]:
                continue
            construct = f"{m.qual}:copies-n-bytes"
            good, detail = copies_n_bytes(BP, m, fid)
            if good:
                res.ok("R-READBACK", construct, {"line": m.line, "how": detail})
            else:
                res.bad("R-READBACK", construct, TU, m.line, detail)
        check_private_copy(res, W, BP, fid)
    # the opened resource carries the provider of the mount found for the (normalised) path
    op = [f for f in W.fns if f.kind == "method" and f.cls is W.vfs and f.name == "Open"][0]
    internal = {id(f): f for f in W.fns if f.kind == "method" and f.cls is W.vfs and f.access != "public"}
    creators = []
    for f in internal.values():
        ps = {p.get("id"): i for i, p in enumerate(f.params)}
        for x in cxx2.walk(f.node):
            if x.get("k") == "BinaryOperator" and x.get("op") == "=":
                t, r = (cxx2.skip(y) for y in cir.kids(x))
                if t is not None and t.get("k") == "MemberExpr" and t.get("n") == "provider" and r is not None and \
                        r.get("k") == "DeclRefExpr" and (r.get("ref") or {}).get("id") in ps:
                    creators.append((f, ps[r["ref"]["id"]], x))
    construct = f"{op.qual}:provider-of-found-mount"
    good, why = False, "no call of a resource-creating helper found"
    for x in cxx2.walk(op.node):
        g = W.callee(x)
        for f, idx, _ in creators:
            if g is f:
                a = W.call_args(x)
                src = stable_expand(op.node, a[idx]) if idx < len(a) else None
                why = f"provider argument `{etext(a[idx]) if idx < len(a) else ''}` is not the found mount's provider"
                if src is not None and src.get("k") == "MemberExpr" and src.get("n") == "provider":
                    m = stable_expand(op.node, cir.kids(src)[0])
                    mg = W.callee(m) if m is not None else None
                    if mg is not None and any(table_access(W, y) and table_access(W, y)[1] == "find"
                                              for y in cxx2.walk(mg.node)):
                        good = True
    if creators:
        res.ok("R-READBACK", f"{creators[0][0].qual}:stores-provider", {"line": creators[0][2].get("line")})
    if good:
        res.ok("R-READBACK", construct, None)
    else:
        res.bad("R-READBACK", construct, op.file, op.node.get("line"), why)
    # VFS::Read passes (resource, buffer) to provider->read and returns its result
    rd = [f for f in W.fns if f.kind == "method" and f.cls is W.vfs and f.name == "Read"][0]
    ps = rd.params
    good = False
    for rnode, e in returns_of(rd.node):
        if e is not None and e.get("k") == "CallExpr":
            f = cxx2.skip(cir.kids(e)[0])
            a = [cxx2.skip(y) for y in cir.args(e)]
            if f is not None and f.get("k") == "MemberExpr" and f.get("n") == "read" and len(a) == 2 and \
                    all(x is not None and x.get("k") == "DeclRefExpr" for x in a) and \
                    [(x.get("ref") or {}).get("id") for x in a] == [p.get("id") for p in ps[:2]]:
                good = True
    if good:
        res.ok("R-READBACK", f"{rd.qual}:passes-through", {"line": rd.node.get("line")})
    else:
        res.bad("R-READBACK", f"{rd.qual}:passes-through", rd.file, rd.node.get("line"),
                "VFS::Read does not return provider->read(resource, buffer) unchanged")
    # mju_readResource in user_resource.cc
    ir = cfront.load_tu(RES_TU, lang="cxx")
    fn = None
    for d, ns in cxx2.all_decls(ir["decls"]):
        if d.get("k") == "FunctionDecl" and d.get("n") == "mju_readResource" and cir.body(d) is not None:
            fn = d
    if fn is None:
        raise AnalysisError(f"anchor function mju_readResource not found in {RES_TU}")
    ps = cir.params(fn)
    good = False
    for rnode, e in returns_of(fn):
        if e is not None and e.get("k") == "CXXMemberCallExpr" and cir.callee(e) == "Read":
            a = [cxx2.skip(y) for y in cir.args(e)]
            if len(a) == 2 and [(x.get("ref") or {}).get("id") for x in a] == [p.get("id") for p in ps[:2]]:
                good = True
    if good:
        res.ok("R-READBACK", "mju_readResource:passes-through", {"line": fn.get("line")})
    else:
        res.bad("R-READBACK", "mju_readResource:passes-through", RES_TU, fn.get("line"),
                "mju_readResource does not return VFS::Read(resource, buffer) unchanged")


# ------------------------------------------------------------------------------------- derived state (R-DERIVED)

FILL_OPS = ("emplace", "insert", "insert_or_assign", "try_emplace", "emplace_hint", "push_back", "emplace_back",
            "push_front", "emplace_front", "push", "assign", "merge", "append", "store")
FULL_INV_OPS = ("clear",)
KEYED_INV_OPS = ("erase", "extract")
T_INSERT_OPS = INSERT_OPS + ("insert_or_assign", "[]", "emplace_hint")
KEYED_CONTAINERS = MAPS + ("std::set", "std::unordered_set", "std::multimap", "std::unordered_multimap")


def is_empty_value(e):
    """The expression is the empty / null value of its type (`{}`, `T()`, nullptr, 0, false, std::nullopt)."""
    e = cxx2.skip(e)
    if e is None:
        return True
    k = e.get("k")
    if k in ("CXXNullPtrLiteralExpr", "GNUNullExpr", "CXXScalarValueInitExpr", "ImplicitValueInitExpr"):
        return True
    if k == "IntegerLiteral":
        return str(e.get("v")) == "0"
    if k == "CXXBoolLiteralExpr":
        return not e.get("v")
    if k in ("InitListExpr", "CXXConstructExpr", "CXXTemporaryObjectExpr"):
        return not [a for a in cxx2.real_args(e)]
    if k == "DeclRefExpr":
        return (e.get("ref") or {}).get("n") == "nullopt"
    return False


class _Site:
    def __init__(self, idx, node, owner, fid, op, kind, key):
        self.idx, self.node, self.owner, self.fid, self.op, self.kind, self.key = idx, node, owner, fid, op, kind, key


class _Member:
    def __init__(self, fid, name, typ):
        self.fid, self.name, self.type = fid, name, typ
        self.role = "independent"
        self.fills = []          # (fn, node, how) -- stores that depend on lookups of the table
        self.other_stores = []   # (fn, node) -- stores that do not
        self.consult = []        # (fn, how)
        self.escapes = []        # (fn, node) -- the member is handed to code that is not followed
        self.exact = False
        self.positive_only = False
        self.guards = set()
        self.unchecked_reads = 0


class Derived:
    """Members of a class that cache lookups of its table, and whether every change of the table invalidates them.

    Parametric in the class: `fields` {FieldDecl id: node}, `tables` (ids of the primary table members), `fns` (objects
    with .node/.params/.qual/.kind/.access), `callee(call)` -> one of fns or None, `special(fn)` -> constructor/destructor.
    See the module docstring (R-DERIVED) for what is demanded."""

    def __init__(self, cname, fields, tables, fns, callee, special, tu=TU):
        self.cname, self.fields, self.tables, self.callee, self.special, self.tu = cname, fields, set(tables), callee, special, tu
        self.fns = [f for f in fns if cir.body(f.node) is not None]
        self.fname = lambda fid: (fields.get(fid) or {}).get("n") or str(fid)
        self.flowT = cxx2.MemberFlow(self.fns, self.tables, callee)
        self.calls = {id(f): [] for f in self.fns}        # caller -> [(call node, callee)]
        self.callers = {id(f): [] for f in self.fns}
        for f in self.fns:
            for x in cxx2.walk(f.node):
                if x.get("k") in ("CallExpr", "CXXMemberCallExpr"):
                    g = callee(x)
                    if g is not None and id(g) in self.calls:
                        self.calls[id(f)].append((x, g))
                        self.callers[id(g)].append(f)
        self.touchT = self._closure(lambda f: self._mentions_fields(f, self.tables))
        self._scan_table_sites()
        self._scan_member_events()
        self.members = {}
        for fid, fd in fields.items():
            if fid in self.tables:
                continue
            self.members[fid] = self._classify(fid, fd)

    # -- generic helpers
    def _closure(self, base):
        got = {id(f): bool(base(f)) for f in self.fns}
        changed = True
        while changed:
            changed = False
            for f in self.fns:
                if not got[id(f)] and any(got[id(g)] for _, g in self.calls[id(f)]):
                    got[id(f)] = True
                    changed = True
        return got

    @staticmethod
    def _mentions_fields(f, fids):
        return any(x.get("k") == "MemberExpr" and x.get("mid") in fids for x in cxx2.walk(f.node))

    def _field_op(self, x):
        """(field id, operation, [argument expressions]) for `member.op(args)` / `member[k]` on a data member of *this."""
        if x.get("k") == "CXXMemberCallExpr":
            r = cxx2.receiver(x)
            if r and r[0] is not None:
                rf = cxx2.rooted_field(r[0])
                if rf and rf[1] and rf[0] in self.fields:
                    return rf[0], r[2], cxx2.real_args(x)[1:]
        if x.get("k") == "CXXOperatorCallExpr" and cxx2.op_name(x) == "[]":
            a = cxx2.op_args(x)
            rf = cxx2.rooted_field(a[0]) if a else None
            if rf and rf[1] and rf[0] in self.fields:
                return rf[0], "[]", a[1:]
        return None

    def _iter_key(self, f, arg, fids):
        """Key expression of the find() that initialised the iterator local `arg` (on one of the members fids), else None."""
        a = cxx2.skip(arg)
        if a is None or a.get("k") != "DeclRefExpr" or (a.get("ref") or {}).get("k") != "VarDecl":
            return None
        rid = a["ref"].get("id")
        for x in cxx2.walk(f.node):
            if x.get("k") == "VarDecl" and x.get("id") == rid:
                init = [c for c in cir.kids(x) if c is not None]
                e = cxx2.skip(init[-1]) if init else None
                fo = self._field_op(e) if e is not None else None
                if fo and fo[0] in fids and fo[1] == "find" and fo[2]:
                    return fo[2][0]
        return None

    def _key_of(self, f, fid, op, args):
        if not args or op not in KEYED_OPS + ("[]",):
            return None
        k = self._iter_key(f, args[0], {fid})
        return keytext(f.node, k if k is not None else args[0])

    # -- the table: where it changes
    def _scan_table_sites(self):
        self.sites, self.site_by_node = [], {}
        for f in self.fns:
            if self.special(f):
                continue
            for x in cxx2.walk(f.node):
                fo = self._field_op(x)
                if fo is None or fo[0] not in self.tables or fo[1] not in MUTATING_OPS:
                    continue
                kind = "insert" if fo[1] in T_INSERT_OPS else "erase"
                s = _Site(len(self.sites), x, f, fo[0], fo[1], kind, self._key_of(f, fo[0], fo[1], fo[2]))
                self.sites.append(s)
                self.site_by_node[id(x)] = s
        self.mut = self._closure(lambda f: any(s.owner is f for s in self.sites))

    # -- the other members: how they are written
    def _scan_member_events(self):
        """ev[id(node)] = (field id, kind, key expr or None, stored expressions) for every write of a data member:
        kind "inv" (back to the empty value), "invk" (one key removed), "fill" (something stored)."""
        self.ev, self.ev_fn, self.escape = {}, {}, {}
        for f in self.fns:
            for x in cxx2.walk(f.node):
                got = None
                ap = cxx2.assignment_parts(x)
                if ap is not None:
                    rf = cxx2.rooted_field(ap[0])
                    if rf and rf[0] in self.fields:
                        if rf[1] and ap[2] == "=" and is_empty_value(ap[1]):
                            got = (rf[0], "inv", None, [])
                        else:
                            t = cxx2.skip(ap[0])
                            key = None
                            if t is not None and t.get("k") == "CXXOperatorCallExpr" and cxx2.op_name(t) == "[]":
                                key = cxx2.op_args(t)[1]
                            got = (rf[0], "fill", key, [ap[1]])
                else:
                    fo = self._field_op(x)
                    if fo is not None and fo[0] not in self.tables:
                        fid, op, args = fo
                        if op in FULL_INV_OPS or (op == "reset" and not args):
                            got = (fid, "inv", None, [])
                        elif op in KEYED_INV_OPS:
                            got = (fid, "invk", args[0] if args else None, [])
                        elif op in FILL_OPS or (op in ("reset", "swap") and args):
                            keyed = cxx2.template_name((self.fields[fid].get("t") or "")) in KEYED_CONTAINERS
                            got = (fid, "fill", args[0] if args and keyed else None, list(args))
                if got is not None and got[0] not in self.tables:
                    self.ev[id(x)] = got
                    self.ev_fn.setdefault(got[0], {}).setdefault(id(f), []).append(x)
                # the member itself handed over (argument, address): writes through that are not followed
                if x.get("k") in ("CallExpr", "CXXMemberCallExpr", "CXXConstructExpr"):
                    args = cir.kids(x)[1:] if x.get("k") != "CXXConstructExpr" else cir.kids(x)
                    for a in args:
                        b = cxx2.skip(a)
                        if b is not None and b.get("k") == "UnaryOperator" and b.get("op") == "&":
                            b = cxx2.skip(cir.kids(b)[0])
                        rf = cxx2.rooted_field(b) if b is not None and b.get("k") == "MemberExpr" else None
                        t = (a.get("t") or "")
                        if rf and rf[1] and rf[0] in self.fields and rf[0] not in self.tables and \
                                (a.get("k") != "ImplicitCastExpr" or a.get("ck") != "LValueToRValue") and \
                                not t.startswith("const ") and g_is_unknown(self, x):
                            self.escape.setdefault(rf[0], []).append((f, x))

    # -- classification of one member
    def _classify(self, fid, fd):
        M = _Member(fid, fd.get("n"), fd.get("t") or "")
        if "mutex" in M.type:
            M.role = "lock"
            return M
        T = self.flowT
        for f in self.fns:
            for x in cxx2.walk(f.node):
                e = self.ev.get(id(x))
                if e is None or e[0] != fid or e[1] != "fill":
                    continue
                data = any(T.mentions(v, f) for v in e[3]) or (e[2] is not None and T.mentions(e[2], f))
                ctl = T.controlled(f, x)
                if data or ctl:
                    M.fills.append((f, x, "value" if data else "control"))
                else:
                    M.other_stores.append((f, x))
        M.escapes = self.escape.get(fid, [])
        # consulted: a value read from the member is returned by a function that also works on the table (or fills the
        # member from it), or a test of the member against the function's own argument decides such a return
        pids = {id(f): {p.get("id") for p in f.params} for f in self.fns}

        def keyed_cond(flow, cond, f):
            if not flow.mentions(cond, f):
                return False
            ps = pids[id(f)]
            for x in cxx2.walk(cond):
                if x.get("k") != "DeclRefExpr":
                    continue
                r = x.get("ref") or {}
                if r.get("id") in ps:
                    return True
                if r.get("k") == "VarDecl":
                    for d in cxx2.walk(f.node):
                        if d.get("k") == "VarDecl" and d.get("id") == r.get("id") and any(
                                y.get("k") == "DeclRefExpr" and (y.get("ref") or {}).get("id") in ps for y in cxx2.walk(d)):
                            return True
            return False
        FM = cxx2.MemberFlow(self.fns, {fid}, self.callee, cond_pred=keyed_cond)
        fillers = self._closure(lambda f: any(g is f for g, _, _ in M.fills))
        for g in self.fns:
            if self.special(g) or not (self.touchT[id(g)] or fillers[id(g)]):
                continue
            how = None
            for x in cxx2.walk(g.node, lambdas=False):
                if x.get("k") != "ReturnStmt":
                    continue
                c = [y for y in cir.kids(x) if y is not None]
                e = c[0] if c else None
                ap = cxx2.assignment_parts(cxx2.skip(e)) if e is not None else None
                if ap is not None and (cxx2.rooted_field(ap[0]) or (None,))[0] == fid:
                    e = ap[1]              # `return member[k] = v;` hands out v, not what the member held
                if e is not None and FM.mentions(e, g):
                    how = "returned"
                    if not self.flowT.controlled(g, x, local=True):
                        M.unchecked_reads += 1     # handed out without any test of the table in between
                    continue
                if FM.controlled(g, x) and self.touchT[id(g)]:
                    how = how or "decides-return"
            if how:
                M.consult.append((g, how))
        if M.fills and M.consult:
            M.role = "cache"
            self._shape(M)
        elif M.fills:
            M.role = "derived-unread"
        elif M.consult:
            M.role = "read-not-derived"
        return M

    def _shape(self, M):
        """exact: every entry is filled under the very key that all table lookups of the filling function use (so an
        entry can only depend on that key of the table).  positive_only: every stored value is read through a found
        entry (nothing is stored for a name that was not found)."""
        keyed = cxx2.template_name(M.type) in KEYED_CONTAINERS
        exact = keyed
        context = False          # exactness fails only because of where the filling function is called from / what it calls
        positive = True
        for f, x, how in M.fills:
            e = self.ev[id(x)]
            if how != "value" or not any(self._entry_deref(v, f) for v in e[3]) or \
                    any(y.get("k") == "ConditionalOperator" for v in e[3] for y in cxx2.walk(v)):
                positive = False
            if not exact:
                continue
            if e[2] is None:
                exact = False
                continue
            kt = keytext(f.node, e[2])
            if self.flowT.ctl_in[id(f)] or any(self.touchT[id(g)] for _, g in self.calls[id(f)]):
                context = True
            for y in cxx2.walk(f.node):
                if y.get("k") == "CXXForRangeStmt" and any(
                        z.get("k") == "MemberExpr" and z.get("mid") in self.tables
                        for pre in cir.kids(y)[:-1] if pre is not None for z in cxx2.walk(pre)):
                    exact = False
                fo = self._field_op(y)
                if fo and fo[0] in self.tables and fo[1] in KEYED_OPS + ("[]",):
                    if not fo[2] or self._key_of(f, fo[0], fo[1], fo[2]) != kt:
                        exact = False
        if exact and context:
            exact = None
        M.exact, M.positive_only = exact, positive
        for g, _ in M.consult:
            for y in cxx2.walk(g.node):
                if y.get("k") in ("IfStmt", "WhileStmt", "ForStmt", "DoStmt", "ConditionalOperator"):
                    for z in cxx2.walk(y):
                        if z.get("k") == "MemberExpr" and z.get("mid") in self.fields and z.get("mid") != M.fid and \
                                z.get("mid") not in self.tables and "mutex" not in (self.fields[z["mid"]].get("t") or ""):
                            M.guards.add(z["mid"])

    def _entry_deref(self, v, f):
        """v reads through an entry of the table: `it->second`, `*it`, `table.at(k)`, `table[k]` (it derived from the table)."""
        for y in cxx2.walk(v):
            if y.get("k") == "CXXOperatorCallExpr" and cxx2.op_name(y) in ("->", "*") and \
                    self.flowT.mentions(cxx2.op_args(y)[0], f):
                return True
            if y.get("k") == "UnaryOperator" and y.get("op") == "*" and self.flowT.mentions(cir.kids(y)[0], f):
                return True
            if y.get("k") == "MemberExpr" and y.get("arrow") and cir.kids(y) and self.flowT.mentions(cir.kids(y)[0], f) and \
                    y.get("t") != "<bound member function type>":
                return True
            fo = self._field_op(y)
            if fo and fo[0] in self.tables and fo[1] in ("at", "[]"):
                return True
        return False

    # -- obligations
    def is_root(self, f):
        return f.kind == "function" or getattr(f, "access", None) == "public" or not self.callers[id(f)]

    def waived(self, M, site):
        return site.kind == "insert" and M.exact is True and M.positive_only

    def summary(self, M, f, fresh, stack=()):
        key = (M.fid, id(f), fresh)
        if key in self._summ:
            return self._summ[key]
        if id(f) in stack:
            raise AnalysisError(f"R-DERIVED: recursive functions on the path that changes the table ({f.qual})")
        rule = _Coherence(self, M, f, fresh, stack + (id(f),))
        cxx2.explore(rule, self.tu, f.node)
        self._summ[key] = frozenset(rule.exits)
        return self._summ[key]

    def obligations(self, M):
        """{site idx: [root functions that can return with the member stale after that change of the table]} and the
        set of sites that were reached."""
        self._summ = {}
        writes = self._closure(lambda f: id(f) in self.ev_fn.get(M.fid, {}))
        self._writesM = writes
        stale, reached, keyed_only = {}, set(), set()
        for f in self.fns:
            if self.special(f) or not self.mut[id(f)] or not self.is_root(f):
                continue
            for pending, fresh, inv, filled, seen, konly in self.summary(M, f, False):
                reached |= set(seen)
                keyed_only |= set(konly)
                for i in pending:
                    stale.setdefault(i, [])
                    if f not in stale[i]:
                        stale[i].append(f)
        return stale, reached, keyed_only


def g_is_unknown(D, call):
    """the callee of `call` is not one of the analysed functions (what it does with a member it is given is not seen)"""
    if call.get("k") == "CXXConstructExpr":
        return True
    return D.callee(call) is None and cir.callee(call) not in ("move", "forward", "as_const", "addressof")


class _Coherence(paths.Rule):
    """One function, one cache member.  State: (changes of the table after which the member may still hold older answers,
    member known empty, keys removed from the member since it was last filled, emptied in this function?, filled?, sites
    passed, sites where only a keyed removal was tried)."""

    def __init__(self, D, M, f, fresh, stack):
        self.D, self.M, self.f, self.fresh, self.stack = D, M, f, fresh, stack
        self.exits = set()

    def initial(self, fn):
        return (frozenset(), self.fresh, frozenset(), False, False, frozenset(), frozenset())

    def _event(self, st, node):
        pending, fresh, prekeys, inv, filled, seen, konly = st
        e = self.D.ev.get(id(node))
        if e is None or e[0] != self.M.fid:
            return None
        if e[1] == "inv":
            return (frozenset(), True, frozenset(), True, filled, seen, konly)
        if e[1] == "invk":
            k = e[2]
            ik = self.D._iter_key(self.f, k, {self.M.fid}) if k is not None else None
            kt = keytext(self.f.node, ik if ik is not None else k) if k is not None else None
            if self.M.exact and kt is not None:
                pending = frozenset(i for i in pending if not (self.D.sites[i].owner is self.f and self.D.sites[i].key == kt))
                return (pending, fresh, prekeys | {kt}, inv, filled, seen, konly)
            return (pending, fresh, (prekeys | {kt}) if kt is not None else prekeys, inv, filled, seen, konly | pending)
        return (pending, False, frozenset(), inv, True, seen, konly)

    def call(self, st, node, name, ctx):
        D, M = self.D, self.M
        pending, fresh, prekeys, inv, filled, seen, konly = st
        site = D.site_by_node.get(id(node))
        if site is not None:
            seen = seen | {site.idx}
            if D.waived(M, site) or fresh:
                return (pending, fresh, prekeys, inv, filled, seen, konly)
            if site.owner is self.f and site.key is not None and site.key in prekeys:
                if M.exact:
                    return (pending, fresh, prekeys, inv, filled, seen, konly)
                konly = konly | {site.idx}
            return (pending | {site.idx}, fresh, prekeys, inv, filled, seen, konly)
        ev = self._event(st, node)
        if ev is not None:
            return ev
        g = D.callee(node)
        if g is not None and id(g) in D.mut and g is not self.f and (D.mut[id(g)] or D._writesM[id(g)]):
            out = []
            for p2, fresh2, inv2, filled2, seen2, konly2 in D.summary(M, g, fresh, self.stack):
                if D.is_root(g):
                    p2 = frozenset()
                out.append((p2 if inv2 else (pending | p2), fresh2, frozenset() if (inv2 or filled2) else prekeys,
                            inv or inv2, filled or filled2, seen | seen2, konly | konly2))
            return out
        return st

    def assign(self, st, node, ctx):
        ev = self._event(st, node)
        return ev if ev is not None else st

    def ret(self, st, node, ctx):
        self.exits.add(st[:2] + st[3:])

    def fallthrough(self, st, ctx):
        self.exits.add(st[:2] + st[3:])


def _derived_report(res, D, tname, rule="R-DERIVED"):
    """Census of the members and the verdict for every (change of the table, cache member) pair.  Returns the census."""
    census = {}
    for fid, M in D.members.items():
        row = {"role": M.role, "type": M.type[:80]}
        if M.fills:
            row["filled_from_lookups_in"] = sorted({f.qual for f, _, _ in M.fills})
            row["fill_kinds"] = sorted({h for _, _, h in M.fills})
        if M.consult:
            row["read_back_in"] = sorted({f"{g.qual} ({how})" for g, how in M.consult})
        if M.role == "cache":
            row["exact_key"], row["positive_only"] = M.exact, M.positive_only
        census[M.name] = row
    for fid, M in D.members.items():
        if M.role != "cache":
            continue
        stale, reached, keyed_only = D.obligations(M)
        per = {}
        for s in D.sites:
            if D.waived(M, s):
                continue
            base = f"{s.owner.qual}:{tname(s.fid)}.{s.op}"
            per[base] = per.get(base, 0) + 1
        n = {}
        for s in D.sites:
            base = f"{s.owner.qual}:{tname(s.fid)}.{s.op}"
            n[base] = n.get(base, 0) + 1
            construct = (base if per.get(base, 0) <= 1 else f"{base}#{n[base]}") + f" invalidates {M.name}"
            if D.waived(M, s):
                res.ok(rule, construct, {"note": "insertion cannot change an exact-key cache of found entries"})
                continue
            if s.idx not in stale:
                if s.idx not in reached:
                    raise AnalysisError(f"{rule}: {construct}: the change of the table is not reached from any entry point")
                res.ok(rule, construct, {"line": s.node.get("line")})
                continue
            roots = stale[s.idx]
            # an invalidation the rule cannot read: the member escapes, or a member that guards the read-back is written
            unreadable = list(M.escapes)
            for r in roots:
                for gfid in M.guards:
                    if any(id(h) in D.ev_fn.get(gfid, {}) for h in D.fns if h is r or _reaches(D, r, h)):
                        unreadable.append((r, None))
            if not M.unchecked_reads and any(h == "returned" for _, h in M.consult):
                raise AnalysisError(f"{rule}: {construct}: cannot decide -- `{M.name}` is not emptied after the change, but "
                                    f"every place that hands out what it holds does so under a test of the table (it may "
                                    f"be re-validated on read)")
            if unreadable:
                raise AnalysisError(f"{rule}: {construct}: cannot decide -- `{M.name}` is not emptied after the change, but "
                                    f"it is passed to code that is not followed or a member that guards its read-back "
                                    f"({sorted(D.fname(g) for g in M.guards)}) is written")
            why = []
            if not M.exact:
                why.append("lookups that fill it use other keys than the one it is stored under (prefix / scan / "
                           "fall-through), so its entries depend on other names of the table")
            if not M.positive_only:
                why.append("results for names that were not found are stored too")
            extra = ""
            if s.idx in keyed_only and M.exact is None:
                raise AnalysisError(f"{rule}: {construct}: cannot decide -- only one key is removed from `{M.name}`, whose "
                                    f"entries are filled under the key of the lookup, but the filling function is called "
                                    f"under other lookups of the table (or calls functions that make some)")
            if s.idx in keyed_only:
                extra = " (removing only one key from it is not enough: " + why[0] + ")" if why else ""
            res.bad(rule, construct, s.owner.file or D.tu, s.node.get("line"),
                    f"`{tname(s.fid)}.{s.op}(...)` changes the table but {', '.join(r.qual for r in roots)} can return without "
                    f"emptying `{M.name}`, which caches lookups of `{tname(s.fid)}` (filled in "
                    f"{', '.join(sorted({f.qual for f, _, _ in M.fills}))}; read back in "
                    f"{', '.join(sorted({g.qual for g, _ in M.consult}))}): a name looked up before this "
                    f"{'insertion' if s.kind == 'insert' else 'removal'} keeps its old answer{extra}; {'; '.join(why)}")
    return census


def _reaches(D, a, b):
    seen, todo = set(), [a]
    while todo:
        f = todo.pop()
        if id(f) in seen:
            continue
        seen.add(id(f))
        if f is b:
            return True
        todo.extend(g for _, g in D.calls[id(f)])
    return False


# a fixed miniature class (built as IR, independent of /repo) with a memo of its table that one mutator forgets: the rule
# must classify the memo and report exactly that mutator on every run, so it can never pass because it matches nothing

def _probe():
    ids = iter(range(1, 10 ** 6))

    def N(k, *kids, **a):
        d = {"k": k, "line": 0}
        d.update(a)
        if kids:
            d["i"] = list(kids)
        return d

    def decl(k, name, t, *kids):
        return N(k, *kids, id=f"p{next(ids)}", n=name, t=t)

    def ref(d):
        return N("DeclRefExpr", t=d["t"], ref={"id": d["id"], "k": d["k"], "n": d["n"], "t": d["t"]})

    def fld(d):
        return N("MemberExpr", N("CXXThisExpr", t="P *"), n=d["n"], mid=d["id"], arrow=True, t=d["t"])

    def mcall(obj, meth, *args, t="int"):
        return N("CXXMemberCallExpr", N("MemberExpr", obj, n=meth, mid=f"m:{meth}", arrow=False,
                                        t="<bound member function type>"), *args, t=t)

    def var(name, t, init):
        d = decl("VarDecl", name, t, init)
        d["init"] = "c"
        return d

    def ne(a, b, op="!="):
        return N("BinaryOperator", a, b, op=op, t="bool")

    def ret(e):
        return N("ReturnStmt", e)

    def block(*s):
        return N("CompoundStmt", *s)

    def second(it):
        return N("MemberExpr", ref(it), n="second", mid="m:second", arrow=True, t="Owner *")

    def method(name, t, params, body, access="public"):
        node = decl("CXXMethodDecl", name, t, *params, body)
        node["file"] = "<probe>"
        f = Fn(name, f"P::{name}", node, "method", None, access, internal=(access != "public"), file="<probe>")
        return f
    MAP = "std::unordered_map<std::string, Owner *>"
    tbl = decl("FieldDecl", "tbl_", "std::unordered_map<std::string, Owner>")
    memo = decl("FieldDecl", "memo_", MAP)
    dflt = decl("FieldDecl", "dflt_", "Owner")
    hits = decl("FieldDecl", "hits_", "int")
    IT = MAP + "::iterator"
    # Owner* Find(const std::string& key)
    k1 = decl("ParmVarDecl", "key", "const std::string &")
    hit = var("hit", IT, mcall(fld(memo), "find", ref(k1), t=IT))
    it = var("it", IT, mcall(fld(tbl), "find", ref(k1), t=IT))
    find = method("Find", "Owner *(const std::string &)", [k1], block(
        N("DeclStmt", hit),
        N("IfStmt", ne(ref(hit), mcall(fld(memo), "end", t=IT)), block(ret(second(hit)))),
        N("UnaryOperator", fld(hits), op="++", t="int"),
        N("DeclStmt", it),
        N("IfStmt", ne(ref(it), mcall(fld(tbl), "end", t=IT)), block(
            mcall(fld(memo), "emplace", ref(k1), second(it), t="std::pair<iterator, bool>"),
            ret(second(it)))),
        mcall(fld(memo), "emplace", ref(k1), N("UnaryOperator", fld(dflt), op="&", t="Owner *"), t="std::pair<iterator, bool>"),
        ret(N("UnaryOperator", fld(dflt), op="&", t="Owner *"))))
    # bool Add(const std::string& key): forgets the memo
    k2 = decl("ParmVarDecl", "key", "const std::string &")
    add = method("Add", "bool (const std::string &)", [k2], block(
        N("IfStmt", ne(mcall(fld(tbl), "count", ref(k2), t="size_t"), N("IntegerLiteral", v="0", t="int")),
          block(ret(N("CXXBoolLiteralExpr", v=False, t="bool")))),
        mcall(fld(tbl), "emplace", ref(k2), N("IntegerLiteral", v="0", t="int"), t="std::pair<iterator, bool>"),
        ret(N("CXXBoolLiteralExpr", v=True, t="bool"))))
    # bool Del(const std::string& key): empties the memo through a private helper
    k3 = decl("ParmVarDecl", "key", "const std::string &")
    it3 = var("it", IT, mcall(fld(tbl), "find", ref(k3), t=IT))
    forget = method("Forget", "void ()", [], block(mcall(fld(memo), "clear", t="void")), access="private")
    dele = method("Del", "bool (const std::string &)", [k3], block(
        N("DeclStmt", it3),
        N("IfStmt", ne(ref(it3), mcall(fld(tbl), "end", t=IT), op="=="), block(ret(N("CXXBoolLiteralExpr", v=False, t="bool")))),
        mcall(fld(tbl), "erase", ref(it3), t=IT),
        N("CXXMemberCallExpr", N("MemberExpr", N("CXXThisExpr", t="P *"), n="Forget", mid=forget.node["id"], arrow=True,
                                 t="<bound member function type>"), t="void"),
        ret(N("CXXBoolLiteralExpr", v=True, t="bool"))))
    # int Hits() const: a counter that is read back but not a cache
    hitsfn = method("Hits", "int () const", [], block(ret(fld(hits))))
    fns = [find, add, dele, forget, hitsfn]
    by = {f.node["id"]: f for f in fns}

    def callee(x):
        if x.get("k") == "CXXMemberCallExpr":
            m = cir.strip(cir.kids(x)[0])
            return by.get(m.get("mid")) if m is not None else None
        return None
    fields = {d["id"]: d for d in (tbl, memo, dflt, hits)}
    return Derived("P", fields, {tbl["id"]}, fns, callee, lambda f: False, tu="<probe>"), fields


class _Collect:
    """stands in for the Result while the probe is judged"""

    def __init__(self):
        self.oks, self.bads = [], []

    def ok(self, rule, construct, sample=None):
        self.oks.append(construct)

    def bad(self, rule, construct, file, line, msg, **kw):
        self.bads.append(construct)


def check_derived(res, W):
    res.rule("R-DERIVED", "every data member that stores results of lookups of the mount table and hands them out again is "
             "emptied (or, for an exact-key cache, has the affected key removed) on every path of every function that "
             "inserts into or erases from the table", floor=3)
    # 1. the probe: memo_ is a cache, Add forgets it, Del (through a helper) does not, hits_ / dflt_ are not caches
    P, pf = _probe()
    got = _Collect()
    pc = _derived_report(got, P, lambda fid: pf[fid]["n"])
    want_roles = {"memo_": "cache", "dflt_": "read-not-derived", "hits_": "independent"}
    roles = {k: v["role"] for k, v in pc.items()}
    if roles != want_roles or got.bads != ["P::Add:tbl_.emplace invalidates memo_"] or \
            got.oks != ["P::Del:tbl_.erase invalidates memo_"] or not pc["memo_"]["exact_key"] or pc["memo_"]["positive_only"]:
        raise AnalysisError(f"R-DERIVED self-probe failed: roles={roles} bad={got.bads} ok={got.oks} memo={pc.get('memo_')}")
    res.ok("R-DERIVED", "probe:memo-forgotten-by-one-mutator", {"roles": roles, "reported": got.bads, "accepted": got.oks})
    # 2. the real class
    tables = set(W.tables)
    D = Derived(VFSCLS, W.vfs.fields, tables, W.fns, W.callee,
                lambda f: f.kind == "method" and f.node.get("k") in ("CXXConstructorDecl", "CXXDestructorDecl"))
    census = _derived_report(res, D, W.tname)
    for name, row in sorted(census.items()):
        res.ok("R-DERIVED", f"{VFSCLS}::{name}:role", {"role": row["role"]})
    res.extra["derived_state"] = {"table": sorted(W.tname(t) for t in tables), "members": census,
                                  "table_changes": [f"{s.owner.qual}:{W.tname(s.fid)}.{s.op}" for s in D.sites]}
    res.count("members_classified", len(census))


# ------------------------------------------------------------------------------------- exact name first (R-DELEXACT)

class _Frame:
    def __init__(self, fn, binding, nonnull, origin=None, site=None):
        self.fn, self.binding, self.nonnull = fn, binding, nonnull
        self.origin = origin or {}      # parameter id -> how the entry point spelled the value (for messages)
        self.site = site                # the call in the entry point through which this frame was reached


class ExactFirst:
    """Abstract interpretation of a delete entry point over call frames (helpers, wrappers and the class methods are
    entered with their arguments classified), tracking what is known about the caller's exact (reduced) name.

    key class of an expression, relative to the entry point's name parameter:
        "exact"  the parameter itself, a path-class object built from it by a one-argument (normalising) constructor, the
                 string accessors of such an object, never-reassigned locals and parameters of entered functions bound to these;
        "other"  anything else computed from it (StripPath, Lower, helper functions, string edits) -- and any key that does
                 not come from the name at all.
    state: know  "none" | "absent" | "present" | "done" (the exact entry was erased) -- learnt from the outcome of tests
                 `table.contains/count/find(exact key)` (directly, through a bool / iterator local, or through the value an
                 entered function returns), wherever they are written;
           won   some entry was erased on this path;  lost  a test that involves such a value could not be interpreted.
    events: an erase from the table with an exact key sets know = "done"; an erase with an "other" key is allowed only where
    know == "absent"."""

    def __init__(self, W, keyinfo, consts, tables):
        self.W, self.tables = W, set(tables)
        self.accessors = set(keyinfo["string_accessors"])
        self.constval = {v[0]: v[1] for v in consts.values()}
        self.P = Prov(W, keyinfo)
        self.reports, self.lost_reports = [], []
        self.events = {"exact": [], "other": []}
        self.memo = {}
        # functions from which a table access is reachable
        touch = {id(f): any((ta := table_access(W, x)) and ta[0] in self.tables for x in cxx2.walk(f.node)) for f in W.fns}
        changed = True
        while changed:
            changed = False
            for f in W.fns:
                if not touch[id(f)] and any(W.callee(x) is not None and touch.get(id(W.callee(x)))
                                            for x in cxx2.walk(f.node)):
                    touch[id(f)] = True
                    changed = True
        self.touch = touch

    # -- classification of key expressions
    def cls(self, e, fr, depth=0):
        e = stable_expand(fr.fn.node, e)
        if e is None or depth > 12:
            return None
        k = e.get("k")
        if k == "DeclRefExpr":
            r = e.get("ref") or {}
            if r.get("k") == "ParmVarDecl":
                return fr.binding.get(r.get("id"))
            if r.get("k") == "VarDecl":          # a local that is reassigned somewhere: whatever it holds is not the exact name
                return "other" if self._derived_local(r.get("id"), fr) else None
            return None
        if k in ("CXXConstructExpr", "CXXTemporaryObjectExpr"):
            a = cxx2.real_args(e)
            sub = [self.cls(x, fr, depth + 1) for x in a]
            if self.P.is_keycls(e.get("t")) and len(a) == 1:
                return sub[0]
            return "other" if any(sub) else None
        if k == "CXXMemberCallExpr":
            r = cxx2.receiver(e)
            obj = r[0] if r else None
            ot = (cxx2.skip(obj) or {}).get("t") or "" if obj is not None else ""
            if obj is not None and self.P.is_keycls(ot):
                c = self.cls(obj, fr, depth + 1)
                return c if r[2] in self.accessors else ("other" if c else None)
            if obj is not None and r[2] in ("c_str", "data") and not cxx2.real_args(e)[1:]:
                return self.cls(obj, fr, depth + 1)
        sub = [self.cls(x, fr, depth + 1) for x in cir.kids(e) if x is not None and x.get("k") != "CXXDefaultArgExpr"]
        return "other" if any(sub) else None

    def _derived_local(self, vid, fr):
        for x in cxx2.walk(fr.fn.node):
            if x.get("k") == "VarDecl" and x.get("id") == vid:
                return any(y.get("k") == "DeclRefExpr" and fr.binding.get((y.get("ref") or {}).get("id"))
                           for y in cxx2.walk(x))
        return False

    def nonnull_arg(self, e, st, fr):
        e = cxx2.skip(e)
        if e is None:
            return False
        if e.get("k") == "CXXMemberCallExpr" and (cxx2.receiver(e) or (None, None, None))[2] in ("c_str", "data"):
            return True
        if e.get("k") == "StringLiteral":
            return True
        return e.get("k") == "DeclRefExpr" and (e.get("ref") or {}).get("id") in st[5]

    # -- frames
    def enter(self, fn, binding, nonnull, st_in, stack, origin=None, site=None):
        """[(state at exit, abstract return value)] of fn entered with the given parameter classes."""
        if id(fn) in stack:
            raise AnalysisError(f"R-DELEXACT: recursion through {fn.qual}")
        if len(stack) > 8:
            raise AnalysisError(f"R-DELEXACT: call chain deeper than 8 below the delete entry point ({fn.qual})")
        key = (id(fn), tuple(sorted(binding.items())), frozenset(nonnull), st_in[:3])
        if key not in self.memo:
            fr = _Frame(fn, binding, nonnull, origin, site)
            rule = _ExactRule(self, fr, (st_in[0], st_in[1], st_in[2], frozenset(), frozenset(), frozenset(nonnull)),
                              stack + (id(fn),))
            cxx2.explore(rule, TU, fn.node)
            self.memo[key] = frozenset(rule.exits)
        return self.memo[key]


def _neg(v):
    if v is None:
        return None
    if v[0] == "const":
        return ("const", not v[1])
    if v[0] == "present":
        return ("present", v[1], not v[2])
    return None


class _ExactRule(paths.Rule):
    # state: (know, won, lost, vals {(var id, value)}, pend {(id(call node), value)}, nonnull {var id})
    # values: ("const", truthy) | ("present", key class, polarity) | ("iter", key class)
    def __init__(self, A, fr, st0, stack):
        self.A, self.fr, self.st0, self.stack = A, fr, st0, stack
        self.exits = set()

    def initial(self, fn):
        return self.st0

    # -- abstract values
    def val(self, e, st):
        core, neg = cxx2.cond_core(e)
        v = self._val(core, st)
        return _neg(v) if neg else v

    def _presence(self, e, st):
        """("present", class, pol) for table.contains(k) / count(k) / find(k) != end() / it != end()."""
        A, W = self.A, self.A.W
        if e.get("k") == "CXXMemberCallExpr":
            ta = table_access(W, e)
            if ta and ta[0] in A.tables and ta[1] in ("contains", "count") and ta[2] is not None:
                return ("present", A.cls(ta[2], self.fr) or "other", True)
        if e.get("k") in ("CXXOperatorCallExpr", "BinaryOperator"):
            op = cxx2.op_name(e) if e.get("k") == "CXXOperatorCallExpr" else e.get("op")
            if op in ("==", "!="):
                sides = cxx2.op_args(e) if e.get("k") == "CXXOperatorCallExpr" else cir.kids(e)
                kinds = []
                for y in sides:
                    y = cxx2.skip(y)
                    ta = table_access(W, y) if y is not None and y.get("k") == "CXXMemberCallExpr" else None
                    if ta and ta[0] in A.tables and ta[1] in ("end", "cend"):
                        kinds.append(("end", None))
                    elif ta and ta[0] in A.tables and ta[1] == "find" and ta[2] is not None:
                        kinds.append(("find", A.cls(ta[2], self.fr) or "other"))
                    elif y is not None and y.get("k") == "DeclRefExpr":
                        v = dict(st[3]).get((y.get("ref") or {}).get("id"))
                        kinds.append(("find", v[1]) if v and v[0] == "iter" else (None, None))
                    else:
                        kinds.append((None, None))
                if sorted(k[0] or "" for k in kinds) == ["end", "find"]:
                    c = [k[1] for k in kinds if k[0] == "find"][0]
                    return ("present", c, op == "!=")
        return None

    def _val(self, e, st):
        e = cxx2.skip(e)
        if e is None:
            return None
        k = e.get("k")
        if k == "IntegerLiteral":
            return ("const", str(e.get("v")) != "0")
        if k == "CXXBoolLiteralExpr":
            return ("const", bool(e.get("v")))
        if k == "UnaryOperator" and e.get("op") == "-":
            return self._val(cir.kids(e)[0], st)
        if k == "DeclRefExpr":
            r = e.get("ref") or {}
            if r.get("k") == "EnumConstantDecl":
                v = self.A.constval.get(r.get("id"))
                return ("const", v != 0) if v is not None else None
            v = dict(st[3]).get(r.get("id"))
            return v if v and v[0] != "iter" else None
        p = self._presence(e, st)
        if p is not None:
            return p
        if k in ("CallExpr", "CXXMemberCallExpr"):
            return dict(st[4]).get(id(e))
        if k in ("BinaryOperator", "CXXOperatorCallExpr"):
            op = cxx2.op_name(e) if k == "CXXOperatorCallExpr" else e.get("op")
            if op in ("==", "!="):
                a, b = (cxx2.op_args(e) if k == "CXXOperatorCallExpr" else cir.kids(e))[:2]
                va, vb = self.val(a, st), self.val(b, st)
                for x, y in ((va, vb), (vb, va)):
                    if x is not None and y is not None and y[0] == "const" and not y[1]:
                        r = _neg(x)                   # x == 0 / false / kSuccess  <=>  x is not truthy
                        return r if op == "==" else _neg(r)
            return None
        if k == "ConditionalOperator":
            c = cir.kids(e)
            v = self.val(c[0], st)
            if v is not None and v[0] == "const":
                return self.val(c[1] if v[1] else c[2], st)
        return None

    def _mentions_value(self, e, st):
        """the condition tests a value the state tracks (a status / presence local, the result of an entered function, the
        table itself); reading *through* an iterator (`it->second...`) is not a test of the lookup"""
        ids = {v[0] for v in st[3]}
        calls = {c[0] for c in st[4]}
        stack = [e]
        while stack:
            x = stack.pop()
            if x is None:
                continue
            k = x.get("k")
            if k == "LambdaExpr":
                continue
            if k == "CXXOperatorCallExpr" and cxx2.op_name(x) in ("->", "*"):
                continue
            if k == "UnaryOperator" and x.get("op") == "*":
                continue
            if k == "MemberExpr" and x.get("arrow"):
                continue
            if k == "DeclRefExpr" and (x.get("ref") or {}).get("id") in ids:
                return True
            if id(x) in calls:
                return True
            ta = table_access(self.A.W, x) if k == "CXXMemberCallExpr" else None
            if ta and ta[0] in self.A.tables:
                return True
            stack.extend(cir.kids(x))
        return False

    @staticmethod
    def _set(pairs, key, v):
        out = frozenset(p for p in pairs if p[0] != key)
        return out | {(key, v)} if v is not None else out

    # -- transfer
    def assign(self, st, node, ctx):
        know, won, lost, vals, pend, nn = st
        if node.get("k") == "VarDecl":
            init = [c for c in cir.kids(node) if c is not None]
            e = cxx2.skip(init[-1]) if init else None
            v = None
            if e is not None:
                ta = table_access(self.A.W, e) if e.get("k") == "CXXMemberCallExpr" else None
                if ta and ta[0] in self.A.tables and ta[1] == "find" and ta[2] is not None:
                    v = ("iter", self.A.cls(ta[2], self.fr) or "other")
                else:
                    v = self.val(e, st)
            return (know, won, lost, self._set(vals, node.get("id"), v), pend, nn - {node.get("id")})
        ap = cxx2.assignment_parts(node)
        if ap is not None:
            t = cxx2.skip(ap[0])
            if t is not None and t.get("k") == "DeclRefExpr":
                vid = (t.get("ref") or {}).get("id")
                v = self.val(ap[1], st) if ap[2] == "=" else None
                return (know, won, lost, self._set(vals, vid, v), pend, nn - {vid})
        return st

    def branch(self, st, cond, taken, ctx):
        know, won, lost, vals, pend, nn = st
        v = self.val(cond, st)
        if v is not None and v[0] == "const":
            return st if v[1] == taken else None
        if v is not None and v[0] == "present":
            if v[1] == "exact":
                here = (v[2] == taken)
                if know == "done" and here:
                    return None                       # the entry that was erased cannot be found again
                know = "present" if here else ("absent" if know != "done" else "done")
            return (know, won, lost, vals, pend, nn)
        # null tests of pointers
        core, neg = cxx2.cond_core(cond)
        core = cxx2.skip(core)
        var, isnull = None, None
        if core is not None and core.get("k") == "DeclRefExpr" and "*" in (core.get("t") or ""):
            var, isnull = (core.get("ref") or {}).get("id"), False
        elif core is not None and core.get("k") == "BinaryOperator" and core.get("op") in ("==", "!="):
            a, b = (cxx2.skip(x) for x in cir.kids(core))
            for x, y in ((a, b), (b, a)):
                if x is not None and y is not None and x.get("k") == "DeclRefExpr" and \
                        (y.get("k") in ("CXXNullPtrLiteralExpr", "GNUNullExpr") or cxx2.is_zero_literal(y)) and \
                        "*" in (x.get("t") or ""):
                    var, isnull = (x.get("ref") or {}).get("id"), core.get("op") == "=="
        if var is not None:
            truth = taken != neg                      # truth of the core condition on this edge
            null_here = (isnull == truth)
            if var in nn and null_here:
                return None
            if not null_here:
                nn = nn | {var}
            return (know, won, lost, vals, pend, nn)
        if self._mentions_value(cond, st):
            lost = True
        return (know, won, lost, vals, pend, nn)

    def call(self, st, node, name, ctx):
        A, W = self.A, self.A.W
        know, won, lost, vals, pend, nn = st
        ta = table_access(W, node)
        if ta is not None and ta[0] in A.tables:
            t, op, key = ta
            if op in ("erase", "extract") and key is not None:
                src = iterator_source(W, self.fr.fn, key)
                if src == "unknown":
                    raise AnalysisError(f"R-DELEXACT: {self.fr.fn.qual}: erase through an iterator whose origin is not a find()")
                kexpr = table_access(W, src)[2] if src is not None else key
                c = A.cls(kexpr, self.fr) or "other"
                site = self.fr.site or node
                rec = {"fn": self.fr.fn.qual, "line": site.get("line"), "file": self.fr.fn.file,
                       "key": self._origin(kexpr), "know": know, "erase_line": node.get("line")}
                if c == "exact":
                    A.events["exact"].append(rec)
                    return ("done", True, lost, vals, pend, nn)
                A.events["other"].append(rec)
                if know != "absent":
                    (A.lost_reports if lost else A.reports).append(rec)
                return (know, True, lost, vals, pend, nn)
            if op in ("clear", "swap", "merge"):
                raise AnalysisError(f"R-DELEXACT: {self.fr.fn.qual}: `{W.tname(t)}.{op}` on the delete path is not modelled")
            return st
        g = W.callee(node)
        if g is None or not A.touch.get(id(g)) or cir.body(g.node) is None:
            return st
        args = W.call_args(node)
        fr2b, fr2n, fr2o = {}, set(), {}
        for p, a in zip(g.params, args):
            if a is None or a.get("k") == "CXXDefaultArgExpr":
                continue
            c = A.cls(a, self.fr)
            if c:
                fr2b[p.get("id")] = c
                fr2o[p.get("id")] = self._origin(a)
            if self.A.nonnull_arg(a, st, self.fr):
                fr2n.add(p.get("id"))
        out = []
        for (know2, won2, lost2), rv in A.enter(g, fr2b, fr2n, (know, won, lost), self.stack, fr2o, self.fr.site or node):
            out.append((know2, won2, lost2, vals, self._set(pend, id(node), rv), nn))
        return out

    def _origin(self, e):
        """the expression as the entry point wrote it (parameters of entered functions replaced by what was passed)"""
        for x in cxx2.walk(stable_expand(self.fr.fn.node, e)):
            if x.get("k") == "DeclRefExpr" and (x.get("ref") or {}).get("id") in self.fr.origin:
                return self.fr.origin[x["ref"]["id"]]
        return etext(e)

    def _exit(self, st, rv):
        self.exits.add((st[:3], rv))

    def ret(self, st, node, ctx):
        c = [x for x in cir.kids(node) if x is not None]
        rv = self.val(c[0], st) if c else None
        if rv is not None and rv[0] == "iter":
            rv = None
        self._exit(st, rv)

    def fallthrough(self, st, ctx):
        self._exit(st, None)


def check_delete_exact(res, W, keyinfo, consts, tables):
    res.rule("R-DELEXACT", "on every path of the delete / unmount entry points an entry stored under a key other than the "
             "caller's exact (reduced) name is erased only where the exact name is known to be absent (its own lookup or "
             "unmount attempt failed)", floor=2)
    for api in ("mj_unmountVFS", "mj_deleteFileVFS"):
        root = W.free[api]
        names = [p for p in root.params if re.fullmatch(r"const char \*(const)?", (p.get("t") or "").strip())]
        if len(names) != 1:
            raise AnalysisError(f"{api}: expected exactly one `const char *` name parameter, found {len(names)}")
        A = ExactFirst(W, keyinfo, consts, tables)
        exits = A.enter(root, {names[0].get("id"): "exact"}, set(), ("none", False, False), ())
        if not A.events["exact"] and not A.events["other"]:
            raise AnalysisError(f"{api}: no erase from the mount table is reached from this entry point")
        construct = f"{api}:exact-name-first"
        if A.reports:
            r = A.reports[0]
            what = {"none": "nothing has been established about the exact name yet",
                    "present": "the exact name is known to be present",
                    "done": "the entry of the exact name has already been erased"}[r["know"]]
            res.bad("R-DELEXACT", construct, root.file or TU, r["line"],
                    f"{api} reaches the erase in {r['fn']} (line {r['erase_line']}) with the key `{r['key']}`, which is not the caller's exact "
                    f"(reduced) name, on a path where {what}: with both names present, deleting the exact name removes the "
                    f"other entry")
        elif A.lost_reports:
            r = A.lost_reports[0]
            raise AnalysisError(f"R-DELEXACT: {construct}: cannot decide -- the erase in {r['fn']} (line {r['line']}) with "
                                f"key `{r['key']}` follows a test of a lookup / unmount result that is not of a form read here")
        elif not A.events["exact"]:
            res.bad("R-DELEXACT", construct, root.file or TU, root.node.get("line"),
                    f"{api} never erases the entry stored under the caller's exact (reduced) name")
        else:
            res.ok("R-DELEXACT", construct, {"exact_key_erases": len(A.events["exact"]),
                                              "other_key_erases": sorted({e["key"] for e in A.events["other"]})})
        if api != "mj_deleteFileVFS":
            continue            # mj_unmountVFS:returns-status-unchanged is checked with R-DELRESULT
        # R-DELRESULT for the delete entry point, on the same frames: whichever way the attempts and their statuses are
        # written (early return, nested if, ?:, a status local, helpers), 0 is returned exactly on the paths that erased
        construct = "mj_deleteFileVFS:result-derived-from-unmount"
        succ = [st for st, rv in exits if rv is not None and rv[0] == "const" and not rv[1] and not st[1]]
        fail = [st for st, rv in exits if rv is not None and rv[0] == "const" and rv[1] and st[1]]
        unknown = [st for st, rv in exits if rv is None or rv[0] != "const"]
        if succ:
            res.bad("R-DELRESULT", construct, root.file or TU, root.node.get("line"),
                    "success (0) is returned on a path on which no unmount attempt erased an entry"
                    + (" although the name was found absent" if any(st[0] == "absent" for st in succ) else ""))
        elif fail:
            res.bad("R-DELRESULT", construct, root.file or TU, root.node.get("line"),
                    "a failure code is returned on a path on which an unmount attempt erased the entry")
        elif unknown:
            raise AnalysisError(f"R-DELRESULT: {construct}: a returned value is neither a status constant nor the status of "
                                f"an unmount attempt")
        else:
            res.ok("R-DELRESULT", construct, {"exits": len(exits)})


# ------------------------------------------------------------------------------------- entry

def run(res, tier):
    keyinfo = check_key_class(res)
    W = World()
    res.count("functions", len(W.fns))
    rows = check_keynorm(res, W, keyinfo)
    consts, doc = check_add(res, W, rows)
    check_delete(res, W, consts, doc)
    check_derived(res, W)
    check_delete_exact(res, W, keyinfo, consts, set(W.tables))
    check_read(res, W)
    res.extra["key_class"] = keyinfo
    res.extra["tables"] = [W.tname(t) for t in W.tables]
    res.explanation = (
        "Provenance analysis of every key reaching the VFS mount table (locals through definitions, parameters of "
        "internal functions through all call sites incl. the template instantiations behind mj_addBufferVFS/"
        "mj_addFileVFS), class invariant of the normalising path class, all-paths rules for the add path (containment "
        "test dominates insertion; repeated-name return before any mutation), the delete path (result derived from "
        "the erase), an abstract interpretation of the delete / unmount entry points over call frames (the legacy key is "
        "erased only where the exact name is known absent; 0 is returned exactly where an entry was erased), a data- and "
        "control-flow classification of every other data member (cache of table lookups or not) with the obligation that "
        "every change of the table empties such a cache on every path, and the structure of the read-back path.")
    res.not_decided = ("which entry prefix/legacy lookups select over histories; derived state kept outside the class "
                       "(file-level statics, provider objects), caches re-validated on read or invalidated through a "
                       "second member (reported as cannot-decide), counters as derived state; concurrent add/add (test and emplace "
                       "are in separate lock scopes); the write path (out of the property's operations, see "
                       "out_of_scope_accesses); byte-equality of contents beyond the copy loop's shape.")
    res.assumptions = ["std::unordered_map semantics (emplace does not overwrite, erase(iterator) removes that entry)",
                       "error handlers do not return"]


# ------------------------------------------------------------------------------------- self-test (thorough tier)

_V, _VH, _UH, _RC = TU, "src/user/user_vfs.h", "src/user/user_util.h", RES_TU
_TEST = "if (mounts_.contains(path.Str())) { return kRepeatedName; }"
_MOUNT = "VFS::Mount(const mujoco::user::FilePath &, const mjpResourceProvider *)"
_UNMOUNT = "VFS::Unmount(const mujoco::user::FilePath &)"
# the shapes of /verif/refactors/D-p5 as small anchored edits (controls) and the same shapes with a defect (mutants)
_READ_LAMBDA = ("    provider->read = [](mjResource* res, const void** out) {\n"
                "      BufferProvider* self = (BufferProvider*)res->provider;\n\n"
                "      *out = reinterpret_cast<void*>(self->contents_.data());\n"
                "      return static_cast<int>(self->contents_.size());\n    };\n")
_PRIVATE_AT = " private:\n  BufferProvider(const char* dir, const char* filename) {"
_READ_FN = (" private:\n  static int ReadContents(mjResource* res, const void** out) {\n"
            "    BufferProvider* self = (BufferProvider*)res->provider;\n\n"
            "    *out = reinterpret_cast<void*>(self->contents_.data());\n"
            "    return static_cast<int>(self->contents_.size())%s;\n  }\n\n"
            "  BufferProvider(const char* dir, const char* filename) {")
_NAMED_READ = [(_V, _READ_LAMBDA, "    provider->read = &BufferProvider::ReadContents;\n")]
_STRIP_STEP = ("  std::string str = fullpath;\n  while (!str.empty()) {\n    auto it = mounts_.find(str);\n"
               "    if (it != mounts_.end()) { return it->second.get(); }\n\n"
               "    std::size_t n = str.find_last_of(\"/\\\\\");\n    if (n == std::string::npos) {\n      str = \"\";\n"
               "    } else {\n      str = str.substr(0, n);\n    }\n  }\n")
_STRIP_FOR = ("  for (std::string str = fullpath; !str.empty(); str = ParentPath(str)) {\n    auto it = mounts_.find(str);\n"
              "    if (it != mounts_.end()) { return it->second.get(); }\n  }\n")
_NS_END = "}  // namespace\n\nnamespace mujoco::user {"
_PARENT_FN = ("std::string ParentPath(const std::string& path) {\n  std::size_t n = path.find_last_of(\"/\\\\\");\n"
              "  if (n == std::string::npos) { return \"\"; }\n  return path.substr(0, n)%s;\n}\n\n" + _NS_END)
_UNMOUNT_BODY = ("  if (auto it = mounts_.find(path.Str()); it != mounts_.end()) {\n"
                 "    if (it->second->provider->unmount) { it->second->provider->unmount(it->second.get()); }\n"
                 "    mounts_.erase(it);\n    return kSuccess;\n  }\n  return kInvalidResourceProvider;\n}")
_UNMOUNT_EARLY = ("  auto it = mounts_.find(path.Str());\n  if (it == mounts_.end()) { return %s; }\n\n"
                  "  mjResource* mount = it->second.get();\n  if (mount->provider->unmount) { mount->provider->unmount(mount); }\n"
                  "  mounts_.erase(it);\n  return kSuccess;\n}")
_DELFILE = ("  if (mj_unmountVFS(vfs, filename) != 0) {\n    mujoco::user::FilePath path(filename);\n"
            "    return mj_unmountVFS(vfs, path.StripPath().Lower().c_str());\n  }\n  return mujoco::user::VFS::kSuccess;\n}")
_DELFILE_EARLY = ("  if (mj_unmountVFS(vfs, filename) == 0) { return mujoco::user::VFS::kSuccess; }\n\n"
                  "  mujoco::user::FilePath path(filename);\n%s}")
_COPY_FOR = ("    for (size_t i = 0; i < n; i++) {\n      contents_.push_back(src_bytes[i]);\n      hash_ |= src_bytes[i];\n"
             "      hash_ *= prime;\n    }\n")
_COPY_WHILE = ("    size_t i = %s;\n    while (i < n) {\n      contents_.push_back(src_bytes[i]);\n      hash_ |= src_bytes[i];\n"
               "      hash_ *= prime;\n      ++i;\n    }\n")

# R-DERIVED: a memo of FindMount, as small anchored edits (see /verif/seeded/C39-stale-mount-lookup-cache)
_MEMO_DECL = [(_VH, "  std::unordered_map<std::string, ResourcePtr> mounts_;\n",
               "  std::unordered_map<std::string, ResourcePtr> mounts_;\n"
               "  std::unordered_map<std::string, mjResource*> mount_cache_;\n")]
_MEMO_FIND = [(_V, "  std::lock_guard<std::mutex> lock(mutex_);\n\n  std::string str = fullpath;",
               "  std::lock_guard<std::mutex> lock(mutex_);\n\n"
               "  if (auto hit = mount_cache_.find(fullpath); hit != mount_cache_.end()) { return hit->second; }\n"
               "  std::string str = fullpath;"),
              (_V, "    if (it != mounts_.end()) { return it->second.get(); }\n\n    std::size_t n",
               "    if (it != mounts_.end()) { return mount_cache_[fullpath] = it->second.get(); }\n\n    std::size_t n"),
              (_V, "  return &default_mount_;\n}", "  return mount_cache_[fullpath] = &default_mount_;\n}")]
_EMPLACE_PREFIX = "    mounts_.emplace(provider->prefix, std::move(res));\n"
_EMPLACE_MOUNT = "  mounts_.emplace(path.Str(), std::move(res));\n"
_ERASE_UNMOUNT = "    mounts_.erase(it);\n"
_MEMO_BASE = _MEMO_DECL + _MEMO_FIND + [(_V, _EMPLACE_PREFIX, _EMPLACE_PREFIX + "    mount_cache_.clear();\n")]
_FORGET_DECL = [(_VH, "  void MaybeSelfDestruct();\n", "  void MaybeSelfDestruct();\n  void ForgetLookups();\n"),
                (_V, "void VFS::MaybeSelfDestruct() {", "void VFS::ForgetLookups() { mount_cache_.clear(); }\n\n"
                 "void VFS::MaybeSelfDestruct() {")]
# an exact-key cache of containment tests
_CC_DECL = [(_VH, "  std::unordered_map<std::string, ResourcePtr> mounts_;\n",
             "  std::unordered_map<std::string, ResourcePtr> mounts_;\n"
             "  std::unordered_map<std::string, bool>        contains_cache_;\n")]
_CC_LOOKUP = [(_V, "  return mounts_.contains(mujoco::user::FilePath(name).Str());\n",
               "  const std::string key = mujoco::user::FilePath(name).Str();\n"
               "  if (auto hit = contains_cache_.find(key); hit != contains_cache_.end()) { return hit->second; }\n"
               "  const bool found = mounts_.contains(key);\n  contains_cache_[key] = found;\n  return found;\n")]
_CC_BASE = _CC_DECL + _CC_LOOKUP + [(_V, _ERASE_UNMOUNT, _ERASE_UNMOUNT + "    contains_cache_.erase(path.Str());\n"),
                                    (_V, _EMPLACE_PREFIX, _EMPLACE_PREFIX + "    contains_cache_.erase(provider->prefix);\n")]
# R-DELEXACT: other ways to write mj_deleteFileVFS
_DEL_HEAD = "  if (filename == nullptr) { return mujoco::user::VFS::kNotFound; }\n\n"
_DEL_IMPL = ("  mujoco::user::VFS* impl = mujoco::user::VFS::Upcast(vfs);\n  if (impl == nullptr) {\n"
             "    mju_error(\"mjVFS is null.\");\n    return mujoco::user::VFS::kInvalidVfs;\n  }\n"
             "  const mujoco::user::FilePath path(filename);\n")
_DEL_FN = "int mj_deleteFileVFS(mjVFS* vfs, const char* filename) {\n"

# R-READBACK: other ways to hold the bytes (the pool variant is /tmp/seedwork5_C39/buffer-content-dedup in small)
_READ_DIRECT = ("      *out = reinterpret_cast<void*>(self->contents_.data());\n"
                "      return static_cast<int>(self->contents_.size());\n")
_READ_ARROW = ("      *out = self->contents_->data();\n      return static_cast<int>(self->contents_->size());\n")
_FILE_CTOR = ("    contents_ = mujoco::user::FileToMemory(file_path.c_str());\n\n"
              "    static constexpr std::uint64_t prime = 0x100000001b3;\n\n"
              "    hash_ = contents_.empty() ? 0 : 0xcbf29ce484222325;\n"
              "    for (const std::uint8_t& byte : contents_) {\n")
_BUF_CTOR = ("    contents_.reserve(n);\n" + _COPY_FOR)
_MEMBER = "  std::vector<std::uint8_t> contents_;\n"
_HASH_LOOP = ("    for (size_t i = 0; i < n; i++) {\n      hash_ |= src_bytes[i];\n      hash_ *= prime;\n    }\n")
_POOL = ("class ContentPool {\n public:\n  using Contents = std::vector<std::uint8_t>;\n"
         "  using Handle   = std::shared_ptr<const Contents>;\n"
         "  static Handle Intern(Contents&& contents, std::uint64_t hash) {\n"
         "    static std::mutex mutex;\n"
         "    static std::unordered_multimap<std::uint64_t, std::weak_ptr<const Contents>> pool;\n"
         "    std::lock_guard<std::mutex> lock(mutex);\n"
         "    auto [first, last] = pool.equal_range(hash);\n"
         "    for (auto it = first; it != last; ++it) {\n      Handle stored = it->second.lock();\n"
         "      if (stored && stored->size() == contents.size()) { return stored; }\n    }\n"
         "    Handle handle = std::make_shared<const Contents>(std::move(contents));\n"
         "    pool.emplace(hash, handle);\n    return handle;\n  }\n};\n\n")
_PROVIDER_AT = "// Custom provider for mj_addFileVFS and mj_addBufferVFS.\n"


def _held(member, file_ctor, buf_ctor, pre=""):
    """edits that change how BufferProvider holds its bytes: member declaration, both constructors, the read callback"""
    return [(_V, _MEMBER, member), (_V, _READ_DIRECT, _READ_ARROW), (_V, _FILE_CTOR, file_ctor), (_V, _BUF_CTOR, buf_ctor)] + \
        ([(_V, _PROVIDER_AT, pre + _PROVIDER_AT)] if pre else [])


_VEC = "std::vector<std::uint8_t>"
# the shape of /verif/refactors/F-p3: key bound to a reference, outcome of the test assigned to a bool inside the lock scope
class _Fp3:
    def __mod__(self, test):
        return [(_V, "  {\n    std::lock_guard<std::mutex> lock(mutex_);\n    " + _TEST + "\n  }\n",
                 "  const std::string& key = path.Str();\n  bool repeated = false;\n  {\n"
                 "    std::lock_guard<std::mutex> lock(mutex_);\n    " + test + "\n  }\n"
                 "  if (repeated) { return kRepeatedName; }\n"),
                (_V, "mounts_.emplace(path.Str(), std::move(res));", "mounts_.emplace(key, std::move(res));")]


_FP3 = _Fp3()
SELFTEST = {
    "lookup-with-raw-key": ([(_V, "return mounts_.contains(key);", "return mounts_.contains(filename);")],
                            "R-KEYNORM construct=VFS::ContainsFile(const char *, const char *):mounts_.contains"),
    "open-with-raw-name": ([(_V, "const mjResource* mount = FindMount(path);\n  if (!mount || !mount->provider) {",
                             "const mjResource* mount = FindMount(name);\n  if (!mount || !mount->provider) {")],
                           "R-KEYNORM construct=VFS::FindMount(const std::string &):mounts_.find#1"),
    "path-class-ctor-skips-normalisation": ([(_UH, "explicit FilePath(const char* str) { path_ = PathReduce(str); }",
                                              "explicit FilePath(const char* str) { path_ = str; }")],
                                            "R-KEYNORM construct=FilePath::FilePath(const char *):normalises"),
    "mutate-before-repeated-name": ([(_V, _TEST, "if (mounts_.contains(path.Str())) { mounts_.erase(path.Str()); "
                                      "return kRepeatedName; }")], f"R-ADDFIRST construct={_MOUNT}:return-repeated-name"),
    "reset-entry-before-repeated-name": ([(_V, _TEST, "if (auto it = mounts_.find(path.Str()); it != mounts_.end()) "
                                           "{ it->second.reset(); return kRepeatedName; }")],
                                         f"R-ADDFIRST construct={_MOUNT}:return-repeated-name"),
    "overwrite-without-test": ([(_V, "    " + _TEST + "\n", ""),
                                (_V, "mounts_.emplace(path.Str(), std::move(res));",
                                 "mounts_.insert_or_assign(path.Str(), std::move(res));")],
                               f"R-ADDFIRST construct={_MOUNT}:mounts_.insert_or_assign"),
    "repeated-name-code-dropped-by-wrapper": ([(_V, "    if (status != mujoco::user::VFS::kSuccess) { delete provider; }\n"
                                                "    return static_cast<int>(status);",
                                                "    if (status != mujoco::user::VFS::kSuccess) { delete provider; return -1; }\n"
                                                "    return static_cast<int>(status);")], "returns-status-unchanged"),
    "delete-absent-reports-success": ([(_V, "    return kSuccess;\n  }\n  return kInvalidResourceProvider;\n}",
                                        "    return kSuccess;\n  }\n  return kSuccess;\n}")],
                                      f"R-DELRESULT construct={_UNMOUNT}:return kSuccess"),
    "delete-api-ignores-result": ([(_V, "    return mj_unmountVFS(vfs, path.StripPath().Lower().c_str());\n  }",
                                    "    mj_unmountVFS(vfs, path.StripPath().Lower().c_str());\n  }")],
                                  "R-DELRESULT construct=mj_deleteFileVFS:result-derived-from-unmount"),
    "read-returns-other-size": ([(_V, "return static_cast<int>(self->contents_.size());\n    };",
                                  "return static_cast<int>(self->contents_.size()) - 1;\n    };")], "read-callback"),
    "copy-loop-skips-byte": ([(_V, "    for (size_t i = 0; i < n; i++) {\n      contents_.push_back(src_bytes[i]);",
                               "    for (size_t i = 1; i < n; i++) {\n      contents_.push_back(src_bytes[i]);")],
                             "copies-n-bytes"),
    "control-rename-locals": ([(_V, "std::string str = fullpath;", "std::string cur = fullpath;"),
                               (_V, "while (!str.empty()) {\n    auto it = mounts_.find(str);",
                                "while (!cur.empty()) {\n    auto it = mounts_.find(cur);"),
                               (_V, "std::size_t n = str.find_last_of(\"/\\\\\");\n    if (n == std::string::npos) {\n      str = \"\";\n"
                                "    } else {\n      str = str.substr(0, n);",
                                "std::size_t n = cur.find_last_of(\"/\\\\\");\n    if (n == std::string::npos) {\n      cur = \"\";\n"
                                "    } else {\n      cur = cur.substr(0, n);")], None),
    "control-rename-member": ([(_V, "mounts_", "table_"), (_VH, "mounts_", "table_")], None),
    "control-reorder": ([(_V, "  VFS::Status status        = kInvalidResource;\n  bool        last_resource = false;",
                          "  bool        last_resource = false;\n  VFS::Status status        = kInvalidResource;"),
                         (_V, "    if (it->second->provider->unmount) { it->second->provider->unmount(it->second.get()); }\n"
                          "    mounts_.erase(it);",
                          "    auto* r = it->second.get();\n    if (r->provider->unmount) { r->provider->unmount(r); }\n"
                          "    mounts_.erase(it);")], None),
    "control-extract-helper": ([(_V, _TEST, "if (HasMount(path.Str())) { return kRepeatedName; }"),
                                (_V, "bool VFS::ContainsFile(const char* directory", "bool VFS::HasMount(const std::string& key) "
                                 "{ return mounts_.contains(key); }\n\nbool VFS::ContainsFile(const char* directory"),
                                (_VH, "  mjResource* FindMount(const std::string& fullpath);",
                                 "  mjResource* FindMount(const std::string& fullpath);\n  bool HasMount(const std::string& key);")],
                               None),
    "control-read-named-function": (_NAMED_READ + [(_V, _PRIVATE_AT, _READ_FN % "")], None),
    "named-read-returns-other-size": (_NAMED_READ + [(_V, _PRIVATE_AT, _READ_FN % " - 1")], "read-callback"),
    "named-read-exposes-other-member": (_NAMED_READ + [(_V, _PRIVATE_AT, (_READ_FN % "").replace(
        "reinterpret_cast<void*>(self->contents_.data())", "reinterpret_cast<void*>(&self->hash_)"))], "read-callback"),
    "control-extract-parent-path": ([(_V, _STRIP_STEP, _STRIP_FOR), (_V, _NS_END, _PARENT_FN % "")], None),
    "parent-path-helper-denormalises": ([(_V, _STRIP_STEP, _STRIP_FOR), (_V, _NS_END, _PARENT_FN % " + \"/\"")],
                                        "R-KEYNORM construct=VFS::FindMount(const std::string &):mounts_.find#1"),
    "control-early-return-unmount": ([(_V, _UNMOUNT_BODY, _UNMOUNT_EARLY % "kInvalidResourceProvider"),
                                      (_V, _DELFILE, _DELFILE_EARLY % "  return mj_unmountVFS(vfs, path.StripPath().Lower().c_str());\n"),
                                      (_V, "  if (resource && resource->provider && resource->provider->read) {\n"
                                       "    return resource->provider->read(resource, buffer);\n  }\n  return kFailedToRead;",
                                       "  if (!resource || !resource->provider || !resource->provider->read) { return kFailedToRead; }\n"
                                       "  return resource->provider->read(resource, buffer);")], None),
    "early-return-unmount-absent-reports-success": ([(_V, _UNMOUNT_BODY, _UNMOUNT_EARLY % "kSuccess")],
                                                    f"R-DELRESULT construct={_UNMOUNT}:return kSuccess"),
    "early-return-delete-ignores-result": ([(_V, _DELFILE, _DELFILE_EARLY % "  mj_unmountVFS(vfs, path.StripPath().Lower().c_str());\n"
                                             "  return mujoco::user::VFS::kSuccess;\n")],
                                           "R-DELRESULT construct=mj_deleteFileVFS:result-derived-from-unmount"),
    "control-presence-in-bool-local": ([(_V, "    " + _TEST, "    const bool known = mounts_.contains(path.Str());\n"
                                         "    if (known) { return kRepeatedName; }")], None),
    "stale-presence-local": ([(_V, "    " + _TEST, "    const bool known = mounts_.contains(path.Str());\n"
                               "    mounts_.erase(path.Str());\n    if (known) { return kRepeatedName; }")],
                             f"R-ADDFIRST construct={_MOUNT}:return-repeated-name"),
    "control-copy-loop-while": ([(_V, _COPY_FOR, _COPY_WHILE % "0")], None),
    "copy-loop-while-skips-byte": ([(_V, _COPY_FOR, _COPY_WHILE % "1")], "copies-n-bytes"),
    "control-key-in-local": ([(_V, "    " + _TEST + "\n  }", "    " + _TEST + "\n  }\n  const std::string& key = path.Str();"),
                              (_V, "mounts_.emplace(path.Str(), std::move(res));", "mounts_.emplace(key, std::move(res));")], None),
    "control-presence-assigned-to-bool-local": (_FP3 % "repeated = mounts_.find(key) != mounts_.end();", None),
    "control-presence-count-assigned-to-bool-local": (_FP3 % "repeated = mounts_.count(key) > 0;", None),
    "assigned-presence-local-overwritten": (_FP3 % ("repeated = mounts_.find(key) != mounts_.end();\n"
                                                    "    repeated = repeated && provider->mount != nullptr;"),
                                            f"R-ADDFIRST construct={_MOUNT}:mounts_.emplace"),
    "assigned-presence-local-tests-other-key": (_FP3 % "repeated = mounts_.find(path.Lower().Str()) != mounts_.end();",
                                                f"R-ADDFIRST construct={_MOUNT}:mounts_.emplace"),
    "control-contents-owned-through-unique-ptr": (_held(
        "  std::unique_ptr<" + _VEC + "> contents_;\n",
        "    contents_ = std::make_unique<" + _VEC + ">(mujoco::user::FileToMemory(file_path.c_str()));\n\n"
        "    static constexpr std::uint64_t prime = 0x100000001b3;\n\n"
        "    hash_ = contents_->empty() ? 0 : 0xcbf29ce484222325;\n    for (const std::uint8_t& byte : *contents_) {\n",
        "    contents_ = std::make_unique<" + _VEC + ">();\n    contents_->reserve(n);\n" +
        _COPY_FOR.replace("contents_.push_back", "contents_->push_back")), None),
    "control-contents-single-owner-shared-ptr-range-copy": (_held(
        "  std::shared_ptr<const " + _VEC + "> contents_;\n",
        "    contents_ = std::make_shared<const " + _VEC + ">(mujoco::user::FileToMemory(file_path.c_str()));\n\n"
        "    static constexpr std::uint64_t prime = 0x100000001b3;\n\n"
        "    hash_ = contents_->empty() ? 0 : 0xcbf29ce484222325;\n    for (const std::uint8_t& byte : *contents_) {\n",
        "    contents_ = std::make_shared<const " + _VEC + ">(src_bytes, src_bytes + n);\n" + _HASH_LOOP), None),
    "contents-interned-in-pool-keyed-by-digest": (_held(
        "  ContentPool::Handle contents_;\n",
        "    ContentPool::Contents contents = mujoco::user::FileToMemory(file_path.c_str());\n\n"
        "    static constexpr std::uint64_t prime = 0x100000001b3;\n\n"
        "    hash_ = contents.empty() ? 0 : 0xcbf29ce484222325;\n    for (const std::uint8_t& byte : contents) {\n",
        _HASH_LOOP + "    contents_ = ContentPool::Intern(ContentPool::Contents(src_bytes, src_bytes + n), hash_);\n",
        pre=_POOL) + [(_V, "      hash_ *= prime;\n    }\n  }\n\n  BufferProvider(const char* name, const void* src, size_t n) {",
                       "      hash_ *= prime;\n    }\n    contents_ = ContentPool::Intern(std::move(contents), hash_);\n  }\n\n"
                       "  BufferProvider(const char* name, const void* src, size_t n) {")],
        "R-READBACK construct=BufferProvider:contents-private-copy"),
    "unique-ptr-contents-copy-skips-byte": (_held(
        "  std::unique_ptr<" + _VEC + "> contents_;\n",
        "    contents_ = std::make_unique<" + _VEC + ">(mujoco::user::FileToMemory(file_path.c_str()));\n\n"
        "    static constexpr std::uint64_t prime = 0x100000001b3;\n\n"
        "    hash_ = contents_->empty() ? 0 : 0xcbf29ce484222325;\n    for (const std::uint8_t& byte : *contents_) {\n",
        "    contents_ = std::make_unique<" + _VEC + ">();\n    contents_->reserve(n);\n" +
        _COPY_FOR.replace("contents_.push_back", "contents_->push_back").replace("size_t i = 0;", "size_t i = 1;")),
        "copies-n-bytes"),
    "memo-not-invalidated-on-mount": (_MEMO_BASE + [(_V, _ERASE_UNMOUNT, _ERASE_UNMOUNT + "    mount_cache_.clear();\n")],
                                      f"R-DERIVED construct={_MOUNT}:mounts_.emplace invalidates mount_cache_"),
    "memo-only-one-key-removed-on-unmount": (_MEMO_BASE + [(_V, _EMPLACE_MOUNT, _EMPLACE_MOUNT + "  mount_cache_.clear();\n"),
                                                          (_V, _ERASE_UNMOUNT, _ERASE_UNMOUNT + "    mount_cache_.erase(path.Str());\n")],
                                             f"R-DERIVED construct={_UNMOUNT}:mounts_.erase invalidates mount_cache_"),
    "memo-not-invalidated-by-implicit-mount": (_MEMO_DECL + _MEMO_FIND + [
        (_V, _EMPLACE_MOUNT, _EMPLACE_MOUNT + "  mount_cache_.clear();\n"),
        (_V, _ERASE_UNMOUNT, _ERASE_UNMOUNT + "    mount_cache_.clear();\n")],
        "R-DERIVED construct=VFS::FindMount(const std::string &):mounts_.emplace invalidates mount_cache_"),
    "control-memo-emptied-by-every-mutator": (_MEMO_BASE + [(_V, _EMPLACE_MOUNT, _EMPLACE_MOUNT + "  mount_cache_.clear();\n"),
                                                           (_V, _ERASE_UNMOUNT, _ERASE_UNMOUNT + "    mount_cache_.clear();\n")], None),
    "control-memo-emptied-through-helper-before-the-change": (
        _MEMO_BASE + _FORGET_DECL + [(_V, _EMPLACE_MOUNT, "  ForgetLookups();\n" + _EMPLACE_MOUNT),
                                     (_V, _ERASE_UNMOUNT, _ERASE_UNMOUNT + "    ForgetLookups();\n")], None),
    "control-exact-key-cache-affected-key-removed": (_CC_BASE + [(_V, _EMPLACE_MOUNT, _EMPLACE_MOUNT +
                                                                   "  contains_cache_.erase(path.Str());\n")], None),
    "exact-key-cache-keeps-negative-answer-on-mount": (_CC_BASE, f"R-DERIVED construct={_MOUNT}:mounts_.emplace invalidates "
                                                                 "contains_cache_"),
    "delete-tries-legacy-key-first": ([(_V, _DELFILE, "  mujoco::user::FilePath path(filename);\n"
                                        "  if (mj_unmountVFS(vfs, path.StripPath().Lower().c_str()) != 0) {\n"
                                        "    return mj_unmountVFS(vfs, filename);\n  }\n"
                                        "  return mujoco::user::VFS::kSuccess;\n}")],
                                      "R-DELEXACT construct=mj_deleteFileVFS:exact-name-first"),
    "delete-tries-legacy-key-whatever-the-exact-attempt-did": ([(_V, _DELFILE, "  mj_unmountVFS(vfs, filename);\n"
                                                                 "  mujoco::user::FilePath path(filename);\n"
                                                                 "  return mj_unmountVFS(vfs, path.StripPath().Lower().c_str());\n}")],
                                                               "R-DELEXACT construct=mj_deleteFileVFS:exact-name-first"),
    "delete-legacy-key-when-legacy-present": ([(_V, _DEL_HEAD + _DELFILE, _DEL_HEAD + _DEL_IMPL +
                                                "  const mujoco::user::FilePath legacy = path.StripPath().Lower();\n"
                                                "  if (impl->ContainsBuffer(legacy.c_str())) { return static_cast<int>(impl->Unmount(legacy)); }\n"
                                                "  return static_cast<int>(impl->Unmount(path));\n}")],
                                              "R-DELEXACT construct=mj_deleteFileVFS:exact-name-first"),
    "control-delete-exact-presence-decides": ([(_V, _DEL_HEAD + _DELFILE, _DEL_HEAD + _DEL_IMPL +
                                                "  if (impl->ContainsBuffer(filename)) { return static_cast<int>(impl->Unmount(path)); }\n"
                                                "  return static_cast<int>(impl->Unmount(path.StripPath().Lower()));\n}")], None),
    "control-delete-status-in-local": ([(_V, _DELFILE, "  int status = mj_unmountVFS(vfs, filename);\n  if (status != 0) {\n"
                                         "    mujoco::user::FilePath path(filename);\n"
                                         "    status = mj_unmountVFS(vfs, path.StripPath().Lower().c_str());\n  }\n"
                                         "  return status;\n}")], None),
    "control-delete-conditional-expression": ([(_V, _DELFILE, "  return mj_unmountVFS(vfs, filename) == 0\n             ? 0\n"
                                                "             : mj_unmountVFS(vfs, mujoco::user::FilePath(filename).StripPath().Lower().c_str());\n}")],
                                              None),
    "control-delete-through-helpers": ([(_V, _DEL_FN + _DEL_HEAD + _DELFILE,
                                         "static std::string LegacyKey(const char* name) {\n"
                                         "  return mujoco::user::FilePath(name).StripPath().Lower().Str();\n}\n\n"
                                         "static int DeleteByName(mjVFS* vfs, const char* name) {\n"
                                         "  const bool gone = mj_unmountVFS(vfs, name) == 0;\n  if (gone) { return 0; }\n"
                                         "  return mj_unmountVFS(vfs, LegacyKey(name).c_str());\n}\n\n" + _DEL_FN + _DEL_HEAD +
                                         "  return DeleteByName(vfs, filename);\n}")], None),
    "helper-delete-reports-success-for-absent-name": ([(_V, _DEL_FN + _DEL_HEAD + _DELFILE,
                                                        "static int DeleteByName(mjVFS* vfs, const char* name) {\n"
                                                        "  if (mj_unmountVFS(vfs, name) == 0) { return 0; }\n"
                                                        "  mujoco::user::FilePath path(name);\n"
                                                        "  mj_unmountVFS(vfs, path.StripPath().Lower().c_str());\n  return 0;\n}\n\n" +
                                                        _DEL_FN + _DEL_HEAD + "  return DeleteByName(vfs, filename);\n}")],
                                                      "R-DELRESULT construct=mj_deleteFileVFS:result-derived-from-unmount"),
}


def selftest(res):
    from .c38 import run_selftest
    run_selftest("C39", SELFTEST, res, rename=lambda g: g.replace("table_", "mounts_"))
