"""C39 Virtual file system operations have set semantics.

Decided, from the clang AST of src/user/user_vfs.{cc,h}, user_util.{cc,h} (key class) and
user_resource.cc (resource API):

R-KEYNORM   every access to the string-keyed table(s) of class VFS (find/contains/count/at/[]/
            emplace/insert/try_emplace/insert_or_assign/erase/extract) is enumerated and the
            provenance of its key expression is computed (locals through their definitions,
            parameters of private/internal functions through every call site, results of internal
            helper functions that only read their string arguments through their return
            statements, substr/copy transparent).  A key must be the string of an object of the path class (normalised by
            construction, see below) or the provider prefix, and its provenance class must also
            be used at an insertion; a raw `const char*`/string parameter of an entry point
            reaching a table access is a violation.  The path class invariant is checked on its
            own source: every public constructor taking strings assigns the string member from
            the same normalising function, the non-normalising factory is private and only fed
            from the (already normalised) member.
R-ADDFIRST  every insertion into the table is non-overwriting and dominated, on every path, by a
            containment test of the same key with negative outcome; in the add path the positive
            outcome returns the repeated-name code (== 2 as documented in mujoco.h) with no write to
            the table or through the found entry before that return; the C wrappers return that
            status unchanged.
R-DELRESULT the unmount path returns success only on paths that erased the entry it found and a
            failure code (== -1 as documented) on every path where the lookup found nothing;
            mj_unmountVFS / mj_deleteFileVFS return values derived from that result only.
R-READBACK  the buffer provider's read callback (a lambda, or a named function / static member
            function of the file, stored in `read`) returns data()/size() of one member of the
            provider object reached from the resource; that member is written only in the
            provider's constructors (which copy exactly the n source bytes); VFS::Read and
            mju_readResource pass buffer pointer and result through unchanged.
Not decided: behaviour over histories (which of several entries a prefix/legacy lookup picks),
concurrent add/add races (the containment test and the emplace are in two lock scopes), the
write path (mju_writeResource is not one of the property's operations; listed in the evidence).
"""
from __future__ import annotations

import os
import re

from .. import cfront, cir, cxx2, paths
from ..cfront import AnalysisError
from ..cxx2 import etext

TU = "src/user/user_vfs.cc"
UTIL_TU = "src/user/user_util.cc"
RES_TU = "src/user/user_resource.cc"
API_HEADER = "include/mujoco/mujoco.h"
VFSCLS = "VFS"
KEYCLS = "FilePath"
API = ("mj_addBufferVFS", "mj_addFileVFS", "mj_deleteFileVFS", "mj_containsBufferVFS", "mj_containsFileVFS",
       "mj_mountVFS", "mj_unmountVFS")
ANCHOR_METHODS = ("Mount", "Unmount", "ContainsBuffer", "ContainsFile", "Open", "Read")
MAPS = ("std::unordered_map", "std::map")
KEYED_OPS = ("find", "contains", "count", "at", "emplace", "insert", "try_emplace", "insert_or_assign", "erase",
             "extract", "equal_range")
INSERT_OPS = ("emplace", "insert", "try_emplace")
OVERWRITE_OPS = ("insert_or_assign", "[]", "at")
MUTATING_OPS = INSERT_OPS + ("insert_or_assign", "erase", "clear", "extract", "swap", "merge", "[]")
KEYLESS_OPS = ("begin", "end", "cbegin", "cend", "clear", "empty", "size")
# table accesses reached only through these public methods are outside the property's operations
OUT_OF_SCOPE = {"Write": "mju_writeResource/VFS::Write is not one of C39's operations (add, delete, lookup, read)"}


class Fn:
    def __init__(self, name, qual, node, kind, cls=None, access=None, internal=False, file=None):
        self.name, self.qual, self.node, self.kind = name, qual, node, kind
        self.cls, self.access, self.internal = cls, access, internal
        self.file = file or node.get("file")
        self.params = cir.params(node)


class World:
    """Functions of the VFS translation unit, call sites, parameter ownership."""

    def __init__(self):
        self.ir = cfront.load_tu(TU, lang="cxx", types=True)
        decls = self.ir["decls"]
        self.vfs = cxx2.ClassModel(decls, VFSCLS, TU)
        for a in ANCHOR_METHODS:
            self.vfs.require_method(a)
        self.fns = []
        self.by_decl = {}
        for m in self.vfs.methods.values():
            if m.node is not None and not m.implicit and not m.defaulted:
                f = Fn(m.name, m.qual, m.node, "method", self.vfs, m.access, internal=(m.access != "public"), file=m.file)
                f.method = m
                self.fns.append(f)
                self.by_decl[m.id] = f
                self.by_decl[m.node.get("id")] = f
        # other classes defined in the TU file (the buffer provider)
        self.local_classes = []
        for d, ns in cxx2.all_decls(decls):
            if d.get("k") == "CXXRecordDecl" and d.get("completeDefinition") and d.get("n") and \
                    (d.get("file") == TU) and d.get("n") != VFSCLS:
                cm = cxx2.ClassModel(decls, d["n"], TU)
                if cm.node is not d:
                    continue
                self.local_classes.append(cm)
                for m in cm.methods.values():
                    tmpl = getattr(m, "template", None)
                    if m.node is None or m.implicit or m.defaulted:
                        continue
                    if tmpl is not None and re.search(r"\bArgs\b|<dependent", m.type):
                        continue           # the uninstantiated pattern
                    f = Fn(m.name, m.qual, m.node, "method", cm, m.access, internal=True, file=TU)
                    f.method = m
                    self.fns.append(f)
                    self.by_decl[m.id] = f
        self.free = {}
        for d, ns in cxx2.all_decls(decls):
            if d.get("k") == "FunctionDecl" and cir.body(d) is not None and d.get("file") == TU:
                internal = "<anon>" in ns or d.get("storageClass") == "static"
                f = Fn(d.get("n"), d.get("n"), d, "function", None, None, internal=internal, file=TU)
                self.fns.append(f)
                self.free[d.get("n")] = f
                self.by_decl[d.get("id")] = f
        for a in API:
            if a not in self.free:
                raise AnalysisError(f"anchor function {a} not found in {TU}")
        self.param_owner = {}
        for f in self.fns:
            for i, p in enumerate(f.params):
                self.param_owner[p.get("id")] = (f, i)
        # lambdas: parameters of lambdas are owned by nobody (callbacks)
        self.calls = {}          # callee Fn -> [(caller Fn, call node, args)]
        for f in self.fns:
            for x in cxx2.walk(f.node):
                g = self.callee(x)
                if g is not None:
                    self.calls.setdefault(id(g), []).append((f, x, self.call_args(x)))
        # string-keyed tables
        self.tables = [fid for fid, fd in self.vfs.fields.items()
                       if cxx2.template_name(fd.get("t")) in MAPS and
                       (cxx2.template_args(fd.get("t")) or [""])[0] in ("std::string", "std::basic_string<char>")]
        if not self.tables:
            raise AnalysisError(f"{VFSCLS}: no string-keyed table member found")
        mx = [fid for fid, fd in self.vfs.fields.items() if cxx2.strip_cvref(fd.get("t")) == "std::mutex"]
        self.mutex = mx[0] if len(mx) == 1 else None

    def callee(self, x):
        if x is None:
            return None
        if x.get("k") == "CXXMemberCallExpr":
            c = cir.kids(x)
            f = cir.strip(c[0]) if c else None
            if f is not None and f.get("k") == "MemberExpr":
                return self.by_decl.get(f.get("mid"))
            return None
        if x.get("k") == "CallExpr":
            c = cir.kids(x)
            f = cir.strip(c[0]) if c else None
            if f is not None and f.get("k") == "DeclRefExpr":
                r = f.get("ref") or {}
                g = self.by_decl.get(r.get("id"))
                if g is not None:
                    return g
                if r.get("k") == "FunctionDecl":
                    return self.free.get(r.get("n"))
            return None
        if x.get("k") in ("CXXConstructExpr", "CXXTemporaryObjectExpr", "CXXNewExpr"):
            return None
        return None

    @staticmethod
    def call_args(x):
        return [a for a in cir.kids(x)[1:]]

    def tname(self, fid):
        return self.vfs.fname(fid)


# ------------------------------------------------------------------------------------- key class invariant

def check_key_class(res):
    """The path class normalises in every public constructor; un-normalised construction is private."""
    ir = cfront.load_tu(UTIL_TU, lang="cxx", filt=KEYCLS)
    K = cxx2.ClassModel(ir["decls"], KEYCLS, UTIL_TU)
    sf = [fid for fid, f in K.fields.items() if cxx2.strip_cvref(f.get("t")) in ("std::string", "std::basic_string<char>")]
    if len(sf) != 1:
        raise AnalysisError(f"{KEYCLS}: expected exactly one string member, found {len(sf)}")
    pf = sf[0]
    accessors = set()
    for m in K.methods.values():
        if m.node is None:
            continue
        if K.returned_field(m) == pf:
            accessors.add(m.name)
        else:
            b = m.body
            rets = [x for x in cxx2.walk(b) if x.get("k") == "ReturnStmt"] if b else []
            if len(rets) == 1:
                e = cxx2.skip(cir.kids(rets[0])[0]) if cir.kids(rets[0]) else None
                if e is not None and e.get("k") == "CXXMemberCallExpr":
                    r = cxx2.receiver(e)
                    if r and r[2] in ("c_str", "data") and cxx2.field_of(r[0]) == pf:
                        accessors.add(m.name)

    def source_call(e):
        """Name of the own static/member function whose result initialises the member, else None."""
        e = cxx2.skip(e)
        if e is not None and e.get("k") in ("CallExpr", "CXXMemberCallExpr"):
            nm = cir.callee(e)
            if nm and any(m.name == nm for m in K.methods.values()):
                return nm
        return None
    norm = {}
    raw_ctor = []
    for m in K.methods.values():
        if m.kind != "CXXConstructorDecl" or m.node is None or m.defaulted or m.implicit or m.deleted:
            continue
        ps = m.params()
        if not ps:
            continue
        src = None
        ini = K.ctor_inits(m).get(pf) if any(c and c.get("k") == "CXXCtorInitializer" for c in cir.kids(m.node)) else None
        if ini is not None and ini.get("k") not in ("CXXConstructExpr",) or (ini is not None and cxx2.real_args(ini)):
            src = source_call(ini)
        ws = [w for w in K.field_writes(m) if w[0] == pf]
        for _, node, rhs in ws:
            src = source_call(rhs)
        if m.access == "public":
            norm[m.qual] = (src, m)
    fns = {s for s, _ in norm.values()}
    res.rule("R-KEYNORM", "every table access key comes from the same normalisation (path-class string or provider "
             "prefix, matching an insertion); the path class normalises in every public constructor", floor=18)
    if len(fns) == 1 and None not in fns:
        normaliser = fns.pop()
    else:
        normaliser = None
        cnt = {}
        for s, _ in norm.values():
            if s:
                cnt[s] = cnt.get(s, 0) + 1
        if cnt:
            normaliser = max(cnt, key=cnt.get)
    for q, (src, m) in sorted(norm.items()):
        if src is not None and src == normaliser:
            res.ok("R-KEYNORM", f"{q}:normalises", {"via": src, "file": m.file, "line": m.line})
        else:
            res.bad("R-KEYNORM", f"{q}:normalises", m.file, m.line,
                    f"public constructor of {KEYCLS} stores the path without passing it through "
                    f"{normaliser or 'the normalising function'}() (got {src})")
    if not norm:
        raise AnalysisError(f"{KEYCLS}: no public string constructor found")
    nm = [m for m in K.methods.values() if m.name == normaliser]
    if not nm or nm[0].node is None:
        raise AnalysisError(f"{KEYCLS}::{normaliser} has no visible definition")
    # non-normalising writers of the member: must be private, and fed from the member itself
    raw_makers = []
    for m in K.user_methods():
        if m.kind == "CXXConstructorDecl":
            continue
        for f, node, rhs in K.field_writes(m):
            pass
        # writes through a local object (factory): `FilePath path; path.path_ = str;`
        for x in cxx2.walk(m.node):
            tgt = None
            if x.get("k") == "CXXOperatorCallExpr" and cxx2.op_name(x) == "=":
                tgt = cxx2.op_args(x)[0]
            elif x.get("k") == "BinaryOperator" and x.get("op") == "=":
                tgt = cir.kids(x)[0]
            if tgt is not None and cxx2.field_of(tgt) == pf:
                raw_makers.append(m)
                break
    for m in raw_makers:
        key = f"{m.qual}:private-factory"
        if m.access == "public":
            res.bad("R-KEYNORM", key, m.file, m.line,
                    f"{m.desc} builds a {KEYCLS} without normalising and is public")
        else:
            res.ok("R-KEYNORM", key, {"access": m.access})
    raw_names = {m.name for m in raw_makers}
    seen = set()
    for m in K.user_methods():
        for x in cxx2.walk(m.node):
            if x.get("k") in ("CallExpr", "CXXMemberCallExpr") and cir.callee(x) in raw_names:
                a = [y for y in cir.kids(x)[1:] if y is not None]
                ok_src = bool(a)
                for y in a:
                    y = cxx2.skip(y)
                    while y is not None and y.get("k") == "CallExpr" and cir.callee(y) in ("move", "forward"):
                        y = cxx2.skip(cir.args(y)[0])
                    base = y
                    while base is not None and base.get("k") == "CXXMemberCallExpr":
                        r = cxx2.receiver(base)
                        own = K.callee_method(base)
                        if own is not None:
                            base = {"k": "MemberExpr", "mid": pf} if pf in K.fields_read_by(own) else None
                            break
                        base = cxx2.skip(r[0]) if r and r[0] is not None else None
                    if cxx2.field_of(base) != pf:
                        ok_src = False
                n = sum(1 for s in seen if s.startswith(m.qual)) + 1
                key = f"{m.qual}:raw-factory-arg#{n}"
                seen.add(key)
                if ok_src:
                    res.ok("R-KEYNORM", key, {"arg": etext(a[0])})
                else:
                    res.bad("R-KEYNORM", key, m.file, x.get("line"),
                            f"{cir.callee(x)}() (no normalisation) is fed `{etext(a[0]) if a else ''}`, which is not "
                            f"derived from the already normalised member")
    return {"class": KEYCLS, "member": K.fname(pf), "normaliser": normaliser, "string_accessors": sorted(accessors),
            "raw_factories": sorted(raw_names)}


# ------------------------------------------------------------------------------------- provenance

class Prov:
    def __init__(self, W, keyinfo):
        self.W = W
        self.accessors = set(keyinfo["string_accessors"])
        self.oos = []

    def is_keycls(self, t):
        t = cxx2.strip_cvref(t or "")
        return t == KEYCLS or t.endswith("::" + KEYCLS)

    def is_strlike(self, t):
        """a type whose objects carry a key text and can be edited in place (strings, views are not editable, the path class)"""
        t = t or ""
        return "std::string" in t.replace("std::string_view", "") or "basic_string<" in t or self.is_keycls(t)

    def chain(self, obj):
        """Derivation chain of an object of the path class."""
        obj = cxx2.skip(obj)
        if obj is None:
            return "?"
        if obj.get("k") == "CXXMemberCallExpr":
            r = cxx2.receiver(obj)
            if r and r[0] is not None and self.is_keycls((cir.strip(r[0]) or {}).get("t")):
                return self.chain(r[0]) + "." + r[2]
        return KEYCLS

    def prov(self, e, fn, seen=None):
        seen = seen if seen is not None else set()
        e = cxx2.skip(e)
        if e is None:
            return {("unknown", "")}
        k = e.get("k")
        if k == "StringLiteral":
            return {("literal", str(e.get("v")))}
        if k == "ConditionalOperator":
            c = cir.kids(e)
            return self.prov(c[1], fn, seen) | self.prov(c[2], fn, seen)
        if k == "CXXMemberCallExpr":
            r = cxx2.receiver(e)
            if r and r[0] is not None:
                ot = (cxx2.skip(r[0]) or {}).get("t") or ""
                if self.is_keycls(ot):
                    if r[2] in self.accessors:
                        return {("norm", self.chain(r[0]) + "." + r[2])}
                    return {("unknown", etext(e))}
                if r[2] in ("substr", "c_str", "data"):
                    return self.prov(r[0], fn, seen)
            via = self.through_helper(e, seen)
            return via if via is not None else {("unknown", etext(e))}
        if k == "CallExpr":
            via = self.through_helper(e, seen)
            return via if via is not None else {("unknown", etext(e))}
        if k == "MemberExpr":
            c = cir.kids(e)
            base = cxx2.skip(c[0]) if c else None
            bt = cxx2.strip_cvref((base or {}).get("t") or "").replace("*", "").replace("struct ", "").strip()
            if e.get("n") == "prefix" and "ResourceProvider" in bt:
                return {("prefix", f"{bt}::prefix")}
            if base is not None and self.is_keycls(e.get("t")):
                return {("norm-object", f"{bt}::{e.get('n')}")}
            return {("field", f"{bt}::{e.get('n')}")}
        if k == "DeclRefExpr":
            ref = e.get("ref") or {}
            rid = ref.get("id")
            if ref.get("k") == "BindingDecl":
                return {("stored-key", ref.get("n"))}
            if ref.get("k") == "ParmVarDecl":
                own = self.W.param_owner.get(rid)
                if own is None:
                    return {("raw", f"<callback>:{ref.get('n')}")}
                g, idx = own
                if not g.internal:
                    return {("raw", f"{g.qual}:{ref.get('n')}")}
                if (id(g), idx) in seen:
                    return set()
                seen = seen | {(id(g), idx)}
                out = set()
                sites = self.W.calls.get(id(g), [])
                if not sites:
                    return {("raw", f"{g.qual}:{ref.get('n')} (no call site)")}
                for caller, node, args in sites:
                    if idx >= len(args):
                        out.add(("unknown", f"default argument of {g.qual}"))
                        continue
                    if caller.kind == "method" and caller.cls is self.W.vfs and caller.name in OUT_OF_SCOPE:
                        self.oos.append({"caller": caller.qual, "callee": g.qual, "arg": etext(args[idx]),
                                         "line": node.get("line"), "reason": OUT_OF_SCOPE[caller.name]})
                        continue
                    out |= self.prov(args[idx], caller, seen)
                return out
            if ref.get("k") == "VarDecl":
                if ("var", rid) in seen:
                    return set()
                seen = seen | {("var", rid)}
                out = set()
                found = False
                for x in cxx2.walk(fn.node):
                    if x.get("k") == "VarDecl" and x.get("id") == rid:
                        found = True
                        init = [c for c in cir.kids(x) if c is not None]
                        if init:
                            out |= self.prov(init[-1], fn, seen)
                        else:
                            out.add(("literal", '""'))
                    tgt = rhs = None
                    if x.get("k") == "CXXOperatorCallExpr" and cxx2.op_name(x) in ("=", "+="):
                        a = cxx2.op_args(x)
                        tgt, rhs = a[0], a[1]
                        if cxx2.op_name(x) == "+=":
                            rhs = {"k": "OpaqueAppend", "i": [a[1]]}
                    elif x.get("k") == "BinaryOperator" and x.get("op") == "=":
                        tgt, rhs = cir.kids(x)
                    if tgt is not None:
                        t = cxx2.skip(tgt)
                        if t is not None and t.get("k") == "DeclRefExpr" and (t.get("ref") or {}).get("id") == rid:
                            if rhs.get("k") == "OpaqueAppend":
                                out.add(("unknown", "appended: " + etext(rhs["i"][0])))
                            else:
                                out |= self.prov(rhs, fn, seen)
                if not found:
                    return {("unknown", f"global {ref.get('n')}")}
                return out
        if k in ("CXXConstructExpr", "CXXTemporaryObjectExpr"):
            return {("unknown", etext(e))}
        return {("unknown", etext(e))}

    def through_helper(self, call, seen):
        """Provenance of the result of a call of an internal function of this file: the union over what its return
        statements return (its parameters resolve through every call site, as for any internal function).  Only for
        helpers that cannot edit a string they were given (class-type parameters are const): a function that takes a
        string by value or by non-const reference may transform it in place, which provenance does not see."""
        g = self.W.callee(call)
        if g is None or not g.internal or cir.body(g.node) is None:
            return None
        for p_ in g.params:
            t = p_.get("t") or ""
            if self.is_strlike(t) and not t.startswith("const "):
                return None
        if ("fn", id(g)) in seen:
            return set()
        rets = [e for _, e in returns_of(g.node)]
        if not rets or any(e is None for e in rets):
            return None
        for e in rets:          # nor may it return a string object it could have edited after initialising it
            for y in cxx2.walk(e):
                r = (y.get("ref") or {}) if y.get("k") == "DeclRefExpr" else {}
                t = r.get("t") or ""
                if r.get("k") in ("VarDecl", "ParmVarDecl") and not t.startswith("const ") and self.is_strlike(t):
                    return None
        out = set()
        for e in rets:
            out |= self.prov(e, g, seen | {("fn", id(g))})
        return out

    def keycls_object_prov(self, obj, fn):
        """A path-class object is normalised by the class invariant whatever its origin."""
        return {("norm", self.chain(obj))}


def table_access(W, x):
    """(table field id, op, key expr or None) if x accesses a table of the VFS class."""
    if x.get("k") == "CXXMemberCallExpr":
        mf = cxx2.member_call_on_field(x)
        if mf and mf[0] in W.tables:
            a = cxx2.real_args(x)[1:]
            return mf[0], mf[1], (a[0] if a and mf[1] in KEYED_OPS else None)
    if x.get("k") == "CXXOperatorCallExpr":
        of = cxx2.op_call_on_field(x)
        if of and of[0] in W.tables and of[1] == "[]":
            return of[0], "[]", cxx2.op_args(x)[1]
    return None


def iterator_source(W, fn, arg):
    """If arg is an iterator variable initialised from table.find(k): the find call."""
    a = cxx2.skip(arg)
    if a is None or "iterator" not in (a.get("t") or ""):
        return None
    if a.get("k") == "DeclRefExpr":
        rid = (a.get("ref") or {}).get("id")
        for x in cxx2.walk(fn.node):
            if x.get("k") == "VarDecl" and x.get("id") == rid:
                init = [c for c in cir.kids(x) if c is not None]
                if init:
                    e = cxx2.skip(init[-1])
                    ta = table_access(W, e) if e is not None else None
                    if ta and ta[1] == "find":
                        return e
    return "unknown"


def check_keynorm(res, W, keyinfo):
    P = Prov(W, keyinfo)
    accesses = []
    for fn in W.fns:
        per = {}
        for x in cxx2.walk(fn.node):
            ta = table_access(W, x)
            if ta is None:
                # range-for over the table / passing the table itself
                continue
            fid, op, key = ta
            if op in KEYLESS_OPS:
                continue
            base = f"{fn.qual}:{W.tname(fid)}.{op}"
            per[base] = per.get(base, 0) + 1
            accesses.append([fn, x, fid, op, key, base, per[base]])
    counts = {}
    for a in accesses:
        counts[a[5]] = counts.get(a[5], 0) + 1
    rows = []
    for fn, x, fid, op, key, base, n in accesses:
        construct = base if counts[base] == 1 else f"{base}#{n}"
        if key is None:
            raise AnalysisError(f"{construct}: table operation without a key argument")
        it = iterator_source(W, fn, key)
        if it == "unknown":
            raise AnalysisError(f"{construct}: iterator argument whose origin is not a find() on the table")
        if it is not None:
            rows.append((construct, fn, x, fid, op, None, {("iterator", "from find()")}))
            continue
        kt = cxx2.skip(key)
        atoms = P.prov(key, fn)
        rows.append((construct, fn, x, fid, op, key, atoms))
    ins_kinds = {}
    for construct, fn, x, fid, op, key, atoms in rows:
        if op in INSERT_OPS + OVERWRITE_OPS:
            for a in atoms:
                ins_kinds.setdefault(fid, set()).add(a[0])
    table_rows = []
    for construct, fn, x, fid, op, key, atoms in rows:
        kinds = {a[0] for a in atoms}
        table_rows.append({"construct": construct, "key": etext(key) if key is not None else "<iterator>",
                           "provenance": sorted(f"{a[0]}:{a[1]}" for a in atoms), "line": x.get("line")})
        file = fn.file or TU
        if not atoms:
            if P.oos:
                res.ok("R-KEYNORM", construct, {"note": "reached only from out-of-scope callers"})
                continue
            raise AnalysisError(f"{construct}: no provenance found for key `{etext(key)}`")
        bad = []
        for a in sorted(atoms):
            if a[0] in ("norm", "iterator"):
                continue
            if a[0] == "prefix":
                if "prefix" not in ins_kinds.get(fid, set()):
                    bad.append(f"provider-prefix key but no insertion uses a provider prefix")
                continue
            if a[0] == "literal" and a[1] in ('""',):
                continue
            if a[0] == "raw":
                bad.append(f"raw, un-normalised `{a[1]}`")
            elif a[0] == "field":
                bad.append(f"un-normalised field `{a[1]}`")
            else:
                bad.append(f"unclassified key source `{a[1]}` ({a[0]})")
        if "norm" in kinds and "norm" not in ins_kinds.get(fid, set()) and op not in INSERT_OPS:
            bad.append("normalised key but no insertion uses a normalised key")
        if bad:
            normed = sorted(f"{r[0]}" for r in rows if r[4] in INSERT_OPS and any(a[0] == "norm" for a in r[6]))
            res.bad("R-KEYNORM", construct, file, x.get("line"),
                    f"`{W.tname(fid)}.{op}({etext(key)})` uses a key that did not go through the normalisation used at "
                    f"insertion ({'; '.join(bad)}); insertions normalise: {normed}")
        else:
            res.ok("R-KEYNORM", construct, {"key": etext(key) if key is not None else "<iterator>",
                                            "provenance": sorted(f"{a[0]}:{a[1]}" for a in atoms)})
    # keyless scans that compare keys: both sides must go through the same function
    for fn in W.fns:
        for loop in cxx2.walk(fn.node):
            if loop.get("k") != "CXXForRangeStmt":
                continue
            c = cir.kids(loop)
            rng = [d for pre in c[:-1] if pre and pre.get("k") == "DeclStmt" for d in cir.kids(pre)
                   if d and d.get("isImplicit") and (d.get("n") or "").startswith("__range")]
            if not rng or cxx2.field_of([y for y in cir.kids(rng[0]) if y][-1]) not in W.tables:
                continue
            binds = cxx2.range_vars(loop)
            cmps = []
            for x in cxx2.walk(c[-1]):
                if x.get("k") == "CXXOperatorCallExpr" and cxx2.op_name(x) in ("==", "!="):
                    a, b = cxx2.op_args(x)
                    if cxx2.words(etext(a)) & binds or cxx2.words(etext(b)) & binds:
                        cmps.append((x, a, b))
            construct = f"{fn.qual}:{W.tname(cxx2.field_of([y for y in cir.kids(rng[0]) if y][-1]))} scan"
            if not cmps:
                res.ok("R-KEYNORM", construct, {"note": "iteration without key comparison"})
                continue
            for x, a, b in cmps:
                def fn_of(e, depth=0):
                    e = cxx2.skip(e)
                    if e is not None and e.get("k") == "CallExpr":
                        return cir.callee(e)
                    if e is not None and e.get("k") == "DeclRefExpr" and (e.get("ref") or {}).get("k") == "VarDecl" and depth < 2:
                        for y in cxx2.walk(fn.node):
                            if y.get("k") == "VarDecl" and y.get("id") == e["ref"]["id"]:
                                init = [z for z in cir.kids(y) if z is not None]
                                if init:
                                    return fn_of(init[-1], depth + 1)
                    return None
                fa, fb = fn_of(a), fn_of(b)
                if fa is not None and fa == fb:
                    res.ok("R-KEYNORM", construct, {"both_sides": fa, "line": x.get("line")})
                else:
                    res.bad("R-KEYNORM", construct, fn.file or TU, x.get("line"),
                            f"stored keys are compared with a query normalised differently ({fa} vs {fb})")
    res.extra["table_accesses"] = table_rows
    res.extra["out_of_scope_accesses"] = P.oos
    res.count("table_accesses", len(rows))
    return rows


# ------------------------------------------------------------------------------------- path rules

_ASSIGNED = {}


def assigned_vars(fn_node):
    """ids of variables/parameters that are (re)assigned, incremented or have their address taken in a function."""
    got = _ASSIGNED.get(id(fn_node))
    if got is not None:
        return got
    out = set()
    for x in cxx2.walk(fn_node):
        tgt = None
        if x.get("k") in ("BinaryOperator", "CompoundAssignOperator") and (x.get("op") or "").endswith("=") and \
                x.get("op") not in ("==", "!=", "<=", ">="):
            tgt = cir.kids(x)[0]
        elif x.get("k") == "CXXOperatorCallExpr" and (cxx2.op_name(x) or "").endswith("=") and \
                cxx2.op_name(x) not in ("==", "!=", "<=", ">="):
            tgt = cxx2.op_args(x)[0]
        elif x.get("k") == "UnaryOperator" and x.get("op") in ("++", "--", "&"):
            tgt = cir.kids(x)[0]
        if tgt is not None:
            t = cxx2.skip(tgt)
            if t is not None and t.get("k") == "DeclRefExpr":
                out.add((t.get("ref") or {}).get("id"))
    _ASSIGNED[id(fn_node)] = out
    return out


def stable_expand(fn_node, e):
    """Replace a never-reassigned local by its initialiser when that initialiser only mentions
    never-reassigned variables (so both denote the same value everywhere in the function)."""
    asg = assigned_vars(fn_node)
    e = cxx2.skip(e)
    for _ in range(4):
        if e is None or e.get("k") != "DeclRefExpr" or (e.get("ref") or {}).get("k") != "VarDecl":
            break
        rid = e["ref"]["id"]
        if rid in asg:
            break
        init = None
        for x in cxx2.walk(fn_node):
            if x.get("k") == "VarDecl" and x.get("id") == rid:
                c = [y for y in cir.kids(x) if y is not None]
                init = c[-1] if c else None
        if init is None:
            break
        free = {(y.get("ref") or {}).get("id") for y in cxx2.walk(init) if y.get("k") == "DeclRefExpr" and
                (y.get("ref") or {}).get("k") in ("VarDecl", "ParmVarDecl")}
        if free & asg:
            break
        e = cxx2.skip(init)
    return e


def keytext(fn_node, e):
    return etext(stable_expand(fn_node, e))


def presence_test(W, s, defs, fn_node=None):
    """(table, key text, True if cond true means present) for contains()/find()!=end()/it!=end()."""
    if s is None:
        return None
    if s.get("k") == "CXXMemberCallExpr":
        ta = table_access(W, s)
        if ta and ta[1] in ("contains", "count"):
            return ta[0], keytext(fn_node, ta[2]), True
        # an internal predicate whose body is `return <presence test on a parameter>;`
        g = W.callee(s)
        if g is not None and g.internal:
            rets = returns_of(g.node)
            if len(rets) == 1 and rets[0][1] is not None:
                core, neg = cxx2.cond_core(rets[0][1])
                inner = presence_test(W, core, {}, g.node)
                if inner is not None:
                    names = [p.get("n") for p in g.params]
                    args = W.call_args(s)
                    if inner[1] in names and names.index(inner[1]) < len(args):
                        return inner[0], keytext(fn_node, args[names.index(inner[1])]), inner[2] != neg
    if s.get("k") == "CXXOperatorCallExpr" and cxx2.op_name(s) in ("==", "!="):
        a, b = (cxx2.skip(x) for x in cxx2.op_args(s))
        sides = []
        for y in (a, b):
            ta = table_access(W, y) if y is not None and y.get("k") == "CXXMemberCallExpr" else None
            if ta and ta[1] in ("end", "cend"):
                sides.append(("end", ta[0], None))
                continue
            if ta and ta[1] == "find":
                sides.append(("find", ta[0], keytext(fn_node, ta[2])))
            elif y is not None and y.get("k") == "DeclRefExpr" and (y.get("ref") or {}).get("id") in defs:
                sides.append(("find",) + defs[y["ref"]["id"]])
            else:
                sides.append((None, None, None))
        kinds = {x[0] for x in sides}
        if kinds == {"find", "end"}:
            f = [x for x in sides if x[0] == "find"][0]
            return f[1], f[2], cxx2.op_name(s) == "!="
    return None


class AddRule(paths.Rule):
    """Facts about containment tests; insertion must be dominated by `absent`; the repeated-name return
    by `present` with no mutation in between."""

    def __init__(self, W, fn, repeated_id, status_return):
        self.W, self.fn, self.repeated_id, self.status_return = W, fn, repeated_id, status_return
        self.ins_sites = {}
        self.rep_sites = {}
        self.ins_keys = set()
        for x in cxx2.walk(fn.node):
            ta = table_access(W, x)
            if ta and ta[1] in INSERT_OPS + OVERWRITE_OPS and ta[2] is not None:
                self.ins_keys.add((ta[0], keytext(fn.node, ta[2])))

    def initial(self, fn):
        # (facts {(table, key, present?)}, iterator defs {(var id, table, key)}, mutated?)
        return (frozenset(), frozenset(), False)

    def assign(self, st, node, ctx):
        facts, defs, mut = st
        if node.get("k") == "VarDecl":
            init = [c for c in cir.kids(node) if c is not None]
            e = cxx2.skip(init[-1]) if init else None
            ta = table_access(self.W, e) if e is not None and e.get("k") == "CXXMemberCallExpr" else None
            defs = frozenset(d for d in defs if d[0] != node.get("id"))
            if ta and ta[1] == "find":
                defs = defs | {(node.get("id"), ta[0], keytext(self.fn.node, ta[2]))}
            elif e is not None and node.get("id") not in assigned_vars(self.fn.node):
                # `const bool known = table.contains(k);` -- the local stands for the test until the table changes
                core, neg = cxx2.cond_core(e)
                pt = presence_test(self.W, core, {d[0]: (d[1], d[2]) for d in defs if len(d) == 3}, self.fn.node)
                if pt is not None:
                    defs = defs | {(node.get("id"), pt[0], pt[1], pt[2] != neg)}
            nm = node.get("n")
            facts = frozenset(f for f in facts if nm not in cxx2.words(f[1]))
            defs = frozenset(d for d in defs if len(d) == 3 or d[0] == node.get("id") or nm not in cxx2.words(d[2]))
            return (facts, defs, mut)
        c = cir.kids(node)
        tgt = cir.strip(c[0]) if c else None
        if tgt is not None and tgt.get("k") == "DeclRefExpr":
            nm = (tgt.get("ref") or {}).get("n")
            facts = frozenset(f for f in facts if nm not in cxx2.words(f[1]))
            defs = frozenset(d for d in defs if len(d) == 3 or nm not in cxx2.words(d[2]))
        return (facts, defs, mut)

    def branch(self, st, cond, taken, ctx):
        facts, defs, mut = st
        s, neg = cxx2.cond_core(cond)
        if neg:
            taken = not taken
        pt = presence_test(self.W, s, {d[0]: (d[1], d[2]) for d in defs if len(d) == 3}, self.fn.node)
        if pt is None and s is not None and s.get("k") == "DeclRefExpr":
            for d in defs:
                if len(d) == 4 and d[0] == (s.get("ref") or {}).get("id"):
                    pt = d[1:]
        if pt is None:
            return st
        t, key, pos = pt
        present = (pos == taken)
        facts = frozenset(f for f in facts if not (f[0] == t and f[1] == key)) | {(t, key, present)}
        return (facts, defs, mut)

    def call(self, st, node, name, ctx):
        facts, defs, mut = st
        W = self.W
        ta = table_access(W, node)
        if ta is not None:
            t, op, key = ta
            if op in INSERT_OPS + OVERWRITE_OPS and key is not None and op != "at":
                kt = keytext(self.fn.node, key)
                construct = f"{self.fn.qual}:{W.tname(t)}.{op}"
                self.ins_sites.setdefault(construct, node)
                if (t, kt, False) not in facts:
                    what = "can overwrite an existing entry and " if op in OVERWRITE_OPS else ""
                    ctx.report(node, f"`{W.tname(t)}.{op}({kt}, ...)` {what}is not dominated by a containment test of "
                                     f"`{kt}` with negative outcome on this path", key=construct)
                elif mut == "since-test":
                    ctx.report(node, f"`{W.tname(t)}` is modified between the containment test and the insertion of "
                                     f"`{kt}`", key=construct)
                facts = frozenset(f for f in facts if f[0] != t)
                return (facts, self._stale(defs, t), True)
            if op in MUTATING_OPS:
                facts = frozenset(f for f in facts if f[0] != t)
                return (facts, self._stale(defs, t), True)
            return st
        # writes through the found entry: it->second.reset(...), it->second = ..., swap
        r = cxx2.receiver(node) if node.get("k") == "CXXMemberCallExpr" else None
        if r and r[0] is not None and r[2] in ("reset", "swap", "release") and self._entry_expr(r[0], defs):
            return (facts, defs, True)
        if node.get("k") == "CXXOperatorCallExpr" and cxx2.op_name(node) == "=" and \
                self._entry_expr(cxx2.op_args(node)[0], defs):
            return (facts, defs, True)
        return st

    @staticmethod
    def _stale(defs, t):
        """a change of table t ends the validity of bool locals that hold a containment test of it"""
        return frozenset(d for d in defs if not (len(d) == 4 and d[1] == t))

    def _entry_expr(self, e, defs):
        ids = {d[0] for d in defs if len(d) == 3}
        for x in cxx2.walk(e):
            if x.get("k") == "DeclRefExpr" and (x.get("ref") or {}).get("id") in ids:
                return True
            if table_access(self.W, x):
                return True
        return False

    def ret(self, st, node, ctx):
        facts, defs, mut = st
        if not self.status_return:
            return
        c = [x for x in cir.kids(node) if x is not None]
        e = cxx2.skip(c[0]) if c else None
        is_rep = e is not None and e.get("k") == "DeclRefExpr" and (e.get("ref") or {}).get("id") == self.repeated_id
        present = [(t, k) for t, k, p in facts if p and (t, k) in self.ins_keys]
        construct = f"{self.fn.qual}:return-repeated-name"
        if is_rep:
            self.rep_sites.setdefault(construct, node)
            if not present:
                ctx.report(node, "the repeated-name code is returned on a path without a positive containment test of the "
                                 "key that the method inserts", key=construct)
            elif mut:
                ctx.report(node, "the table or the existing entry is modified before the repeated-name code is returned "
                                 "(adding an existing name must not change its contents)", key=construct)
        elif present:
            self.rep_sites.setdefault(construct, node)
            ctx.report(node, f"a path on which `{present[0][1]}` is already in `{self.W.tname(present[0][0])}` returns "
                             f"`{etext(e)}` instead of the repeated-name code", key=construct)


def enum_consts(W):
    out = {}
    for c in cir.kids(W.vfs.node):
        if c and c.get("k") == "EnumDecl":
            for e in cir.kids(c):
                if e and e.get("k") == "EnumConstantDecl":
                    v = None
                    for x in cxx2.walk(e):
                        if x.get("k") == "ConstantExpr" and x.get("v") is not None:
                            v = int(x["v"])
                            break
                    out[e.get("n")] = (e.get("id"), v)
    return out


def api_doc(repo):
    """{function: {code: meaning}} from the documentation comments of the public header."""
    try:
        text = open(os.path.join(repo, API_HEADER)).read()
    except OSError:
        raise AnalysisError(f"{API_HEADER} not readable")
    out = {}
    for m in re.finditer(r"((?:^//[^\n]*\n)+)MJAPI\s+\w[\w\s\*]*?\b(mj_\w+VFS)\s*\(", text, re.M):
        doc = " ".join(l.lstrip("/ ").strip() for l in m.group(1).splitlines())
        out[m.group(2)] = {int(a): b.strip() for a, b in re.findall(r"(-?\d+):\s*([A-Za-z ]+?)(?=[,.;]|$)", doc)}
    return out


def returns_of(fn_node):
    out = []
    for x in cxx2.walk(fn_node, lambdas=False):
        if x.get("k") == "ReturnStmt":
            c = [y for y in cir.kids(x) if y is not None]
            out.append((x, cxx2.skip(c[0]) if c else None))
    return out


def passthrough_var(fn_node, e):
    """If e is a local initialised once (never reassigned): its initialiser, else e."""
    e = cxx2.skip(e)
    hops = 0
    while e is not None and e.get("k") == "DeclRefExpr" and (e.get("ref") or {}).get("k") == "VarDecl" and hops < 4:
        rid = e["ref"]["id"]
        init = None
        for x in cxx2.walk(fn_node):
            if x.get("k") == "VarDecl" and x.get("id") == rid:
                c = [y for y in cir.kids(x) if y is not None]
                init = c[-1] if c else None
            tgt = None
            if x.get("k") == "BinaryOperator" and x.get("op") == "=":
                tgt = cir.kids(x)[0]
            elif x.get("k") == "CXXOperatorCallExpr" and cxx2.op_name(x) == "=":
                tgt = cxx2.op_args(x)[0]
            elif x.get("k") == "UnaryOperator" and x.get("op") == "&":
                tgt = cir.kids(x)[0]
            if tgt is not None:
                t = cxx2.skip(tgt)
                if t is not None and t.get("k") == "DeclRefExpr" and (t.get("ref") or {}).get("id") == rid:
                    return e
        if init is None:
            return e
        e = cxx2.skip(init)
        hops += 1
    return e


def returns_not_from(W, fn, site_nodes):
    """Return statements reachable after one of `site_nodes` (calls) that do not return that call's value."""
    class After(paths.Rule):
        def initial(self, f):
            return -1          # (None would end the path in the engine)

        def call(self, st, node, name, ctx):
            for i, sn in enumerate(site_nodes):
                if node is sn:
                    return i
            return st

        def ret(self, st, node, ctx):
            c = [y for y in cir.kids(node) if y is not None]
            e = cxx2.skip(c[0]) if c else None
            src = stable_expand(fn.node, e) if e is not None else None
            if src is not None and any(src is sn for sn in site_nodes):
                return
            if st >= 0:
                ctx.report(node, f"`return {etext(e)}` after the call of {etext(cir.kids(site_nodes[st])[0])}() does not "
                                 f"return that call's status", key="after")
    ctx = cxx2.explore(After(), TU, fn.node)
    return ctx.reports


def check_add(res, W, rows):
    res.rule("R-ADDFIRST", "insertions are non-overwriting and dominated by a negative containment test of the same key; "
             "the positive outcome returns the repeated-name code (2) before any mutation; wrappers pass the status on",
             floor=8)
    consts = enum_consts(W)
    doc = api_doc(cfront.REPO)
    for nm in ("kRepeatedName", "kSuccess"):
        if nm not in consts:
            raise AnalysisError(f"anchor enumerator {VFSCLS}::{nm} not found")
    rep_id, rep_v = consts["kRepeatedName"]
    succ_id, succ_v = consts["kSuccess"]
    for api in ("mj_addBufferVFS", "mj_addFileVFS", "mj_mountVFS"):
        d = doc.get(api) or {}
        want = [c for c, t in d.items() if "repeated" in t]
        ok0 = [c for c, t in d.items() if "success" in t]
        if not want or not ok0:
            raise AnalysisError(f"{API_HEADER}: documented return codes of {api} not found")
        if want[0] == rep_v and ok0[0] == succ_v:
            res.ok("R-ADDFIRST", f"{api}:documented-codes", {"repeated": rep_v, "success": succ_v})
        else:
            res.bad("R-ADDFIRST", f"{api}:documented-codes", TU, W.free[api].node.get("line"),
                    f"{VFSCLS}::kRepeatedName == {rep_v}, kSuccess == {succ_v} but {API_HEADER} documents repeated name "
                    f"as {want[0]} and success as {ok0[0]}")
    # path rule on every VFS method that inserts into a table
    inserting = []
    for fn in W.fns:
        if any((ta := table_access(W, x)) and ta[1] in INSERT_OPS + OVERWRITE_OPS and ta[1] != "at"
               for x in cxx2.walk(fn.node)):
            inserting.append(fn)
    if not inserting:
        raise AnalysisError("no insertion into the VFS table found")
    add_methods = []
    for fn in inserting:
        status_return = "Status" in (fn.node.get("t") or "").split("(")[0]
        rule = AddRule(W, fn, rep_id, status_return)
        ctx = cxx2.explore(rule, TU, fn.node)
        by = {}
        for rp in ctx.reports:
            by.setdefault(rp["key"], rp)
        for construct, node in rule.ins_sites.items():
            if construct in by:
                rp = by.pop(construct)
                res.bad("R-ADDFIRST", construct, rp["file"], rp["line"], rp["msg"])
            else:
                res.ok("R-ADDFIRST", construct, {"file": fn.file, "line": node.get("line")})
        if status_return:
            add_methods.append(fn)
            construct = f"{fn.qual}:return-repeated-name"
            if construct in by:
                rp = by.pop(construct)
                res.bad("R-ADDFIRST", construct, rp["file"], rp["line"], rp["msg"])
            elif construct in rule.rep_sites:
                res.ok("R-ADDFIRST", construct, {"file": fn.file, "line": rule.rep_sites[construct].get("line")})
            else:
                res.bad("R-ADDFIRST", construct, fn.file, fn.node.get("line"),
                        f"{fn.qual} inserts into the table but never returns the repeated-name code")
        for k, rp in by.items():
            res.bad("R-ADDFIRST", k, rp["file"], rp["line"], rp["msg"])
    if not add_methods:
        raise AnalysisError("no status-returning add method found")
    # wrappers: BufferProvider::Mount<...> instantiations and the C functions return the status unchanged
    add_ids = {id(f) for f in add_methods}
    wrappers = []
    for fn in W.fns:
        if id(fn) in add_ids:
            continue
        for x in cxx2.walk(fn.node, lambdas=False):
            g = W.callee(x)
            if g is not None and id(g) in add_ids:
                wrappers.append((fn, x, g))
    level = {id(f): 0 for f in add_methods}
    todo = list(wrappers)
    checked = set()
    frontier = {id(f) for f in add_methods}
    all_wrappers = []
    for depth in range(4):
        nxt = set()
        for fn in W.fns:
            if id(fn) in level:
                continue
            sites = [(x, W.callee(x)) for x in cxx2.walk(fn.node, lambdas=False)
                     if W.callee(x) is not None and id(W.callee(x)) in frontier]
            if sites:
                all_wrappers.append((fn, sites))
                nxt.add(id(fn))
        for i in nxt:
            level[i] = depth + 1
        frontier = nxt
        if not nxt:
            break
    for fn, sites in all_wrappers:
        if fn.kind == "function" and fn.name not in ("mj_addBufferVFS", "mj_addFileVFS", "mj_mountVFS") and \
                not fn.internal:
            continue
        construct = f"{fn.qual}:returns-status-unchanged"
        site_nodes = [sn for sn, _ in sites]
        bad = returns_not_from(W, fn, site_nodes)
        direct = any(stable_expand(fn.node, e) is sn for _, e in returns_of(fn.node) if e is not None for sn in site_nodes)
        if direct and not bad:
            res.ok("R-ADDFIRST", construct, {"file": fn.file, "line": fn.node.get("line")})
        elif bad:
            res.bad("R-ADDFIRST", construct, fn.file, bad[0]["line"], bad[0]["msg"])
        else:
            res.bad("R-ADDFIRST", construct, fn.file, fn.node.get("line"),
                    f"{fn.qual} does not return the status of {sites[0][1].qual} unchanged")
    return consts, doc


class DelRule(paths.Rule):
    """Unmount: success only after erasing the found entry; not-found paths return a failure code."""

    def __init__(self, W, fn, consts):
        self.W, self.fn, self.consts = W, fn, consts
        self.byid = {v[0]: (k, v[1]) for k, v in consts.items()}
        self.rets = {}

    def initial(self, fn):
        # (facts, defs, erased?)
        return (frozenset(), frozenset(), False)

    assign = AddRule.assign
    branch = AddRule.branch

    def call(self, st, node, name, ctx):
        facts, defs, er = st
        ta = table_access(self.W, node)
        if ta and ta[1] == "erase":
            key = ta[2]
            src = iterator_source(self.W, self.fn, key) if key is not None else None
            found = False
            if src not in (None, "unknown"):
                k2 = keytext(self.fn.node, table_access(self.W, src)[2])
                found = (ta[0], k2, True) in facts
            elif key is not None and (ta[0], keytext(self.fn.node, key), True) in facts:
                found = True
            return (facts, AddRule._stale(defs, ta[0]), "found" if found else "blind")
        return st

    def ret(self, st, node, ctx):
        facts, defs, er = st
        c = [x for x in cir.kids(node) if x is not None]
        e = cxx2.skip(c[0]) if c else None
        rid = (e.get("ref") or {}).get("id") if e is not None and e.get("k") == "DeclRefExpr" else None
        name, val = self.byid.get(rid, (etext(e), None))
        absent = any(not p for _, _, p in facts)
        present = any(p for _, _, p in facts)
        construct = f"{self.fn.qual}:return {name}"
        self.rets.setdefault(construct, node)
        if val == 0:
            if er != "found":
                ctx.report(node, "success is returned on a path that did not erase an entry it had found "
                                 f"({'nothing erased' if not er else 'erase not preceded by a successful lookup'})",
                           key=construct)
        elif val is not None:
            if er:
                ctx.report(node, f"failure code {name} is returned after the entry was erased", key=construct)
            elif present and not absent:
                # provider-null style early failures happen before any lookup; after a successful lookup a failure
                # must not be reported
                ctx.report(node, f"failure code {name} is returned on a path where the lookup found the entry",
                           key=construct)
        else:
            ctx.report(node, f"return value `{etext(e)}` is not a status constant", key=construct)

    def fallthrough(self, st, ctx):
        ctx.report(ctx.fn, "control can reach the end of the method without a status", key=f"{self.fn.qual}:no-return")


def check_delete(res, W, consts, doc):
    res.rule("R-DELRESULT", "unmount returns success only after erasing the entry it found and a failure code when the "
             "lookup found nothing; C wrappers derive their result from it only", floor=5)
    um = [f for f in W.fns if f.kind == "method" and f.cls is W.vfs and f.name == "Unmount"]
    fn = um[0]
    rule = DelRule(W, fn, consts)
    ctx = cxx2.explore(rule, TU, fn.node)
    by = {}
    for rp in ctx.reports:
        by.setdefault(rp["key"], rp)
    vals = set()
    for construct, node in rule.rets.items():
        if construct in by:
            rp = by.pop(construct)
            res.bad("R-DELRESULT", construct, rp["file"], rp["line"], rp["msg"])
        else:
            res.ok("R-DELRESULT", construct, {"file": fn.file, "line": node.get("line")})
    for k, rp in by.items():
        res.bad("R-DELRESULT", k, rp["file"], rp["line"], rp["msg"])
    # documented codes
    for api in ("mj_unmountVFS", "mj_deleteFileVFS"):
        d = doc.get(api) or {}
        nf = [c for c, t in d.items() if "not found" in t]
        ok0 = [c for c, t in d.items() if "success" in t]
        if not nf or not ok0:
            raise AnalysisError(f"{API_HEADER}: documented return codes of {api} not found")
        fail_vals = {v for n, (i, v) in consts.items() if n != "kSuccess" and n != "kRepeatedName"}
        rets = {consts[n][1] for construct in rule.rets for n in consts if construct.endswith(f"return {n}")}
        if rets <= {ok0[0], nf[0]} and ok0[0] in rets and nf[0] in rets:
            res.ok("R-DELRESULT", f"{api}:documented-codes", {"success": ok0[0], "not_found": nf[0]})
        else:
            res.bad("R-DELRESULT", f"{api}:documented-codes", TU, W.free[api].node.get("line"),
                    f"Unmount returns {sorted(rets)} but {API_HEADER} documents {ok0[0]} (success) / {nf[0]} (not found)")
    # mj_unmountVFS: returns cast of Unmount's status (other returns are argument checks before the call)
    w = W.free["mj_unmountVFS"]
    calls = [x for x in cxx2.walk(w.node) if W.callee(x) is fn]
    construct = "mj_unmountVFS:returns-status-unchanged"
    if len(calls) != 1:
        res.bad("R-DELRESULT", construct, TU, w.node.get("line"), "mj_unmountVFS does not call VFS::Unmount exactly once")
    else:
        bad = returns_not_from(W, w, calls)
        direct = any(stable_expand(w.node, e) is calls[0] for _, e in returns_of(w.node) if e is not None)
        if bad or not direct:
            if bad:
                res.bad("R-DELRESULT", construct, bad[0]["file"], bad[0]["line"], bad[0]["msg"])
            else:
                res.bad("R-DELRESULT", construct, TU, w.node.get("line"), "the status of VFS::Unmount is never returned")
        else:
            res.ok("R-DELRESULT", construct, {"line": calls[0].get("line")})
    # mj_deleteFileVFS: every return is (a) a call of the unmount wrapper, (b) kSuccess on the branch where such a call
    # compared equal to 0 / kSuccess, or (c) a failure constant before any unmount call (argument check)
    d = W.free["mj_deleteFileVFS"]
    succ_id = consts["kSuccess"][0]

    class Del(paths.Rule):
        def initial(self, f):
            return (False, None)      # (unmount attempted, last comparison says success?)

        def call(self, st, node, name, ctx):
            if W.callee(node) is w:
                return (True, None)
            return st

        def branch(self, st, cond, taken, ctx):
            s, neg = cxx2.cond_core(cond)
            if neg:
                taken = not taken
            if s is not None and s.get("k") == "BinaryOperator" and s.get("op") in ("==", "!="):
                a, b = (cxx2.skip(x) for x in cir.kids(s))
                for x, y in ((a, b), (b, a)):
                    if W.callee(x) is w and (cxx2.is_zero_literal(y) or
                                              (y.get("k") == "DeclRefExpr" and (y.get("ref") or {}).get("id") == succ_id)):
                        return (True, (s.get("op") == "==") == taken)
            elif s is not None and W.callee(s) is w:
                return (True, not taken)
            return st

        def ret(self, st, node, ctx):
            att, ok = st
            c = [y for y in cir.kids(node) if y is not None]
            e = cxx2.skip(c[0]) if c else None
            if e is not None and W.callee(e) is w:
                return
            rid = (e.get("ref") or {}).get("id") if e is not None and e.get("k") == "DeclRefExpr" else None
            is_succ = rid == succ_id or cxx2.is_zero_literal(e)
            if is_succ and ok is not True:
                ctx.report(node, "success is returned although no unmount call on this path reported success", key="succ")
            if not is_succ and att:
                ctx.report(node, f"`{etext(e)}` is returned after an unmount attempt instead of that attempt's result",
                           key="fail")
    c3 = cxx2.explore(Del(), TU, d.node)
    construct = "mj_deleteFileVFS:result-derived-from-unmount"
    if c3.reports:
        rp = c3.reports[0]
        res.bad("R-DELRESULT", construct, rp["file"], rp["line"], rp["msg"])
    else:
        res.ok("R-DELRESULT", construct, {"returns": len(returns_of(d.node))})


# ------------------------------------------------------------------------------------- read path

def provider_of(e, res_id):
    """e is (a cast of) `<resource parameter>->provider`."""
    e = cxx2.skip(e)
    if e is None or e.get("k") != "MemberExpr" or e.get("n") != "provider":
        return False
    b = cxx2.skip(cir.kids(e)[0]) if cir.kids(e) else None
    return b is not None and b.get("k") == "DeclRefExpr" and (b.get("ref") or {}).get("id") == res_id


def callback_of(W, fn_node, e, hops=0):
    """The function a callback expression denotes: (parameters, body, node for the report line), "null" for a null
    pointer, None when it cannot be told.  A lambda and a named function with the same body are the same callback."""
    e = cxx2.skip(e)
    while e is not None and e.get("k") == "UnaryOperator" and e.get("op") in ("&", "+", "*"):
        e = cxx2.skip(cir.kids(e)[0])           # &Fn, +[]{..}, *Fn all decay to the function
    if e is None:
        return None
    if e.get("k") in ("CXXNullPtrLiteralExpr", "GNUNullExpr") or cxx2.is_zero_literal(e):
        return "null"
    if e.get("k") == "CXXMemberCallExpr" and (cir.callee(e) or "").startswith("operator ") and not cxx2.real_args(e)[1:]:
        r = cxx2.receiver(e)                    # closure-to-function-pointer conversion: <lambda>.operator int (*)(..)()
        e = cxx2.skip(r[0]) if r and r[0] is not None else None
        if e is None:
            return None
    lam = e if e.get("k") == "LambdaExpr" else None
    if lam is not None:
        b = cxx2.lambda_body(lam)
        return (cxx2.lambda_params(lam), b, lam) if b is not None else None
    if e.get("k") == "DeclRefExpr":
        r = e.get("ref") or {}
        if r.get("k") in ("FunctionDecl", "CXXMethodDecl"):
            g = W.by_decl.get(r.get("id"))
            if g is None and r.get("k") == "FunctionDecl":
                g = W.free.get(r.get("n"))
            if g is not None and cir.body(g.node) is not None:
                return (g.params, cir.body(g.node), g.node)
            return None
        if r.get("k") == "VarDecl" and hops < 4:
            vl = cxx2.value_locals(fn_node).get(r.get("id"))
            if vl is not None:
                return callback_of(W, fn_node, vl[1], hops + 1)
    return None


def check_read(res, W):
    res.rule("R-READBACK", "the buffer provider's read callback returns data()/size() of one member written only by the "
             "provider's constructors; VFS::Read and mju_readResource pass pointer and size through", floor=6)
    prov = [cm for cm in W.local_classes if any("ResourceProvider" in (b or "") for b in cm.bases)]
    if len(prov) != 1:
        raise AnalysisError(f"expected exactly one resource-provider class in {TU}, found {len(prov)}")
    BP = prov[0]
    # read callbacks: the functions stored in the `read` member of the provider: a lambda written in place, a named
    # function / static member function of this file (`&Cls::Fn`, `Fn`), or a never-reassigned local holding one of these
    callbacks = []
    for m in BP.methods.values():
        if m.node is None or (getattr(m, "template", None) is not None and re.search(r"\bArgs\b", m.type)):
            continue
        for x in cxx2.walk(m.node):
            if x.get("k") in ("BinaryOperator", "CXXOperatorCallExpr") and (x.get("op") == "=" or cxx2.op_name(x) == "="):
                c = cir.kids(x) if x.get("k") == "BinaryOperator" else cxx2.op_args(x)
                tgt = cxx2.skip(c[0])
                if tgt is None or tgt.get("k") != "MemberExpr" or tgt.get("n") != "read":
                    continue
                cb = callback_of(W, m.node, c[1])
                if cb is None:
                    raise AnalysisError(f"{m.qual}: cannot tell which function `{etext(tgt)} = {etext(c[1])}` stores as "
                                        f"the read callback (expected a lambda or a function defined in {TU})")
                if cb != "null":
                    callbacks.append((m, cb))
    if not callbacks:
        raise AnalysisError(f"{BP.name}: no read callback found")
    fields_used = set()
    for m, (ps, body, lam) in callbacks:
        construct = f"{m.qual}:read-callback"
        if len(ps) != 2:
            res.bad("R-READBACK", construct, TU, lam.get("line"), "read callback does not take (resource, out)")
            continue
        out_id = ps[1].get("id")
        res_id = ps[0].get("id")
        outs, rets, selfs = [], [], {}
        problems = []
        for x in cxx2.walk(body):
            if x.get("k") == "VarDecl":
                init = [c for c in cir.kids(x) if c is not None]
                if init and provider_of(init[-1], res_id):
                    selfs[x.get("id")] = x
            if x.get("k") == "BinaryOperator" and x.get("op") == "=":
                t = cxx2.skip(cir.kids(x)[0])
                if t is not None and t.get("k") == "UnaryOperator" and t.get("op") == "*":
                    b = cxx2.skip(cir.kids(t)[0])
                    if b is not None and b.get("k") == "DeclRefExpr" and (b.get("ref") or {}).get("id") == out_id:
                        outs.append(cxx2.skip(cir.kids(x)[1]))
            if x.get("k") == "ReturnStmt":
                c = [y for y in cir.kids(x) if y is not None]
                rets.append(cxx2.skip(c[0]) if c else None)

        def member_of_self(e, meth):
            if e is None or e.get("k") != "CXXMemberCallExpr":
                return None
            r = cxx2.receiver(e)
            if not r or r[2] != meth:
                return None
            o = cxx2.skip(r[0])
            if o is None or o.get("k") != "MemberExpr" or o.get("mid") not in BP.fields:
                return None
            b = cxx2.skip(cir.kids(o)[0])
            if b is not None and b.get("k") == "DeclRefExpr" and (b.get("ref") or {}).get("id") in selfs and \
                    (b.get("ref") or {}).get("id") not in assigned_vars(body):
                return o.get("mid")
            if provider_of(b, res_id):       # `((Provider*)res->provider)->member` without the local
                return o.get("mid")
            return None
        if len(outs) != 1 or len(rets) != 1:
            problems.append(f"{len(outs)} writes to *out and {len(rets)} returns (expected one each)")
        else:
            fd, fs = member_of_self(outs[0], "data"), member_of_self(rets[0], "size")
            if fd is None or fs is None or fd != fs:
                problems.append(f"*out = {etext(outs[0])}, return {etext(rets[0])}: not data()/size() of one member of "
                                f"the provider object of this resource")
            else:
                fields_used.add(fd)
        if problems:
            res.bad("R-READBACK", construct, TU, lam.get("line"), "; ".join(problems))
        else:
            res.ok("R-READBACK", construct, {"line": lam.get("line"), "member": BP.fname(next(iter(fields_used)))})
    # the member is written only in constructors
    MUT = ("push_back", "emplace_back", "assign", "resize", "clear", "insert", "erase", "pop_back", "swap", "reserve",
           "shrink_to_fit", "data")
    for fid in fields_used:
        for m in BP.methods.values():
            if m.node is None or (getattr(m, "template", None) is not None and re.search(r"\bArgs\b", m.type)):
                continue
            writes = []
            for x in cxx2.walk(m.node):
                if x.get("k") == "CXXMemberCallExpr":
                    r = cxx2.receiver(x)
                    if r and r[2] in MUT and r[0] is not None:
                        o = cxx2.skip(r[0])
                        if o is not None and o.get("k") == "MemberExpr" and o.get("mid") == fid:
                            if r[2] == "data" and "const" in (cxx2.skip(r[0]).get("t") or ""):
                                continue
                            writes.append((x, r[2]))
                if x.get("k") == "CXXOperatorCallExpr" and cxx2.op_name(x) in ("=", "[]"):
                    o = cxx2.skip(cxx2.op_args(x)[0])
                    if o is not None and o.get("k") == "MemberExpr" and o.get("mid") == fid:
                        writes.append((x, "operator" + cxx2.op_name(x)))
            if m.kind == "CXXConstructorDecl":
                continue
            real = [w for w in writes if not (w[1] == "data" and any(w[0] is o or True for o in ()))]
            # data() inside the read callback is the read itself
            real = [w for w in writes if w[1] != "data"]
            construct = f"{m.qual}:{BP.fname(fid)}-not-written"
            if real:
                res.bad("R-READBACK", construct, TU, real[0][0].get("line"),
                        f"stored contents `{BP.fname(fid)}` are modified outside the constructors ({real[0][1]})")
            else:
                res.ok("R-READBACK", construct, None)
        # the buffer constructor copies exactly n source bytes
        for m in BP.methods.values():
            if m.kind != "CXXConstructorDecl" or m.node is None or m.implicit or m.defaulted:
                continue
            ps = m.params()
            src = [p for p in ps if re.search(r"const void \*", p.get("t") or "")]
            if not src:
                continue
            cnt = [p for p in ps if re.search(r"size_t|int", p.get("t") or "") and "*" not in (p.get("t") or "")]
            construct = f"{m.qual}:copies-n-bytes"
            good = False
            detail = "no loop appending source bytes found"
            for lp in cxx2.walk(m.node):
                if lp.get("k") not in ("ForStmt", "WhileStmt"):
                    continue
                # `for (i = 0; i < n; i++) S` and `i = 0; while (i < n) { S; i++; }` are the same counted loop
                L = cxx2.index_loop(m.node, lp)
                if L is None:
                    if any(x.get("k") == "CXXMemberCallExpr" and (cxx2.receiver(x) or (None, None, None))[2] == "push_back"
                           and cxx2.field_of(cxx2.receiver(x)[0]) == fid for x in cxx2.walk(lp)):
                        raise AnalysisError(f"{m.qual}: the loop at line {lp.get('line')} appends to `{BP.fname(fid)}` but is "
                                            f"not of a form read as a loop counting an index up by one")
                    continue
                i_id = L["var"]
                starts0 = cxx2.is_zero_literal(L["start"])
                bound_ok = (cxx2.skip(L["bound"]).get("ref") or {}).get("id") in {p.get("id") for p in cnt}
                inc_ok = True
                body = {"k": "CompoundStmt", "i": L["body"]}
                pushes = [x for x in cxx2.walk(body) if x.get("k") == "CXXMemberCallExpr" and
                          (cxx2.receiver(x) or (None, None, None))[2] == "push_back" and
                          cxx2.field_of(cxx2.receiver(x)[0]) == fid]
                if len(pushes) == 1:
                    a = cxx2.skip(cxx2.real_args(pushes[0])[1])
                    elem_ok = a is not None and a.get("k") == "ArraySubscriptExpr" and \
                        (cxx2.skip(cir.kids(a)[1]).get("ref") or {}).get("id") == i_id
                    base = passthrough_var(m.node, cir.kids(a)[0]) if elem_ok else None
                    base_ok = elem_ok and base is not None and base.get("k") == "DeclRefExpr" and \
                        (base.get("ref") or {}).get("id") in {p.get("id") for p in src}
                    other = [x for x in cxx2.walk(body) if x.get("k") == "CXXMemberCallExpr" and x is not pushes[0] and
                             cxx2.field_of((cxx2.receiver(x) or (None,))[0]) == fid]
                    if starts0 and bound_ok and inc_ok and base_ok and not other:
                        good = True
                    else:
                        detail = (f"loop does not append src[i] for i in [0, n): start0={starts0} bound={bound_ok} "
                                  f"inc={inc_ok} element={base_ok}")
            if good:
                res.ok("R-READBACK", construct, {"line": m.line})
            else:
                res.bad("R-READBACK", construct, TU, m.line, detail)
    # the opened resource carries the provider of the mount found for the (normalised) path
    op = [f for f in W.fns if f.kind == "method" and f.cls is W.vfs and f.name == "Open"][0]
    internal = {id(f): f for f in W.fns if f.kind == "method" and f.cls is W.vfs and f.access != "public"}
    creators = []
    for f in internal.values():
        ps = {p.get("id"): i for i, p in enumerate(f.params)}
        for x in cxx2.walk(f.node):
            if x.get("k") == "BinaryOperator" and x.get("op") == "=":
                t, r = (cxx2.skip(y) for y in cir.kids(x))
                if t is not None and t.get("k") == "MemberExpr" and t.get("n") == "provider" and r is not None and \
                        r.get("k") == "DeclRefExpr" and (r.get("ref") or {}).get("id") in ps:
                    creators.append((f, ps[r["ref"]["id"]], x))
    construct = f"{op.qual}:provider-of-found-mount"
    good, why = False, "no call of a resource-creating helper found"
    for x in cxx2.walk(op.node):
        g = W.callee(x)
        for f, idx, _ in creators:
            if g is f:
                a = W.call_args(x)
                src = stable_expand(op.node, a[idx]) if idx < len(a) else None
                why = f"provider argument `{etext(a[idx]) if idx < len(a) else ''}` is not the found mount's provider"
                if src is not None and src.get("k") == "MemberExpr" and src.get("n") == "provider":
                    m = stable_expand(op.node, cir.kids(src)[0])
                    mg = W.callee(m) if m is not None else None
                    if mg is not None and any(table_access(W, y) and table_access(W, y)[1] == "find"
                                              for y in cxx2.walk(mg.node)):
                        good = True
    if creators:
        res.ok("R-READBACK", f"{creators[0][0].qual}:stores-provider", {"line": creators[0][2].get("line")})
    if good:
        res.ok("R-READBACK", construct, None)
    else:
        res.bad("R-READBACK", construct, op.file, op.node.get("line"), why)
    # VFS::Read passes (resource, buffer) to provider->read and returns its result
    rd = [f for f in W.fns if f.kind == "method" and f.cls is W.vfs and f.name == "Read"][0]
    ps = rd.params
    good = False
    for rnode, e in returns_of(rd.node):
        if e is not None and e.get("k") == "CallExpr":
            f = cxx2.skip(cir.kids(e)[0])
            a = [cxx2.skip(y) for y in cir.args(e)]
            if f is not None and f.get("k") == "MemberExpr" and f.get("n") == "read" and len(a) == 2 and \
                    all(x is not None and x.get("k") == "DeclRefExpr" for x in a) and \
                    [(x.get("ref") or {}).get("id") for x in a] == [p.get("id") for p in ps[:2]]:
                good = True
    if good:
        res.ok("R-READBACK", f"{rd.qual}:passes-through", {"line": rd.node.get("line")})
    else:
        res.bad("R-READBACK", f"{rd.qual}:passes-through", rd.file, rd.node.get("line"),
                "VFS::Read does not return provider->read(resource, buffer) unchanged")
    # mju_readResource in user_resource.cc
    ir = cfront.load_tu(RES_TU, lang="cxx")
    fn = None
    for d, ns in cxx2.all_decls(ir["decls"]):
        if d.get("k") == "FunctionDecl" and d.get("n") == "mju_readResource" and cir.body(d) is not None:
            fn = d
    if fn is None:
        raise AnalysisError(f"anchor function mju_readResource not found in {RES_TU}")
    ps = cir.params(fn)
    good = False
    for rnode, e in returns_of(fn):
        if e is not None and e.get("k") == "CXXMemberCallExpr" and cir.callee(e) == "Read":
            a = [cxx2.skip(y) for y in cir.args(e)]
            if len(a) == 2 and [(x.get("ref") or {}).get("id") for x in a] == [p.get("id") for p in ps[:2]]:
                good = True
    if good:
        res.ok("R-READBACK", "mju_readResource:passes-through", {"line": fn.get("line")})
    else:
        res.bad("R-READBACK", "mju_readResource:passes-through", RES_TU, fn.get("line"),
                "mju_readResource does not return VFS::Read(resource, buffer) unchanged")


# ------------------------------------------------------------------------------------- entry

def run(res, tier):
    keyinfo = check_key_class(res)
    W = World()
    res.count("functions", len(W.fns))
    rows = check_keynorm(res, W, keyinfo)
    consts, doc = check_add(res, W, rows)
    check_delete(res, W, consts, doc)
    check_read(res, W)
    res.extra["key_class"] = keyinfo
    res.extra["tables"] = [W.tname(t) for t in W.tables]
    res.explanation = (
        "Provenance analysis of every key reaching the VFS mount table (locals through definitions, parameters of "
        "internal functions through all call sites incl. the template instantiations behind mj_addBufferVFS/"
        "mj_addFileVFS), class invariant of the normalising path class, all-paths rules for the add path (containment "
        "test dominates insertion; repeated-name return before any mutation), the delete path (result derived from "
        "the erase) and the structure of the read-back path.")
    res.not_decided = ("which entry prefix/legacy lookups select over histories; concurrent add/add (test and emplace "
                       "are in separate lock scopes); the write path (out of the property's operations, see "
                       "out_of_scope_accesses); byte-equality of contents beyond the copy loop's shape.")
    res.assumptions = ["std::unordered_map semantics (emplace does not overwrite, erase(iterator) removes that entry)",
                       "error handlers do not return"]


# ------------------------------------------------------------------------------------- self-test (thorough tier)

_V, _VH, _UH, _RC = TU, "src/user/user_vfs.h", "src/user/user_util.h", RES_TU
_TEST = "if (mounts_.contains(path.Str())) { return kRepeatedName; }"
_MOUNT = "VFS::Mount(const mujoco::user::FilePath &, const mjpResourceProvider *)"
_UNMOUNT = "VFS::Unmount(const mujoco::user::FilePath &)"
# the shapes of /verif/refactors/D-p5 as small anchored edits (controls) and the same shapes with a defect (mutants)
_READ_LAMBDA = ("    provider->read = [](mjResource* res, const void** out) {\n"
                "      BufferProvider* self = (BufferProvider*)res->provider;\n\n"
                "      *out = reinterpret_cast<void*>(self->contents_.data());\n"
                "      return static_cast<int>(self->contents_.size());\n    };\n")
_PRIVATE_AT = " private:\n  BufferProvider(const char* dir, const char* filename) {"
_READ_FN = (" private:\n  static int ReadContents(mjResource* res, const void** out) {\n"
            "    BufferProvider* self = (BufferProvider*)res->provider;\n\n"
            "    *out = reinterpret_cast<void*>(self->contents_.data());\n"
            "    return static_cast<int>(self->contents_.size())%s;\n  }\n\n"
            "  BufferProvider(const char* dir, const char* filename) {")
_NAMED_READ = [(_V, _READ_LAMBDA, "    provider->read = &BufferProvider::ReadContents;\n")]
_STRIP_STEP = ("  std::string str = fullpath;\n  while (!str.empty()) {\n    auto it = mounts_.find(str);\n"
               "    if (it != mounts_.end()) { return it->second.get(); }\n\n"
               "    std::size_t n = str.find_last_of(\"/\\\\\");\n    if (n == std::string::npos) {\n      str = \"\";\n"
               "    } else {\n      str = str.substr(0, n);\n    }\n  }\n")
_STRIP_FOR = ("  for (std::string str = fullpath; !str.empty(); str = ParentPath(str)) {\n    auto it = mounts_.find(str);\n"
              "    if (it != mounts_.end()) { return it->second.get(); }\n  }\n")
_NS_END = "}  // namespace\n\nnamespace mujoco::user {"
_PARENT_FN = ("std::string ParentPath(const std::string& path) {\n  std::size_t n = path.find_last_of(\"/\\\\\");\n"
              "  if (n == std::string::npos) { return \"\"; }\n  return path.substr(0, n)%s;\n}\n\n" + _NS_END)
_UNMOUNT_BODY = ("  if (auto it = mounts_.find(path.Str()); it != mounts_.end()) {\n"
                 "    if (it->second->provider->unmount) { it->second->provider->unmount(it->second.get()); }\n"
                 "    mounts_.erase(it);\n    return kSuccess;\n  }\n  return kInvalidResourceProvider;\n}")
_UNMOUNT_EARLY = ("  auto it = mounts_.find(path.Str());\n  if (it == mounts_.end()) { return %s; }\n\n"
                  "  mjResource* mount = it->second.get();\n  if (mount->provider->unmount) { mount->provider->unmount(mount); }\n"
                  "  mounts_.erase(it);\n  return kSuccess;\n}")
_DELFILE = ("  if (mj_unmountVFS(vfs, filename) != 0) {\n    mujoco::user::FilePath path(filename);\n"
            "    return mj_unmountVFS(vfs, path.StripPath().Lower().c_str());\n  }\n  return mujoco::user::VFS::kSuccess;\n}")
_DELFILE_EARLY = ("  if (mj_unmountVFS(vfs, filename) == 0) { return mujoco::user::VFS::kSuccess; }\n\n"
                  "  mujoco::user::FilePath path(filename);\n%s}")
_COPY_FOR = ("    for (size_t i = 0; i < n; i++) {\n      contents_.push_back(src_bytes[i]);\n      hash_ |= src_bytes[i];\n"
             "      hash_ *= prime;\n    }\n")
_COPY_WHILE = ("    size_t i = %s;\n    while (i < n) {\n      contents_.push_back(src_bytes[i]);\n      hash_ |= src_bytes[i];\n"
               "      hash_ *= prime;\n      ++i;\n    }\n")
SELFTEST = {
    "lookup-with-raw-key": ([(_V, "return mounts_.contains(key);", "return mounts_.contains(filename);")],
                            "R-KEYNORM construct=VFS::ContainsFile(const char *, const char *):mounts_.contains"),
    "open-with-raw-name": ([(_V, "const mjResource* mount = FindMount(path);\n  if (!mount || !mount->provider) {",
                             "const mjResource* mount = FindMount(name);\n  if (!mount || !mount->provider) {")],
                           "R-KEYNORM construct=VFS::FindMount(const std::string &):mounts_.find#1"),
    "path-class-ctor-skips-normalisation": ([(_UH, "explicit FilePath(const char* str) { path_ = PathReduce(str); }",
                                              "explicit FilePath(const char* str) { path_ = str; }")],
                                            "R-KEYNORM construct=FilePath::FilePath(const char *):normalises"),
    "mutate-before-repeated-name": ([(_V, _TEST, "if (mounts_.contains(path.Str())) { mounts_.erase(path.Str()); "
                                      "return kRepeatedName; }")], f"R-ADDFIRST construct={_MOUNT}:return-repeated-name"),
    "reset-entry-before-repeated-name": ([(_V, _TEST, "if (auto it = mounts_.find(path.Str()); it != mounts_.end()) "
                                           "{ it->second.reset(); return kRepeatedName; }")],
                                         f"R-ADDFIRST construct={_MOUNT}:return-repeated-name"),
    "overwrite-without-test": ([(_V, "    " + _TEST + "\n", ""),
                                (_V, "mounts_.emplace(path.Str(), std::move(res));",
                                 "mounts_.insert_or_assign(path.Str(), std::move(res));")],
                               f"R-ADDFIRST construct={_MOUNT}:mounts_.insert_or_assign"),
    "repeated-name-code-dropped-by-wrapper": ([(_V, "    if (status != mujoco::user::VFS::kSuccess) { delete provider; }\n"
                                                "    return static_cast<int>(status);",
                                                "    if (status != mujoco::user::VFS::kSuccess) { delete provider; return -1; }\n"
                                                "    return static_cast<int>(status);")], "returns-status-unchanged"),
    "delete-absent-reports-success": ([(_V, "    return kSuccess;\n  }\n  return kInvalidResourceProvider;\n}",
                                        "    return kSuccess;\n  }\n  return kSuccess;\n}")],
                                      f"R-DELRESULT construct={_UNMOUNT}:return kSuccess"),
    "delete-api-ignores-result": ([(_V, "    return mj_unmountVFS(vfs, path.StripPath().Lower().c_str());\n  }",
                                    "    mj_unmountVFS(vfs, path.StripPath().Lower().c_str());\n  }")],
                                  "R-DELRESULT construct=mj_deleteFileVFS:result-derived-from-unmount"),
    "read-returns-other-size": ([(_V, "return static_cast<int>(self->contents_.size());\n    };",
                                  "return static_cast<int>(self->contents_.size()) - 1;\n    };")], "read-callback"),
    "copy-loop-skips-byte": ([(_V, "    for (size_t i = 0; i < n; i++) {\n      contents_.push_back(src_bytes[i]);",
                               "    for (size_t i = 1; i < n; i++) {\n      contents_.push_back(src_bytes[i]);")],
                             "copies-n-bytes"),
    "control-rename-locals": ([(_V, "std::string str = fullpath;", "std::string cur = fullpath;"),
                               (_V, "while (!str.empty()) {\n    auto it = mounts_.find(str);",
                                "while (!cur.empty()) {\n    auto it = mounts_.find(cur);"),
                               (_V, "std::size_t n = str.find_last_of(\"/\\\\\");\n    if (n == std::string::npos) {\n      str = \"\";\n"
                                "    } else {\n      str = str.substr(0, n);",
                                "std::size_t n = cur.find_last_of(\"/\\\\\");\n    if (n == std::string::npos) {\n      cur = \"\";\n"
                                "    } else {\n      cur = cur.substr(0, n);")], None),
    "control-rename-member": ([(_V, "mounts_", "table_"), (_VH, "mounts_", "table_")], None),
    "control-reorder": ([(_V, "  VFS::Status status        = kInvalidResource;\n  bool        last_resource = false;",
                          "  bool        last_resource = false;\n  VFS::Status status        = kInvalidResource;"),
                         (_V, "    if (it->second->provider->unmount) { it->second->provider->unmount(it->second.get()); }\n"
                          "    mounts_.erase(it);",
                          "    auto* r = it->second.get();\n    if (r->provider->unmount) { r->provider->unmount(r); }\n"
                          "    mounts_.erase(it);")], None),
    "control-extract-helper": ([(_V, _TEST, "if (HasMount(path.Str())) { return kRepeatedName; }"),
                                (_V, "bool VFS::ContainsFile(const char* directory", "bool VFS::HasMount(const std::string& key) "
                                 "{ return mounts_.contains(key); }\n\nbool VFS::ContainsFile(const char* directory"),
                                (_VH, "  mjResource* FindMount(const std::string& fullpath);",
                                 "  mjResource* FindMount(const std::string& fullpath);\n  bool HasMount(const std::string& key);")],
                               None),
    "control-read-named-function": (_NAMED_READ + [(_V, _PRIVATE_AT, _READ_FN % "")], None),
    "named-read-returns-other-size": (_NAMED_READ + [(_V, _PRIVATE_AT, _READ_FN % " - 1")], "read-callback"),
    "named-read-exposes-other-member": (_NAMED_READ + [(_V, _PRIVATE_AT, (_READ_FN % "").replace(
        "reinterpret_cast<void*>(self->contents_.data())", "reinterpret_cast<void*>(&self->hash_)"))], "read-callback"),
    "control-extract-parent-path": ([(_V, _STRIP_STEP, _STRIP_FOR), (_V, _NS_END, _PARENT_FN % "")], None),
    "parent-path-helper-denormalises": ([(_V, _STRIP_STEP, _STRIP_FOR), (_V, _NS_END, _PARENT_FN % " + \"/\"")],
                                        "R-KEYNORM construct=VFS::FindMount(const std::string &):mounts_.find#1"),
    "control-early-return-unmount": ([(_V, _UNMOUNT_BODY, _UNMOUNT_EARLY % "kInvalidResourceProvider"),
                                      (_V, _DELFILE, _DELFILE_EARLY % "  return mj_unmountVFS(vfs, path.StripPath().Lower().c_str());\n"),
                                      (_V, "  if (resource && resource->provider && resource->provider->read) {\n"
                                       "    return resource->provider->read(resource, buffer);\n  }\n  return kFailedToRead;",
                                       "  if (!resource || !resource->provider || !resource->provider->read) { return kFailedToRead; }\n"
                                       "  return resource->provider->read(resource, buffer);")], None),
    "early-return-unmount-absent-reports-success": ([(_V, _UNMOUNT_BODY, _UNMOUNT_EARLY % "kSuccess")],
                                                    f"R-DELRESULT construct={_UNMOUNT}:return kSuccess"),
    "early-return-delete-ignores-result": ([(_V, _DELFILE, _DELFILE_EARLY % "  mj_unmountVFS(vfs, path.StripPath().Lower().c_str());\n"
                                             "  return mujoco::user::VFS::kSuccess;\n")],
                                           "R-DELRESULT construct=mj_deleteFileVFS:result-derived-from-unmount"),
    "control-presence-in-bool-local": ([(_V, "    " + _TEST, "    const bool known = mounts_.contains(path.Str());\n"
                                         "    if (known) { return kRepeatedName; }")], None),
    "stale-presence-local": ([(_V, "    " + _TEST, "    const bool known = mounts_.contains(path.Str());\n"
                               "    mounts_.erase(path.Str());\n    if (known) { return kRepeatedName; }")],
                             f"R-ADDFIRST construct={_MOUNT}:return-repeated-name"),
    "control-copy-loop-while": ([(_V, _COPY_FOR, _COPY_WHILE % "0")], None),
    "copy-loop-while-skips-byte": ([(_V, _COPY_FOR, _COPY_WHILE % "1")], "copies-n-bytes"),
    "control-key-in-local": ([(_V, "    " + _TEST + "\n  }", "    " + _TEST + "\n  }\n  const std::string& key = path.Str();"),
                              (_V, "mounts_.emplace(path.Str(), std::move(res));", "mounts_.emplace(key, std::move(res));")], None),
}


def selftest(res):
    from .c38 import run_selftest
    run_selftest("C39", SELFTEST, res, rename=lambda g: g.replace("table_", "mounts_"))
