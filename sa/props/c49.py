"""C49 Python introspection metadata matches the C headers (translation validation, both directions).

Source side : python/mujoco/introspect/{structs,enums,functions}.py, evaluated by sa.pyeval (never imported);
              constructor signatures and defaults are read from introspect/ast_nodes.py.
Target side : include/mujoco/*.h as clang type-checks them through `#include <mujoco/mujoco.h>` — the same
              entry point the repository's own generator (introspect/codegen) uses (sa.cheaders).

Decided
  R-TV-STRUCT  each STRUCTS entry is a struct typedef of the headers with the same tag (declname), the same
               field names in the same ORDER, the same field types (ValueType/PointerType/ArrayType trees,
               const/volatile/restrict on every level, array extents as evaluated by the compiler), anonymous
               struct/union members compared recursively; opaque structs (fields=()) are incomplete in C.
  R-TV-ENUM    each ENUMS entry is an enum typedef of the headers with the same enumerator names, order and
               VALUES (values computed from the initialiser ASTs / implicit increments, cross-checked against
               clang's folded constants).
  R-TV-FUNC    each FUNCTIONS entry is a function of the headers with the same return type, parameter count,
               parameter names and parameter types.
  R-TV-COVER   conversely every struct typedef, enum typedef and function declared in the public headers is in
               the metadata, unless its name is in the generator's own exclusion list (read from
               introspect/codegen: the list passed to ast_processor.process).

Normalisation (both sides go through the same function, nothing else is forgiven)
  * types are compared as trees, so spelling/whitespace (`mjtNum*` vs `mjtNum *`) is irrelevant;
  * `struct T_` and its typedef `T` are the same value type (the generator itself rewrites exact matches);
  * array parameters: C adjusts `mjtNum res[9]` to `mjtNum *`; the metadata keeps `mjtNum[9]`.  The declared
    extents are re-read from the ParmVarDecl's own source range and accepted only if that array type decays to
    exactly the type clang reports (sa.cheaders.param_type) — the compared type is then the declared one;
  * the metadata's `void *(*)(void *)` pseudo value type is parsed as the function-pointer type it spells;
  * `nullable`, `doc`, `array_extent` are documentation-derived (comments), not C types: not compared.
"""
from __future__ import annotations

import ast
import os

from .. import cheaders, pyeval
from ..cfront import REPO, AnalysisError

LEVEL = "translation_validation"

INTROSPECT = "python/mujoco/introspect"
# Confirmed on the pinned tree: 66 structs, 77 enums, 537 functions compared, 686 public declarations covered
# (71 struct typedefs incl. 5 excluded, 77 enum typedefs, 538 functions incl. 1 excluded).  The floors sit ~10% below:
# because both directions are checked, a declaration lost on ONE side is a VIOLATION of the opposite rule (and must be
# reported as such, not masked by a floor); the floors only catch a front end that lost most of BOTH sides.
FLOOR_STRUCTS, FLOOR_ENUMS, FLOOR_FUNCS = 60, 70, 500
FLOOR_COVER = 640


# --------------------------------------------------------------------------------------
# source side


def load_metadata(repo):
    ct = pyeval.class_table(pyeval.module_path(repo, f"{INTROSPECT}/ast_nodes.py"))
    need = {"StructDecl": ("name", "declname", "fields"), "StructFieldDecl": ("name", "type"),
            "ValueType": ("name", "is_const", "is_volatile"), "ArrayType": ("inner_type", "extents"),
            "PointerType": ("inner_type", "is_const", "is_volatile", "is_restrict"),
            "EnumDecl": ("name", "declname", "values"), "FunctionDecl": ("name", "return_type", "parameters"),
            "FunctionParameterDecl": ("name", "type"), "AnonymousStructDecl": ("fields",),
            "AnonymousUnionDecl": ("fields",)}
    for cls, fields in need.items():
        have = {f for f, _ in ct.get(cls, ())}
        if not set(fields) <= have:
            raise AnalysisError(f"{INTROSPECT}/ast_nodes.py: class {cls} lost fields {sorted(set(fields) - have)} "
                                f"— the metadata schema changed, the comparison must be revisited")
    out = {}
    for mod, var in (("structs", "STRUCTS"), ("enums", "ENUMS"), ("functions", "FUNCTIONS")):
        rel = f"{INTROSPECT}/{mod}.py"
        env = pyeval.eval_module(pyeval.module_path(repo, rel), ct, only=(var,))
        if var not in env or not isinstance(env[var], dict):
            raise AnalysisError(f"{rel}: anchor vanished: no top-level literal {var}")
        out[var] = (rel, env[var])
    return ct, out


def load_exclusions(repo):
    """The names the repository's generator deliberately leaves out: the literal list bound to the name that is
    passed as `excluded` (3rd argument) to ast_processor.process(...) in introspect/codegen/generate.py."""
    rel = f"{INTROSPECT}/codegen/generate.py"
    tree = pyeval.parse(pyeval.module_path(repo, rel))
    arg = None
    for n in ast.walk(tree):
        if isinstance(n, ast.Call) and isinstance(n.func, ast.Attribute) and n.func.attr == "process":
            if len(n.args) >= 3:
                arg = n.args[2]
            for kw in n.keywords:
                if kw.arg == "excluded":
                    arg = kw.value
    if arg is None:
        raise AnalysisError(f"{rel}: anchor vanished: no call ast_processor.process(json, headers, excluded)")
    if isinstance(arg, ast.Name):
        env = pyeval.eval_module(os.path.join(repo, rel), {}, only=(arg.id,))
        if arg.id not in env:
            raise AnalysisError(f"{rel}: exclusion list {arg.id} is not a module-level literal")
        val = env[arg.id]
    else:
        val = pyeval.Evaluator(rel, {}).ev(arg)
    if not isinstance(val, (list, tuple, frozenset)) or not all(isinstance(x, str) for x in val):
        raise AnalysisError(f"{rel}: exclusion list is not a list of names")
    return rel, set(val)


# --------------------------------------------------------------------------------------
# normalisation


class Canon:
    def __init__(self, H):
        self.tag2typedef = {}
        for name, td in H.typedefs.items():
            t = td["t"]
            if t.startswith(("struct ", "union ", "enum ")) and "(" not in t:
                self.tag2typedef.setdefault(t, name)

    def name(self, n):
        n = " ".join(n.split())
        return self.tag2typedef.get(n, n)

    def tree(self, t):
        k = t[0]
        if k == "val":
            return ("val", self.name(t[1]), bool(t[2]), bool(t[3]))
        if k == "ptr":
            return ("ptr", self.tree(t[1]), bool(t[2]), bool(t[3]), bool(t[4]))
        if k == "arr":
            return ("arr", self.tree(t[1]), tuple(int(x) for x in t[2]))
        if k == "fn":
            return ("fn", self.tree(t[1]), tuple(self.tree(p) for p in t[2]), bool(t[3]))
        raise AnalysisError(f"unknown type tree {t!r}")

    def md(self, d, where):
        """Metadata type dict -> canonical tree."""
        if not isinstance(d, dict):
            raise AnalysisError(f"{where}: metadata type is not a record: {d!r}")
        c = d.get("__class__")
        if c == "ValueType":
            n = d["name"]
            if not isinstance(n, str):
                raise AnalysisError(f"{where}: ValueType name is not a string")
            if "(" in n or "*" in n or "[" in n:
                inner = self.tree(cheaders.parse_type(n))
                if d["is_const"] or d["is_volatile"]:
                    raise AnalysisError(f"{where}: qualified compound pseudo value type {n!r}")
                return inner
            return ("val", self.name(n), bool(d["is_const"]), bool(d["is_volatile"]))
        if c == "PointerType":
            return ("ptr", self.md(d["inner_type"], where), bool(d["is_const"]), bool(d["is_volatile"]),
                    bool(d["is_restrict"]))
        if c == "ArrayType":
            ext = d["extents"]
            if not isinstance(ext, (tuple, list)) or not ext or not all(isinstance(x, int) and not isinstance(x, bool)
                                                                          for x in ext):
                raise AnalysisError(f"{where}: ArrayType extents are not a tuple of ints: {ext!r}")
            return ("arr", self.md(d["inner_type"], where), tuple(ext))
        raise AnalysisError(f"{where}: unexpected metadata type class {c!r}")


# --------------------------------------------------------------------------------------
# comparison


class Cmp:
    def __init__(self, res, H, canon):
        self.res = res
        self.H = H
        self.canon = canon
        self.mismatches = 0
        self.fields = 0
        self.enumerators = 0
        self.params = 0

    def bad(self, rule, construct, file, line, msg):
        self.mismatches += 1
        self.res.bad(rule, construct, file, line, msg)

    # -- structs
    def fields_of(self, key, mdfields, rec, rel, mdline):
        """Compare a metadata field tuple with a C record; returns number of mismatches reported."""
        n0 = self.mismatches
        cf = rec["fields"]
        mnames, cnames = [], []
        for f in mdfields:
            c = f.get("__class__") if isinstance(f, dict) else None
            if c == "StructFieldDecl":
                mnames.append(f["name"])
            elif c in ("AnonymousStructDecl", "AnonymousUnionDecl"):
                mnames.append(None)
            else:
                raise AnalysisError(f"{rel}:{mdline}: {key}: unexpected member {c!r} in fields")
        cnames = [f["name"] for f in cf]
        if mnames != cnames:
            ms, cs = [x for x in mnames if x], [x for x in cnames if x]
            for x in ms:
                if x not in cs:
                    ln = next(f["__line__"] for f in mdfields if f.get("name") == x)
                    self.bad("R-TV-STRUCT", f"{key}.{x}", rel, ln, f"field {x} of {key} is described by the metadata "
                             f"but is not a member of {rec['tag']} {rec['name'] or '(anonymous)'} "
                             f"({rec['file']}:{rec['line']})")
            for x in cs:
                if x not in ms:
                    fl = next(f for f in cf if f["name"] == x)
                    self.bad("R-TV-STRUCT", f"{key}.{x}", rec["file"], fl["line"],
                             f"member {x} of {rec['tag']} {rec['name'] or '(anonymous)'} is missing from the metadata of {key}")
            if self.mismatches == n0:
                # same names, different order (or anonymous members moved)
                i = next(i for i, (a, b) in enumerate(zip(mnames + [0], cnames + [0])) if a != b)
                a = mnames[i] if i < len(mnames) else None
                ln = mdfields[i]["__line__"] if i < len(mdfields) else mdline
                self.bad("R-TV-STRUCT", f"{key}.{a or '<anonymous>'}", rel, ln,
                         f"field order of {key} differs from the header at position {i}: metadata has "
                         f"{a or 'an anonymous member'}, C has {cnames[i] if i < len(cnames) else 'nothing'}")
        # types of the members both sides have (by name; anonymous members pairwise in order)
        cby = {f["name"]: f for f in cf if f["name"]}
        canon_c = [f for f in cf if f["name"] is None]
        canon_m = [f for f in mdfields if f.get("__class__") != "StructFieldDecl"]
        for f in mdfields:
            if f.get("__class__") != "StructFieldDecl":
                continue
            c = cby.get(f["name"])
            if c is None:
                continue
            self.fields += 1
            self.field_type(f"{key}.{f['name']}", f["type"], c, rel, f["__line__"])
        for m, c in zip(canon_m, canon_c):
            self.anon(f"{key}.<anonymous>", m, c, rel, m["__line__"])
        return self.mismatches - n0

    def anon(self, key, m, c, rel, line):
        want = "union" if m["__class__"] == "AnonymousUnionDecl" else "struct"
        rec = c["anon"]
        if rec is None:
            self.bad("R-TV-STRUCT", key, rel, line, f"{key}: metadata says anonymous {want}, C type is {c['t']}")
            return
        if rec["tag"] != want:
            self.bad("R-TV-STRUCT", key, rel, line, f"{key}: metadata says anonymous {want}, C declares a {rec['tag']}")
        self.fields_of(key.replace(".<anonymous>", "") if c["name"] is None else key, m["fields"], rec, rel, line)

    def field_type(self, key, mdt, c, rel, line):
        cls = mdt.get("__class__") if isinstance(mdt, dict) else None
        if c["bitfield"]:
            raise AnalysisError(f"{c and rel}: {key} is a bit-field; the metadata schema cannot express it")
        if cls in ("AnonymousStructDecl", "AnonymousUnionDecl"):
            if c["anon"] is None or not c["t"].endswith(")"):
                self.bad("R-TV-STRUCT", key, rel, line, f"{key}: metadata says anonymous "
                         f"{'union' if cls.endswith('UnionDecl') else 'struct'}, C type is {c['t']}")
                return
            self.anon(key, mdt, c, rel, line)
            return
        if c["anon"] is not None:
            self.bad("R-TV-STRUCT", key, rel, line, f"{key}: C declares an unnamed {c['anon']['tag']} type, "
                     f"metadata says {cls}")
            return
        mt = self.canon.md(mdt, f"{rel}:{line}")
        ct = self.canon.tree(cheaders.parse_type(c["t"]))
        if mt != ct:
            self.bad("R-TV-STRUCT", key, rel, line, f"{key}: metadata type `{cheaders.show(mt)}` but the header "
                     f"declares `{cheaders.show(ct)}` ({c['t']})")

    def struct(self, key, sd, rel):
        H = self.H
        line = sd.get("__line__", 0)
        if sd.get("__class__") != "StructDecl":
            raise AnalysisError(f"{rel}:{line}: STRUCTS[{key!r}] is not a StructDecl")
        if sd["name"] != key:
            self.bad("R-TV-STRUCT", key, rel, line, f"STRUCTS key {key!r} holds the description of {sd['name']!r}")
            return
        td = H.typedefs.get(key)
        if td is None or not td["t"].startswith(("struct ", "union ")):
            self.bad("R-TV-STRUCT", key, rel, line, f"{key} is described by the metadata but is not a struct typedef "
                     f"of the public headers")
            return
        n0 = self.mismatches
        if " ".join(sd["declname"].split()) != td["t"]:
            self.bad("R-TV-STRUCT", f"{key}.<declname>", rel, line, f"{key}: declname {sd['declname']!r}, header "
                     f"typedef names {td['t']!r}")
        rec = H.records.get(td["t"])
        if rec is None or not rec["complete"]:
            if sd["fields"]:
                self.bad("R-TV-STRUCT", key, rel, line, f"{key} is opaque in the public headers ({td['file']}:"
                         f"{td['line']}) but the metadata lists {len(sd['fields'])} fields")
        else:
            if not sd["fields"] and rec["fields"]:
                self.bad("R-TV-STRUCT", key, rel, line, f"{key} has {len(rec['fields'])} members in {rec['file']} but "
                         f"the metadata describes it as opaque (fields=())")
            else:
                self.fields_of(key, sd["fields"], rec, rel, line)
        if self.mismatches == n0:
            nf = len(sd["fields"])
            self.res.ok("R-TV-STRUCT", key, {"metadata": f"{rel}:{line}", "header": f"{td['file']}:{td['line']}",
                                             "fields_compared": nf, "declname": td["t"],
                                             "first_fields": [f.get("name") for f in sd["fields"][:3]]})

    # -- enums
    def enum(self, key, ed, rel):
        H = self.H
        line = ed.get("__line__", 0)
        if ed.get("__class__") != "EnumDecl":
            raise AnalysisError(f"{rel}:{line}: ENUMS[{key!r}] is not an EnumDecl")
        if ed["name"] != key:
            self.bad("R-TV-ENUM", key, rel, line, f"ENUMS key {key!r} holds the description of {ed['name']!r}")
            return
        td = H.typedefs.get(key)
        en = H.enums.get(td["t"]) if td else None
        if en is None:
            self.bad("R-TV-ENUM", key, rel, line, f"{key} is described by the metadata but is not an enum typedef of "
                     f"the public headers")
            return
        n0 = self.mismatches
        if " ".join(ed["declname"].split()) != td["t"]:
            self.bad("R-TV-ENUM", f"{key}.<declname>", rel, line, f"{key}: declname {ed['declname']!r}, header typedef "
                     f"names {td['t']!r}")
        mv = ed["values"]
        if not isinstance(mv, dict) or not all(isinstance(v, int) and not isinstance(v, bool) for v in mv.values()):
            raise AnalysisError(f"{rel}:{line}: values of {key} are not a name->int mapping")
        cv = dict(en["values"])
        if len(cv) != len(en["values"]):
            raise AnalysisError(f"{en['file']}:{en['line']}: duplicate enumerator in {key}")
        for name, v in mv.items():
            self.enumerators += 1
            if name not in cv:
                self.bad("R-TV-ENUM", f"{key}.{name}", rel, line, f"enumerator {name} of {key} is in the metadata but "
                         f"not in {en['file']}:{en['line']}")
            elif cv[name] != v:
                self.bad("R-TV-ENUM", f"{key}.{name}", rel, line, f"{key}.{name}: metadata value {v}, the compiler "
                         f"computes {cv[name]} ({en['file']}:{en['line']})")
        for name in cv:
            if name not in mv:
                self.bad("R-TV-ENUM", f"{key}.{name}", en["file"], en["line"], f"enumerator {name} = {cv[name]} of "
                         f"{key} is missing from the metadata")
        if self.mismatches == n0 and list(mv) != [n for n, _ in en["values"]]:
            i = next(i for i, (a, b) in enumerate(zip(list(mv), [n for n, _ in en["values"]])) if a != b)
            self.bad("R-TV-ENUM", f"{key}.{list(mv)[i]}", rel, line, f"enumerator order of {key} differs from the "
                     f"header at position {i}")
        if self.mismatches == n0:
            first = en["values"][0] if en["values"] else None
            self.res.ok("R-TV-ENUM", key, {"metadata": f"{rel}:{line}", "header": f"{en['file']}:{en['line']}",
                                           "enumerators": len(mv), "first": first, "last": en["values"][-1]})

    # -- functions
    def function(self, key, fd, rel, variadic_skipped):
        H = self.H
        line = fd.get("__line__", 0)
        if fd.get("__class__") != "FunctionDecl":
            raise AnalysisError(f"{rel}:{line}: FUNCTIONS[{key!r}] is not a FunctionDecl")
        if fd["name"] != key:
            self.bad("R-TV-FUNC", key, rel, line, f"FUNCTIONS key {key!r} holds the description of {fd['name']!r}")
            return
        fn = H.functions.get(key)
        if fn is None:
            self.bad("R-TV-FUNC", key, rel, line, f"{key} is described by the metadata but is not declared in the "
                     f"public headers")
            return
        n0 = self.mismatches
        where = f"{fn['file']}:{fn['line']}"
        for rd in fn.get("redecl", ()):
            if rd["type"] != fn["type"]:
                raise AnalysisError(f"{where}: {key} is redeclared with a different type")
        mret = self.canon.md(fd["return_type"], f"{rel}:{line}")
        cret = self.canon.tree(cheaders.function_return(fn, H.consts))
        if mret != cret:
            self.bad("R-TV-FUNC", f"{key}.<return>", rel, line, f"{key}: metadata return type `{cheaders.show(mret)}`, "
                     f"header declares `{cheaders.show(cret)}` ({where})")
        mp, cp = fd["parameters"], fn["params"]
        if len(mp) != len(cp):
            self.bad("R-TV-FUNC", f"{key}.<arity>", rel, line, f"{key}: metadata lists {len(mp)} parameters "
                     f"({[p.get('name') for p in mp]}), header declares {len(cp)} ({[p['name'] for p in cp]}) ({where})")
        for i, (m, c) in enumerate(zip(mp, cp)):
            self.params += 1
            if m.get("__class__") != "FunctionParameterDecl":
                raise AnalysisError(f"{rel}:{line}: parameter {i} of {key} is not a FunctionParameterDecl")
            pl = m.get("__line__", line)
            if m["name"] != c["name"]:
                self.bad("R-TV-FUNC", f"{key}.{m['name']}", rel, pl, f"{key}: parameter {i} is named {m['name']!r} in "
                         f"the metadata and {c['name']!r} in the header ({where})")
                continue
            mt = self.canon.md(m["type"], f"{rel}:{pl}")
            declared, adjusted = cheaders.param_type(c, {**H.macros, **H.consts}, where)
            ct = self.canon.tree(declared)
            if mt != ct:
                self.bad("R-TV-FUNC", f"{key}.{m['name']}", rel, pl, f"{key}: parameter {m['name']} has metadata type "
                         f"`{cheaders.show(mt)}` but the header declares `{cheaders.show(ct)}` ({where})")
        if fn["variadic"]:
            variadic_skipped.append(key)
        if self.mismatches == n0:
            self.res.ok("R-TV-FUNC", key, {"metadata": f"{rel}:{line}", "header": where,
                                           "type": fn["type"], "params": len(cp)})


def run(res, tier):
    repo = os.path.abspath(REPO)
    ct, md = load_metadata(repo)
    excl_rel, excluded = load_exclusions(repo)
    H = cheaders.load(repo)
    canon = Canon(H)
    res.rule("R-TV-STRUCT", "every STRUCTS entry equals the compiler's struct: tag, field names, order, types, extents, "
             "anonymous members", floor=FLOOR_STRUCTS)
    res.rule("R-TV-ENUM", "every ENUMS entry equals the compiler's enum: enumerator names, order and values",
             floor=FLOOR_ENUMS)
    res.rule("R-TV-FUNC", "every FUNCTIONS entry equals the compiler's prototype: return type, parameter names and "
             "types (array extents from the declaration)", floor=FLOOR_FUNCS)
    res.rule("R-TV-COVER", "every public struct/enum typedef and function of include/mujoco is in the metadata or in "
             "the generator's own exclusion list", floor=FLOOR_COVER)
    cmp_ = Cmp(res, H, canon)
    srel, S = md["STRUCTS"]
    erel, E = md["ENUMS"]
    frel, F = md["FUNCTIONS"]
    for key, sd in S.items():
        cmp_.struct(key, sd, srel)
    for key, ed in E.items():
        cmp_.enum(key, ed, erel)
    variadic = []
    for key, fd in F.items():
        cmp_.function(key, fd, frel, variadic)

    # converse direction
    excl_used = set()
    untypedefd = []
    pub_structs = {n: td for n, td in H.typedefs.items() if td["t"].startswith(("struct ", "union ")) and "(" not in td["t"]}
    pub_enums = {n: td for n, td in H.typedefs.items() if td["t"].startswith("enum ") and "(" not in td["t"]}
    tagged = {td["t"] for td in H.typedefs.values()}
    for key, rec in H.records.items():
        if key not in tagged:
            untypedefd.append(key)
    for key, en in H.enums.items():
        if key not in tagged:
            untypedefd.append(key)

    def cover(kind, name, table, td_or_fn, extra_names=()):
        if name in table:
            res.ok("R-TV-COVER", f"{kind}:{name}", None)
            return
        hit = [x for x in (name,) + tuple(extra_names) if x in excluded]
        if hit:
            excl_used.update(hit)
            res.ok("R-TV-COVER", f"{kind}:{name}", {"excluded_by": f"{excl_rel}: {hit[0]}",
                                                    "header": f"{td_or_fn['file']}:{td_or_fn['line']}"})
            return
        cmp_.bad("R-TV-COVER", f"{kind}:{name}", td_or_fn["file"], td_or_fn["line"],
                 f"public {kind} {name} is declared in the headers but is neither in the introspect metadata nor in "
                 f"the generator's exclusion list ({excl_rel})")
    for name, td in sorted(pub_structs.items()):
        cover("struct", name, S, td, (td["t"].split(" ", 1)[1],))
    for name, td in sorted(pub_enums.items()):
        cover("enum", name, E, td)
    for name, fn in sorted(H.functions.items()):
        if fn["storage"] == "static":
            continue
        cover("function", name, F, fn)

    compared = len(S) + len(E) + len(F)
    res.count("structs", len(S))
    res.count("enums", len(E))
    res.count("functions", len(F))
    res.count("struct_fields", cmp_.fields)
    res.count("enumerators", cmp_.enumerators)
    res.count("parameters", cmp_.params)
    res.count("header_files", len(H.files))
    res.extra["programs"] = compared
    res.extra["disagreements_checked"] = cmp_.mismatches
    res.extra["exclusion_list"] = {"source": excl_rel, "names": sorted(excluded), "used": sorted(excl_used),
                                   "stale_or_tag_only": sorted(excluded - excl_used)}
    res.extra["variadic_functions_named_parameters_only"] = sorted(variadic)
    res.extra["tagged_types_without_typedef"] = sorted(untypedefd)
    res.extra["header_files"] = H.files
    res.trusted = ["clang 14 parser/type checker/constant evaluator (JSON AST)",
                   "CPython ast module (parsing only; no repository module is imported)"]
    res.explanation = (
        "Translation validation of python/mujoco/introspect/{structs,enums,functions}.py against include/mujoco as "
        "type-checked by clang through <mujoco/mujoco.h>. The metadata is evaluated by a literal-only evaluator (no "
        "import); both sides are normalised into the metadata's own type algebra (value/pointer/array trees with "
        "qualifiers per level) and compared structurally: struct tags, field names, field ORDER, field types, array "
        "extents (compiler-evaluated), anonymous struct/union members; enumerator names, order and values "
        "(evaluated from the initialiser AST and cross-checked with clang's folded constant); function return types, "
        "parameter names and types (array parameter extents re-read from the declaration and validated against the "
        "compiler's adjusted type). The converse direction enumerates every struct/enum typedef and every function of "
        "the public headers and requires it in the metadata unless the generator's own exclusion list names it.")
    res.not_decided = (
        "parse_type/decl round trip (needs execution); doc strings, `nullable` marks and the comment-derived "
        "`array_extent` of StructFieldDecl; the `...` of variadic functions (ast_nodes.FunctionDecl has no field for "
        "it: named parameters are compared, the functions are listed in variadic_functions_named_parameters_only); "
        "tagged structs that have no typedef (outside the generator's export rule, listed in "
        "tagged_types_without_typedef); headers not reachable from mujoco.h (mjrfilament.h, experimental/).")
    res.assumptions = ["the metadata modules bind STRUCTS/ENUMS/FUNCTIONS by a single literal assignment and are not "
                       "modified at import time by other code",
                       "the platform ABI plays no role: only declared types, names and integer constant values are compared"]
