"""C01 Simulation is a deterministic function of the integration state.

Decided (necessary structural conditions, whole engine):
  R-GLOBAL      in the closure of mj_step / mj_forward / mj_inverse (call graph incl. function-pointer tables and task
                functions): no write to an object of static storage that is not thread-local, and no call to an ambient
                nondeterminism source (rand, time, clock, getenv, ...); the log channel (engine_util_errmem.c) is the one
                named exception: its state flows only to log output
  R-COVER-COPY  mj_copyData copies everything: every pointer member of struct mjData_ is a row of MJDATA_POINTERS or
                MJDATA_ARENA_POINTERS (or buffer/arena) with the declared element type, and mj_copyDataVisual(flg_all=1)
                performs the whole-struct copy plus one memcpy per row with that row's type and extent
  R-ARENA-STALE every function that rewinds the arena pointer (plain assignment to d->parena) clears the arena-backed
                pointers (mj_clearEfc / clearIsland, inferred as "who assigns NULL to the arena fields") in the same
                function, or is a static helper all of whose callers do; otherwise pointers into recycled arena memory would
                carry data of a previous call
  R-TABLE-STATE / R-STATE-LOOP / R-COVER-RESET  the state API tables, loops and reset coverage (rules shared with C26); lazy
                flags are decided under C04
Not decided: bit-identity of floating-point results; reads of uninitialised stack/arena memory along feasible paths.
"""
from __future__ import annotations

import re

from .. import callgraph, cir, ctypeinfo, engine, specialise, xmacro
from ..cfront import AnalysisError

NONDET = {"rand", "random", "srand", "srandom", "drand48", "lrand48", "time", "clock", "clock_gettime", "gettimeofday",
          "getenv", "secure_getenv", "getpid", "gettid", "rand_r", "arc4random", "timespec_get", "localtime", "gmtime"}
LOG_TU = "src/engine/engine_util_errmem.c"
IO = "src/engine/engine_io.c"



def arena_stale(res, g, arena_names):
    """R-ARENA-STALE (shared with C20): what a rewind of d->parena releases is cleared with it."""
    # ---------------------------------------------------------------- R-ARENA-STALE
    res.rule("R-ARENA-STALE", "every arena rewind is accompanied by clearing the arena-backed pointers", floor=6)
    from .. import r_nullable
    clr_by_tu = engine.map_tus("sa.r_nullable", "clearers_of", engine.engine_tus())
    clearers = set()
    for tu, c in clr_by_tu.items():
        for fld, names in c.items():
            if fld in arena_names and fld != "contact":
                clearers |= set(names)
    # only functions that clear at least the solver block count as clearers of the constraint arena
    if not {"mj_clearEfc"} <= clearers:
        raise AnalysisError("mj_clearEfc not inferred as an arena clearer")
    rewinders = {}
    for k, f in g.funcs.items():
        for e in f["events"]:
            if e["struct"] == "mjData" and e["field"] == "parena" and e["kind"] == "assign" and e.get("op") == "=":
                rewinders.setdefault(k, []).append(e["line"])
    callers = {}
    for k, f in g.funcs.items():
        for c in g.callees(k, indirect=False):
            callers.setdefault(c, set()).add(k)
    # what a rewind goes back to decides what must be cleared with it: back to the end of the contact array (or to 0) releases
    # every constraint array, so the efc block must be cleared; back to a saved local releases what was allocated since
    core = ("efc_type", "efc_J", "efc_D", "efc_force")       # every one of these must be cleared by an "efc clearer"
    per_field = {}
    for tu, c in clr_by_tu.items():
        for fld, names in c.items():
            per_field.setdefault(fld, set()).update(names)
    if not all(f_ in per_field for f_ in core):
        raise AnalysisError(f"no function clears the constraint arrays {[f_ for f_ in core if f_ not in per_field]}")
    efc_clearers = set.intersection(*(per_field[f_] for f_ in core))
    if "mj_clearEfc" not in efc_clearers:
        raise AnalysisError("mj_clearEfc not inferred as the clearer of the constraint arrays")

    def rewind_kind(k):
        u_ = engine.unit(k[0]) if k[0].endswith((".c", ".cc")) else None
        fn_ = u_.funcs.get(k[1]) if u_ is not None else None
        if fn_ is None:
            for tu_ in engine.engine_tus():
                fn_ = engine.unit(tu_).funcs.get(k[1])
                if fn_ is not None:
                    break
        kinds = set()
        for x in cir.walk(fn_) if fn_ is not None else ():
            if x.get("k") == "BinaryOperator" and x.get("op") == "=" and re.fullmatch(r"\w+->parena", cir.text(cir.kids(x)[0])):
                rhs = cir.text(cir.kids(x)[1])
                if "ncon" in rhs and "mjContact" in rhs or cir.strip(cir.kids(x)[1]).get("k") == "IntegerLiteral":
                    kinds.add("full")
                else:
                    kinds.add("partial")
        return kinds or {"partial"}

    # a rewind wrapped in a private helper is a rewind of each caller
    expanded = {}
    for k, lines in rewinders.items():
        f = g.funcs[k]
        kinds = rewind_kind(k)
        helper_like = f["static"] and callers.get(k) and not (f["calls"] or [])
        if helper_like and k[1] not in ("mj_arenaAllocByte",):
            for c in callers[k]:
                e = expanded.setdefault(c, {"lines": [], "kinds": set(), "via": set()})
                e["lines"] += lines
                e["kinds"] |= kinds
                e["via"].add(k[1])
        else:
            e = expanded.setdefault(k, {"lines": [], "kinds": set(), "via": set()})
            e["lines"] += lines
            e["kinds"] |= kinds
    if len(expanded) < 6:
        raise AnalysisError(f"only {len(expanded)} arena rewinding functions found")

    def clears(k, depth=0, which=None):
        """k clears the arena-backed pointers itself, by calling a clearer, or through static helpers of its own file"""
        which = clearers if which is None else which
        f = g.funcs[k]
        if k[1] in which:
            return True
        if any(c in which for c in f["calls"]):
            return True
        if depth < 3:
            for c in g.callees(k, indirect=False):
                cf_ = g.funcs.get(c)
                if cf_ is not None and cf_["static"] and cf_["file"] == f["file"] and c != k and clears(c, depth + 1, which):
                    return True
        return False

    for k, info in sorted(expanded.items()):
        f = g.funcs[k]
        name = k[1]
        lines = info["lines"]
        if name in ("mj_arenaAllocByte",):
            continue
        which = efc_clearers if "full" in info["kinds"] else clearers
        what = "the constraint (efc_*) arrays" if "full" in info["kinds"] else "the arena-backed pointers"
        if clears(k, which=which):
            res.ok("R-ARENA-STALE", name, {"clears_in_function": True, "rewind": sorted(info["kinds"]), "via": sorted(info["via"])})
            continue
        cs = callers.get(k, set())
        if f["static"] and cs and all(clears(c, which=which) or
                                      all(clears(c2, which=which) for c2 in callers.get(c, set()) or [None] if c2) and callers.get(c)
                                      for c in cs):
            res.ok("R-ARENA-STALE", name, {"cleared_by_callers": sorted(c[1] for c in cs), "rewind": sorted(info["kinds"])})
        else:
            res.bad("R-ARENA-STALE", name, f["file"], lines[0],
                    f"{name} rewinds d->parena ({'to the end of the contact array' if 'full' in info['kinds'] else 'to a saved value'}"
                    f"{' through ' + ', '.join(sorted(info['via'])) if info['via'] else ''}) but neither it nor all of its callers "
                    f"({sorted(c[1] for c in cs)[:4]}) clear {what}: stale efc/island pointers would alias recycled arena memory")



def contact_init(res):
    """R-CONTACT-INIT: contacts are built in uninitialised storage (stack arrays, recycled arena) and copied into d->contact.
    Every member of struct mjContact must therefore be written somewhere in the collision driver (the translation unit that
    creates contacts) — a member it never writes keeps whatever the memory held, and later stages that skip a contact (excluded,
    in the gap) read it: the result then depends on the history of the arena."""
    from .. import modref as _mr
    DRV = "src/engine/engine_collision_driver.c"
    res.rule("R-CONTACT-INIT", "every member of mjContact is written in the translation unit that creates contacts", floor=15)
    fields = [f["name"] for f in ctypeinfo.fields("mjContact_")]
    if len(fields) < 15:
        raise AnalysisError(f"struct mjContact_ has only {len(fields)} members in the header probe")
    u = engine.unit(DRV)
    written = {}

    def contact_member(e):
        e = cir.strip(e)
        while e is not None and e.get("k") in ("ArraySubscriptExpr",):
            e = cir.strip(cir.kids(e)[0])
        if e is not None and e.get("k") == "UnaryOperator" and e.get("op") == "&":
            return contact_member(cir.kids(e)[0])
        if e is not None and e.get("k") == "BinaryOperator" and e.get("op") in ("+", "-"):
            return contact_member(cir.kids(e)[0])
        if e is not None and e.get("k") == "MemberExpr":
            b = cir.strip(cir.kids(e)[0])
            t = (b.get("t") or "") if b is not None else ""
            if re.search(r"\bmjContact(_)?\b", t.replace("struct ", "")) and "const" not in t.split("*")[0]:
                return e.get("n")
        return None
    for name, fn in u.funcs.items():
        if (fn.get("file") or u.tu) != u.tu:
            continue
        for x in cir.walk(fn):
            k = x.get("k")
            if (k == "BinaryOperator" and x.get("op") == "=") or k == "CompoundAssignOperator":
                f = contact_member(cir.kids(x)[0])
                if f:
                    written.setdefault(f, name)
            elif cir.is_call(x):
                ce = cir.callee_expr(x)
                pt = _mr._param_types((ce.get("ref") or {}).get("t") if ce is not None and ce.get("k") == "DeclRefExpr" else None)
                for j, a in enumerate(cir.args(x)):
                    f = contact_member(a)
                    if f and ("*" in (cir.strip(a).get("t") or "") or "[" in (cir.strip(a).get("t") or "")) and \
                            (j >= len(pt) or not _mr._const_pointee(pt[j])):
                        written.setdefault(f, name)
    for f in fields:
        if f in written:
            res.ok("R-CONTACT-INIT", f"mjContact:{f}", {"written_in": written[f]})
        else:
            res.bad("R-CONTACT-INIT", f"mjContact:{f}", DRV, 0,
                    f"no function of {DRV} writes mjContact.{f}: a fresh contact carries whatever its storage held (stack / recycled "
                    f"arena), and stages that skip the contact later leave it so — the value read there depends on earlier calls")



def sensor_output_written(res):
    """R-SENSOR-WRITTEN: the function that either computes a sensor or reads its held / delayed sample from the history buffer
    (found by role in engine_sensor.c: it reads m->sensor_history and hands its output-pointer parameter to callees) hands that
    output to a writer on every path.  sensordata is not part of the integration state: a path that leaves it as it was makes
    the reading depend on what the receiving mjData held before (after mj_setState / mj_copyState into another mjData)."""
    from .. import paths
    SENS = "src/engine/engine_sensor.c"
    res.rule("R-SENSOR-WRITTEN", "the compute-or-read routine of the sensor stage writes its output on every path", floor=1)
    u = engine.unit(SENS)
    cands = []
    for name, fn in u.funcs.items():
        if (fn.get("file") or u.tu) != u.tu:
            continue
        outs = [p_ for p_ in cir.params(fn) if (p_.get("t") or "").replace(" ", "") == "mjtNum*"]
        if len(outs) != 1:
            continue
        reads_hist = any(x.get("k") == "MemberExpr" and x.get("n") == "sensor_history" for x in cir.walk(fn))
        callees = {cir.callee(c) for c in cir.calls(fn) if any(cir.text(a) == outs[0].get("n") for a in cir.args(c))}
        if reads_hist and len(callees) >= 2:
            cands.append((fn, outs[0].get("n")))
    if len(cands) != 1:
        raise AnalysisError(f"{SENS}: the compute-or-read routine (reads m->sensor_history, hands its mjtNum* output to two or more "
                            f"callees) was not identified ({[f.get('n') for f, _ in cands]})")
    fn, out = cands[0]

    class W(paths.Rule):
        def initial(self, f):
            return False

        def call(self, st, node, name, ctx):
            return st or any(cir.text(a) == out for a in cir.args(node))

        def assign(self, st, node, ctx):
            if node.get("k") != "VarDecl" and cir.text(cir.kids(node)[0]).startswith(out + "["):
                return True
            return st

        def ret(self, st, node, ctx):
            if not st:
                ctx.report(node, "return")

        def fallthrough(self, st, ctx):
            if not st:
                ctx.report(ctx.fn, "end")
    ctx = paths.explore(W(), u, fn)
    key = f"{fn.get('n')}:{out}"
    if ctx.reports:
        r = ctx.reports[0]
        res.bad("R-SENSOR-WRITTEN", key, SENS, r["line"],
                f"{fn.get('n')} reaches its {r['msg']} at line {r['line']} on a path that hands `{out}` to no writer: the sensor keeps the "
                f"value the mjData held before — after a state transfer into another mjData the reading (and whatever a control "
                f"callback derives from it) depends on that mjData's history")
    else:
        res.ok("R-SENSOR-WRITTEN", key, None)


def run(res, tier):
    g = callgraph.build()
    roots = [g.find(n) for n in ("mj_step", "mj_step1", "mj_step2", "mj_forward", "mj_forwardSkip", "mj_inverse", "mj_inverseSkip")]
    if any(r is None for r in roots):
        raise AnalysisError("simulation entry points not found")
    clo = g.closure(roots)
    res.count("closure_functions", len(clo))
    if len(clo) < 500:
        raise AnalysisError(f"simulation closure has only {len(clo)} functions: call graph lost edges")
    res.rule("R-GLOBAL", "no non-thread-local static storage written and no ambient nondeterminism source called in the simulation closure",
             floor=500)
    statics = {}
    for (tu, name), v in g.statics.items():
        statics.setdefault(name.split("::")[-1] if "::" not in name else name, []).append(v)
        statics.setdefault(name, []).append(v)
    for k in sorted(clo):
        f = g.funcs[k]
        problems = []
        in_log = f["file"] == LOG_TU
        for var, line in f.get("gwrites", ()):
            infos = statics.get(var) or []
            tls = any(i.get("tls") for i in infos)
            if tls or in_log:
                continue
            problems.append((line, f"writes static-storage object `{var}` which is not thread-local: hidden state shared between "
                                   f"mjData instances and calls"))
        for c in f["calls"]:
            if c in NONDET and not in_log:
                problems.append((f["line"], f"calls {c}(): ambient nondeterminism source"))
        if problems:
            for line, msg in problems:
                res.bad("R-GLOBAL", f"{k[1]}", f["file"], line, f"{k[1]} (simulation closure) {msg}")
        else:
            res.ok("R-GLOBAL", k[1], None)
    # function-local and file statics that are written anywhere in the closure were handled above; list the statics that
    # exist in closure functions for the evidence
    res.extra["statics_in_closure_tus"] = sorted({f"{tu}:{n}" for (tu, n), v in g.statics.items() if not v.get("const")})[:60]

    # ---------------------------------------------------------------- R-COVER-COPY
    res.rule("R-COVER-COPY", "mj_copyData covers every member of mjData with the declared type and extent", floor=150)
    dptr = {r["name"]: r for r in xmacro.pointers("MJDATA_POINTERS")}
    aptr = {r["name"]: r for r in xmacro.pointers("MJDATA_ARENA_POINTERS")}
    for f in ctypeinfo.fields("mjData_"):
        t = f["type"]
        if "*" not in t:
            continue
        name = f["name"]
        row = dptr.get(name) or aptr.get(name)
        if name in ("buffer", "arena"):
            res.ok("R-COVER-COPY", f"member:{name}", None)
        elif row is None:
            res.bad("R-COVER-COPY", f"member:{name}", "include/mujoco/mjdata.h", f["line"],
                    f"pointer member mjData.{name} ({t}) is in neither MJDATA_POINTERS nor MJDATA_ARENA_POINTERS: mj_copyData and "
                    f"mj_makeData do not know about it")
        elif t.replace(" ", "") != (row["type"] + "*").replace(" ", ""):
            res.bad("R-COVER-COPY", f"member:{name}", "include/mujoco/mjdata.h", f["line"],
                    f"mjData.{name} is declared {t} but its X-macro row says {row['type']} *: copies use the wrong element size")
        else:
            res.ok("R-COVER-COPY", f"member:{name}", None)
    fields = {f["name"] for f in ctypeinfo.fields("mjData_")}
    for n in list(dptr) + list(aptr):
        if n not in fields:
            res.bad("R-COVER-COPY", f"row:{n}", "include/mujoco/mjxmacro.h", 0, f"X-macro row {n} is not a member of struct mjData_")
    u = engine.unit(IO)
    fn = u.funcs.get("mj_copyDataVisual")
    if fn is None or "mj_copyData" not in u.funcs:
        raise AnalysisError("mj_copyDataVisual / mj_copyData not found")
    # mj_copyData must call it with flg_all = 1
    call = [c for c in cir.calls(u.funcs["mj_copyData"], "mj_copyDataVisual")]
    if len(call) != 1 or cir.text(cir.args(call[0])[3]) != "1":
        res.bad("R-COVER-COPY", "mj_copyData:flg_all", IO, u.funcs["mj_copyData"].get("line"), "mj_copyData does not request the full copy")
    else:
        res.ok("R-COVER-COPY", "mj_copyData:flg_all", None)
    live = specialise.Specialiser(u).live(fn, {"flg_all": 1})
    struct_copy = False
    copied = {}
    for kind, n in specialise.nodes(live):
        if n.get("k") == "BinaryOperator" and n.get("op") == "=" and cir.text(cir.kids(n)[0]) == "*dest" and cir.text(cir.kids(n)[1]) == "*src":
            struct_copy = True
        if cir.is_call(n) and cir.callee(n) == "memcpy":
            a = cir.args(n)
            d_, s_ = cir.text(a[0]), cir.text(a[1])
            if d_.startswith("dest->") and s_.startswith("src->") and d_[6:] == s_[5:]:
                copied[d_[6:]] = cir.text(a[2])
    if struct_copy:
        res.ok("R-COVER-COPY", "copy:whole-struct", None)
    else:
        res.bad("R-COVER-COPY", "copy:whole-struct", IO, fn.get("line"), "no `*dest = *src` copy of the scalar members")

    def norm(t):
        t = t.replace("(", " ").replace(")", " ")
        fs = sorted(x.strip().replace("src->", "").replace("m->", "").replace("d->", "") for x in t.split("*") if x.strip() and x.strip() != "1")
        return fs
    for name, row in list(dptr.items()) + list(aptr.items()):
        if name == "contact" and name not in copied:
            # the contact array is the start of the arena and is copied with it? it must still be copied explicitly
            pass
        if name not in copied:
            res.bad("R-COVER-COPY", f"copy:{name}", IO, fn.get("line"), f"mj_copyData does not copy the array d->{name}")
            continue
        want = norm(f"sizeof {row['type']} * {row['nr']} * {row['nc']}")
        got = norm(copied[name].replace("sizeof(", "sizeof ").replace(")", " "))
        if want == got:
            res.ok("R-COVER-COPY", f"copy:{name}", None)
        else:
            res.bad("R-COVER-COPY", f"copy:{name}", IO, fn.get("line"),
                    f"d->{name} is copied with size `{copied[name]}` but its row is {row['type']} x {row['nr']} x {row['nc']}")

    arena_stale(res, g, set(aptr))
    contact_init(res)
    sensor_output_written(res)
    # ---------------------------------------------------------------- R-ITERATE-INIT
    # The solvers start from (qacc, efc_force).  The function that prepares that starting point (it reads qacc_warmstart and is
    # called by the constraint stage before the solver dispatch) must define both on every path: efc_force lives in the arena,
    # whose memory is recycled from call to call, so a path that leaves it unwritten lets the result depend on what an earlier
    # call happened to leave there (PGS iterates in place on efc_force).
    res.rule("R-ITERATE-INIT", "the solver's starting point (qacc, efc_force) is written on every path of the warm/cold-start routine", floor=2)
    from .. import modref, paths, r_fresh
    uf_ = engine.unit("src/engine/engine_forward.c")
    fc = uf_.funcs.get("mj_fwdConstraint")
    if fc is None:
        raise AnalysisError("mj_fwdConstraint not found")
    starters = [cir.callee(c) for c in cir.calls(fc) if cir.callee(c) in uf_.funcs and
                any(x.get("k") == "MemberExpr" and x.get("n") == "qacc_warmstart" for x in cir.walk(uf_.funcs[cir.callee(c)]))]
    starters = sorted(set(starters))
    if len(starters) != 1:
        raise AnalysisError(f"warm/cold-start routine (callee of mj_fwdConstraint reading qacc_warmstart) not identified: {starters}")
    from .. import norm
    wfn = norm.canon(uf_, starters[0], nested=False)
    NEED = ("qacc", "efc_force")

    class Init(paths.Rule):
        def initial(self, fn):
            return frozenset()

        def _ev(self, st, node):
            add = set()
            for e in modref.events(node, {"mjData"}):
                if e["field"] in NEED and e["kind"] in ("assign", "elem", "pass", "addr"):
                    add.add(e["field"])
            return st | add

        def call(self, st, node, name, ctx):
            st = self._ev(st, {"k": "CompoundStmt", "i": [node]})
            k_ = g.resolve(uf_.tu, name) if name else None
            if k_ is not None:
                st = st | (set(r_fresh.summary(g, k_)[1]) & set(NEED))
            return st

        def assign(self, st, node, ctx):
            return self._ev(st, {"k": "CompoundStmt", "i": [node]}) if node.get("k") != "VarDecl" else st

        def _exit(self, st, node, ctx):
            for f_ in NEED:
                if f_ not in st:
                    ctx.report(node, f_)

        def ret(self, st, node, ctx):
            self._exit(st, node, ctx)

        def fallthrough(self, st, ctx):
            self._exit(st, ctx.fn, ctx)
    ctx = paths.explore(Init(), uf_, wfn)
    missing = sorted({r["msg"] for r in ctx.reports})
    for f_ in NEED:
        if f_ in missing:
            ln = next(r["line"] for r in ctx.reports if r["msg"] == f_)
            res.bad("R-ITERATE-INIT", f"{starters[0]}:{f_}", "src/engine/engine_forward.c", ln,
                    f"{starters[0]} has a path that reaches its end without writing d->{f_}: the solver then starts from whatever the "
                    f"recycled memory holds (efc_force is arena memory), so two calls from the same state can differ")
        else:
            res.ok("R-ITERATE-INIT", f"{starters[0]}:{f_}", None)

    # ---------------------------------------------------------------- state tables and reset coverage (shared with C26)
    # "made by mj_copyState or mj_setState into a fresh, reset or previously used mjData": the state API must move exactly the
    # state components and reset must reinitialise everything the simulation writes.
    from . import c26 as _c26
    _c26.state_tables(res)
    _c26.reset_cover(res)

    res.explanation = (
        "Whole-engine ownership rules over the call graph of the simulation entry points (function-pointer tables, task "
        "functions and local function pointers resolved): no shared static state or ambient nondeterminism; complete "
        "coverage of struct mjData by the copy routine (row by row, with type and extent); arena rewinds paired with "
        "clearing of arena-backed pointers.")
    res.not_decided = ("bit-identity of floating point; uninitialised reads; user callbacks and plugins (external); state "
                       "tables / reset / lazy flags are decided under C26 and C04.")
    res.assumptions = ["callbacks (mjcb_*) and plugin function pointers are external and assumed deterministic",
                       "the log channel state (engine_util_errmem.c) flows only to log output"]
