"""C44 MJX data transfer and the state API are structurally consistent with C (R-XLANG / R-TABLE).

Python side: mjx/_src/io.py, types.py via `ast` (never imported).  C side: mj_stateElemSize / mj_stateElemPtr /
mj_getState / mj_setState / mj_stateSize in src/engine/engine_support.c (clang IR), struct members from the public
headers (sa.cheaders), array extents from the MJDATA_POINTERS X-macro (clang -E on a probe).

Decided
  R-STATE-MAP    for every single-bit mjtState element the C switch of mj_stateElemPtr (plus the `element == mjSTATE_X`
                 special cases of mj_getState/mj_setState) and MJX's _STATE_MAP name the same mjData field; no element
                 is known to one side only; every mapped name is a field of types.Data.
  R-STATE-SIZE   for every element, MJX's _state_elem_size (partially evaluated per element: constant tests on the
                 element's name, getattr(m, <name table>), `val *= k`, `k * m.n`) equals the C size expression
                 k * m-><n> of mj_stateElemSize; the size field is a member of types.Model.
  R-STATE-ORDER  state_size / get_state / set_state walk the bits as C does: ascending i over range(mjNSTATE),
                 element = mjtState(1 << i), guarded by `element & spec`; the C loops have the same shape; every element
                 whose C storage is not mjtNum (C special-cases it) is converted in both get_state and set_state.
  R-FIELDS       every field of types.Data / types.Model / types.Contact that io.py copies by name from the C object
                 (getattr copy loops) is a member of mjData / mjModel / mjContact; DataJAX fields copied under a
                 hasattr filter are C members or are assigned in the same function (derived).
  R-MAKEDATA     make_data builds exactly the field set of types.Data / types.DataJAX (explicit keywords + the literal
                 zero-field tables), so make_data and put_data produce the same pytree structure; each public zero field
                 has the shape of the C array: leading dimension m.<nr> and trailing extent product nc of its
                 MJDATA_POINTERS row.
Not decided: jit/vmap transparency and value round trips (need execution); Warp and C++ back ends.
"""
from __future__ import annotations

import ast
import os
import subprocess

from .. import cheaders, cir, engine
from ..cfront import CACHE, REPO, AnalysisError, build_flags
from . import c43

LEVEL = "other"
MJX = c43.MJX
SUPPORT_C = "src/engine/engine_support.c"


# --------------------------------------------------------------------------------------
# C side


def _label(n):
    x = cir.strip(n)
    if x is not None and x.get("k") == "DeclRefExpr" and (x.get("ref") or {}).get("k") == "EnumConstantDecl":
        return x["ref"]["n"]
    return None


def c_switch(fn, what):
    """{enumerator: normalised return expression} of the single switch in `fn`."""
    b = cir.body(fn)
    sws = [x for x in cir.walk(b) if x.get("k") == "SwitchStmt"]
    if len(sws) != 1:
        raise AnalysisError(f"{SUPPORT_C}: {fn.get('n')}: expected one switch, found {len(sws)}")
    comp = [c for c in cir.kids(sws[0]) if c and c.get("k") == "CompoundStmt"]
    if not comp:
        raise AnalysisError(f"{SUPPORT_C}: {fn.get('n')}: switch without compound body")
    table = {}
    pending = []

    def stmt(s):
        k = s.get("k")
        if k == "CaseStmt":
            c = [x for x in cir.kids(s) if x]
            lab = _label(c[0])
            if lab is None:
                raise AnalysisError(f"{SUPPORT_C}:{s.get('line')}: case label is not an enumerator")
            pending.append((lab, s.get("line")))
            stmt(c[-1])
        elif k == "ReturnStmt":
            c = [x for x in cir.kids(s) if x]
            if all(lab == "default" for lab, _ in pending):
                del pending[:]          # the error branch's own return value is not part of the table
                return
            v = what(c[0]) if c else None
            for lab, line in pending:
                if lab in table:
                    raise AnalysisError(f"{SUPPORT_C}:{line}: duplicate case {lab}")
                table[lab] = (v, line)
            del pending[:]
        elif k == "DefaultStmt":
            del pending[:]
            pending.append(("default", s.get("line")))
            # the default branch reports an error; whatever follows is its return
        else:
            if pending and pending[-1][0] != "default":
                raise AnalysisError(f"{SUPPORT_C}:{s.get('line')}: unsupported statement {k} under a case label")
    for s in cir.kids(comp[0]):
        if s:
            stmt(s)
    table.pop("default", None)
    return table


def _member_of(n, param):
    """field name if n is `param->field` (through casts), else None."""
    x = cir.strip(n)
    if x is not None and x.get("k") == "MemberExpr" and x.get("arrow"):
        base = cir.strip(cir.kids(x)[0])
        if base is not None and base.get("k") == "DeclRefExpr" and (base.get("ref") or {}).get("n") == param:
            return x.get("n")
    return None


def c_size_expr(n):
    """(k, field) for `k`, `m->field`, `k*m->field`, `m->field*k`."""
    x = cir.strip(n)
    if x is None:
        raise AnalysisError(f"{SUPPORT_C}: empty size expression")
    if x.get("k") == "IntegerLiteral":
        return (int(x["v"]), None)
    f = _member_of(x, "m")
    if f:
        return (1, f)
    if x.get("k") == "BinaryOperator" and x.get("op") == "*":
        a, b = (cir.strip(c) for c in cir.kids(x))
        for p, q in ((a, b), (b, a)):
            if p is not None and p.get("k") == "IntegerLiteral" and _member_of(q, "m"):
                return (int(p["v"]), _member_of(q, "m"))
    raise AnalysisError(f"{SUPPORT_C}:{x.get('line')}: unsupported size expression `{cir.text(x)}`")


def c_ptr_expr(n):
    x = cir.strip(n)
    if x is not None and x.get("k") == "UnaryOperator" and x.get("op") == "&":
        x = cir.strip(cir.kids(x)[0])
    f = _member_of(x, "d")
    if f:
        return f
    raise AnalysisError(f"{SUPPORT_C}:{n.get('line')}: unsupported element pointer `{cir.text(n)}`")


def c_special_elements(fn):
    """{enumerator: field} for the branch taken when `element == mjSTATE_X` (either polarity of the test, `continue`-style
    guards nested) in mj_getState/mj_setState: the data field that branch touches."""
    from .. import norm
    out = {}
    for n in cir.walk(cir.body(fn)):
        if n.get("k") != "IfStmt":
            continue
        _pre, cond, then, els = norm._if_parts(n)
        for atom, pol in norm.split_cond(cond, True):
            if atom.get("k") != "BinaryOperator" or atom.get("op") != "==":
                continue
            labs = [_label(x) for x in cir.kids(atom)]
            lab = next((x for x in labs if x), None)
            if not lab or not lab.startswith("mjSTATE_"):
                continue
            branch = then if pol else els
            if branch is None:
                continue
            dnames = {p.get("n") for p in cir.params(fn) if "mjData" in (p.get("t") or "")}
            fields = set()
            for x in cir.walk(branch):
                if x.get("k") == "MemberExpr" and x.get("arrow"):
                    base = cir.strip(cir.kids(x)[0])
                    if base is not None and base.get("k") == "DeclRefExpr" and (base.get("ref") or {}).get("n") in dnames:
                        fields.add(x.get("n"))
            if len(fields) != 1:
                raise AnalysisError(f"{SUPPORT_C}:{n.get('line')}: special case for {lab} touches {sorted(fields)}")
            out[lab] = fields.pop()
    return out


def c_loop_shape(fn):
    """True if fn has an element loop counting i from 0 to mjNSTATE by one with element = 1<<i and everything the body does
    guarded by `element & sig` (for or while form, if- or continue-style guard; decided on the canonical view)."""
    from .. import norm
    from . import c26
    body = cir.body(fn)
    for lp in cir.walk(body):
        if lp.get("k") not in ("ForStmt", "WhileStmt"):
            continue
        lb = cir.kids(lp)[-1]
        for x in cir.walk(lb):
            if x.get("k") == "VarDecl" and x.get("init"):
                k = [y for y in cir.kids(x) if y]
                e = cir.strip(k[-1]) if k else None
                if e is not None and e.get("k") == "BinaryOperator" and e.get("op") == "<<" and cir.text(cir.kids(e)[0]) == "1" and \
                        (cir.strip(cir.kids(e)[1]) or {}).get("k") == "DeclRefExpr":
                    cl = c26.counted_loop(body, lp, cir.strip(cir.kids(e)[1])["ref"]["id"])
                    if cl["problems"] or cl["start"] != "0" or cl["bound"] != "mjNSTATE":
                        continue
                    E = x.get("n")
                    sigs = [p.get("n") for p in cir.params(fn) if (p.get("t") or "") == "int"]
                    effects = [y for y in cir.walk(lb) if (cir.is_call(y) and cir.callee(y) not in c26.STATE_PRIMS) or
                               y.get("k") == "CompoundAssignOperator"]
                    okk = bool(effects)
                    for y in effects:
                        gs = [(cir.text(c_), p_) for c_, p_ in (norm.guards(lb, y) or [])]
                        if not any((f"{E} & {s_}", True) in gs or (f"{s_} & {E}", True) in gs for s_ in sigs):
                            okk = False
                    if okk:
                        return True
    return False


def c_state_facts(repo):
    u = engine.unit(SUPPORT_C, repo)
    need = ("mj_stateElemSize", "mj_stateElemPtr", "mj_getState", "mj_setState", "mj_stateSize")
    for f in need:
        if f not in u.funcs:
            raise AnalysisError(f"{SUPPORT_C}: anchor vanished: {f}")
    size = c_switch(u.funcs["mj_stateElemSize"], c_size_expr)
    ptr = c_switch(u.funcs["mj_stateElemPtr"], c_ptr_expr)
    from .. import norm
    from . import c26
    cview = {f: norm.canon(u, f, exclude=c26.STATE_PRIMS) for f in ("mj_stateSize", "mj_getState", "mj_setState")}
    sg = c_special_elements(cview["mj_getState"])
    ss = c_special_elements(cview["mj_setState"])
    if sg != ss:
        raise AnalysisError(f"{SUPPORT_C}: mj_getState and mj_setState special-case different elements: {sg} vs {ss}")
    loops = {f: c_loop_shape(cview[f]) for f in ("mj_stateSize", "mj_getState", "mj_setState")}
    lines = {f: u.funcs[f].get("line") for f in need}
    return size, ptr, sg, loops, lines


def xmacro_rows(repo, macro):
    """Rows (type, name, nr, nc) of an X-macro table of include/mujoco/mjxmacro.h via the preprocessor."""
    os.makedirs(CACHE, exist_ok=True)
    probe = os.path.join(CACHE, f"probe_xmacro.{os.getpid()}.c")
    std = [f for f in build_flags(repo)["c"] if f.startswith("-std=")]
    try:
        with open(probe, "w") as f:
            f.write("#include <mujoco/mjxmacro.h>\n#undef X\n#undef XNV\n"
                    "#define X(type, name, nr, nc) @ROW@ type @ name @ nr @ nc @END@\n#define XNV X\n"
                    f"@BEGIN@ {macro}\n")
        p = subprocess.run(["clang", "-E", "-P", "-w"] + std + ["-Iinclude", probe], cwd=repo, stdout=subprocess.PIPE,
                           stderr=subprocess.PIPE)
    finally:
        try:
            os.remove(probe)
        except OSError:
            pass
    if p.returncode != 0:
        raise AnalysisError(f"clang -E failed on mjxmacro.h: {p.stderr.decode()[:500]}")
    text = p.stdout.decode("utf-8", "replace")
    if "@BEGIN@" not in text:
        raise AnalysisError("X-macro probe produced no output")
    text = text.split("@BEGIN@", 1)[1]
    rows = {}
    for chunk in text.split("@ROW@")[1:]:
        body = chunk.split("@END@")[0]
        parts = [" ".join(x.split()) for x in body.split("@")]
        if len(parts) != 4:
            raise AnalysisError(f"X-macro row not understood: {body!r}")
        rows[parts[1]] = {"type": parts[0], "nr": parts[2], "nc": parts[3]}
    if macro in text.split("@ROW@")[0] and not rows:
        raise AnalysisError(f"anchor vanished: X-macro {macro} is not defined by mjxmacro.h")
    if not rows:
        raise AnalysisError(f"anchor vanished: X-macro {macro} expanded to nothing")
    return rows


# --------------------------------------------------------------------------------------
# Python side: tiny partial evaluator for _state_elem_size


class Sym:
    """k * m.<field>"""

    def __init__(self, k, field):
        self.k, self.field = k, field

    def __repr__(self):
        return f"{self.k}*m.{self.field}"


class _Model:
    pass


class _Return(Exception):
    def __init__(self, v):
        self.v = v


class _Raise(Exception):
    def __init__(self, name):
        self.name = name


class PE:
    def __init__(self, rel, globs):
        self.rel = rel
        self.globs = globs

    def err(self, n, msg):
        raise AnalysisError(f"{self.rel}:{getattr(n, 'lineno', '?')}: partial evaluation: {msg}")

    def run(self, fn, args):
        env = dict(args)
        try:
            self.block(fn.body, env)
        except _Return as r:
            return ("return", r.v)
        except _Raise as r:
            return ("raise", r.name)
        return ("return", None)

    def block(self, stmts, env):
        for s in stmts:
            if isinstance(s, ast.Expr) and isinstance(s.value, ast.Constant):
                continue
            if isinstance(s, ast.If):
                t = self.ev(s.test, env)
                if not isinstance(t, bool):
                    self.err(s, "branch condition is not decidable")
                self.block(s.body if t else s.orelse, env)
            elif isinstance(s, ast.Assign) and len(s.targets) == 1 and isinstance(s.targets[0], ast.Name):
                env[s.targets[0].id] = self.ev(s.value, env)
            elif isinstance(s, ast.AugAssign) and isinstance(s.target, ast.Name):
                cur = env.get(s.target.id)
                env[s.target.id] = self.binop(s, s.op, cur, self.ev(s.value, env))
            elif isinstance(s, ast.Return):
                raise _Return(self.ev(s.value, env) if s.value is not None else None)
            elif isinstance(s, ast.Raise):
                e = s.exc.func if isinstance(s.exc, ast.Call) else s.exc
                raise _Raise(e.id if isinstance(e, ast.Name) else "?")
            else:
                self.err(s, f"unsupported statement {type(s).__name__}")

    def binop(self, n, op, a, b):
        if isinstance(op, ast.Mult):
            if isinstance(a, int) and isinstance(b, int):
                return a * b
            if isinstance(a, Sym) and isinstance(b, int):
                return Sym(a.k * b, a.field)
            if isinstance(a, int) and isinstance(b, Sym):
                return Sym(a * b.k, b.field)
        if isinstance(op, ast.Add) and isinstance(a, int) and isinstance(b, int):
            return a + b
        self.err(n, "unsupported arithmetic")

    def ev(self, n, env):
        if isinstance(n, ast.Constant):
            return n.value
        if isinstance(n, ast.Name):
            if n.id in env:
                return env[n.id]
            if n.id in self.globs:
                return self.globs[n.id]
            self.err(n, f"unknown name {n.id}")
        if isinstance(n, (ast.Tuple, ast.List, ast.Set)):
            return tuple(self.ev(e, env) for e in n.elts)
        if isinstance(n, ast.Dict):
            return {self.ev(k, env): self.ev(v, env) for k, v in zip(n.keys, n.values)}
        if isinstance(n, ast.Attribute):
            c = c43.chain(n)
            if c and c[0] == "mujoco" and len(c[1]) == 2 and c[1][0].startswith("mjt"):
                return ("enum", c[1][0], c[1][1])
            v = self.ev(n.value, env)
            if isinstance(v, _Model):
                return Sym(1, n.attr)
            self.err(n, "unsupported attribute")
        if isinstance(n, ast.Subscript):
            v = self.ev(n.value, env)
            k = self.ev(n.slice, env)
            try:
                return v[k]
            except Exception:
                self.err(n, f"subscript {k!r} fails")
        if isinstance(n, ast.Compare) and len(n.ops) == 1:
            a, b = self.ev(n.left, env), self.ev(n.comparators[0], env)
            op = n.ops[0]
            if isinstance(a, (Sym, _Model)) or isinstance(b, (Sym, _Model)):
                self.err(n, "comparison of a symbolic value")
            if isinstance(op, ast.Eq):
                return a == b
            if isinstance(op, ast.NotEq):
                return a != b
            if isinstance(op, ast.In):
                return a in b
            if isinstance(op, ast.NotIn):
                return a not in b
            self.err(n, "unsupported comparison")
        if isinstance(n, ast.BoolOp):
            vals = [self.ev(v, env) for v in n.values]
            if not all(isinstance(v, bool) for v in vals):
                self.err(n, "non-boolean operand")
            return all(vals) if isinstance(n.op, ast.And) else any(vals)
        if isinstance(n, ast.UnaryOp) and isinstance(n.op, ast.Not):
            v = self.ev(n.operand, env)
            if not isinstance(v, bool):
                self.err(n, "non-boolean operand")
            return not v
        if isinstance(n, ast.BinOp):
            return self.binop(n, n.op, self.ev(n.left, env), self.ev(n.right, env))
        if isinstance(n, ast.Call) and isinstance(n.func, ast.Name) and n.func.id == "getattr" and len(n.args) == 2:
            o, k = self.ev(n.args[0], env), self.ev(n.args[1], env)
            if isinstance(o, _Model) and isinstance(k, str):
                return Sym(1, k)
            self.err(n, "unsupported getattr")
        if isinstance(n, ast.Call) and isinstance(n.func, ast.Name) and n.func.id == "int" and len(n.args) == 1:
            v = self.ev(n.args[0], env)
            if isinstance(v, int):
                return v
        self.err(n, f"unsupported expression {type(n).__name__}")


def module_literal(tree, name, rel):
    for st in tree.body:
        if isinstance(st, ast.Assign) and len(st.targets) == 1 and isinstance(st.targets[0], ast.Name) \
                and st.targets[0].id == name:
            return st
    raise AnalysisError(f"{rel}: anchor vanished: module-level {name}")


def py_loop_shape(fn):
    """(ascending range(mjNSTATE), element = mjtState(1 << i), `element & spec` guard) for a state function."""
    for loop in ast.walk(fn):
        if not isinstance(loop, ast.For) or not isinstance(loop.target, ast.Name):
            continue
        it = loop.iter
        if not (isinstance(it, ast.Call) and isinstance(it.func, ast.Name) and it.func.id == "range" and len(it.args) == 1):
            continue
        c = c43.chain(it.args[0]) if isinstance(it.args[0], ast.Attribute) else None
        if not (c and c[0] == "mujoco" and c[1][:2] == ["mjtState", "mjNSTATE"] and c[1][2:] in ([], ["value"])):
            continue
        i = loop.target.id
        elem = None
        for st in loop.body:
            if isinstance(st, ast.Assign) and len(st.targets) == 1 and isinstance(st.targets[0], ast.Name):
                v = st.value
                if isinstance(v, ast.Call) and isinstance(v.func, ast.Attribute) and c43.chain(v.func) == ("mujoco", ["mjtState"]) \
                        and len(v.args) == 1 and isinstance(v.args[0], ast.BinOp) and isinstance(v.args[0].op, ast.LShift) \
                        and isinstance(v.args[0].left, ast.Constant) and v.args[0].left.value == 1 \
                        and isinstance(v.args[0].right, ast.Name) and v.args[0].right.id == i:
                    elem = st.targets[0].id
        if elem is None:
            continue
        guard = None
        for st in loop.body:
            if isinstance(st, ast.If) and isinstance(st.test, ast.BinOp) and isinstance(st.test.op, ast.BitAnd):
                names = {x.id for x in (st.test.left, st.test.right) if isinstance(x, ast.Name)}
                if elem in names and len(names) == 2:
                    guard = st
        if guard is None:
            continue
        return loop, elem, guard
    return None


def py_specials(guard, elem):
    """Elements compared with `elem == mujoco.mjtState.X` guarding an `.astype(...)` conversion."""
    out = set()
    for n in ast.walk(guard):
        if isinstance(n, ast.If) and isinstance(n.test, ast.Compare) and len(n.test.ops) == 1 \
                and isinstance(n.test.ops[0], ast.Eq):
            sides = [n.test.left, n.test.comparators[0]]
            if any(isinstance(s, ast.Name) and (elem is None or s.id == elem) for s in sides):
                for s in sides:
                    c = c43.chain(s) if isinstance(s, ast.Attribute) else None
                    if c and c[0] == "mujoco" and c[1][:1] == ["mjtState"] and len(c[1]) == 2:
                        conv = any(isinstance(x, ast.Call) and isinstance(x.func, ast.Attribute) and x.func.attr == "astype"
                                   for b in n.body for x in ast.walk(b))
                        if conv:
                            out.add(c[1][1])
    return out


# --------------------------------------------------------------------------------------
# dimensions that coincide for every model put_model accepts

# C sizes some actuator arrays by `nout` (sum of per-actuator output widths) and `ctrl` by `nu` (sum of control
# widths); MJX sizes all of them by m.nu.  One named dimension per line, with the argument and its mechanical check.
DIM_EQUIV = {
    "nout": ("nu", "nout = sum(outnum_), nu = sum(ctrlnum_) in mjCModel; both widths are 1 unless mjCActuator::Compile "
                   "assigns otherwise, and every such assignment sits under `if (x == mjE [|| y == mjF ...])` for "
                   "enumerators that the MJX mirrors omit and _put_model_jax gates with NotImplementedError "
                   "(checked below from src/user/user_objects.cc and the C43 gate analysis)"),
}
COMPILER_CC = "src/user/user_objects.cc"
WIDTH_VARS = ("outnum_", "ctrlnum_")


class _Quiet:
    """Result stand-in: lets C44 reuse C43's mirror/gate analysis without recording C43's obligations."""

    def __init__(self):
        self.extra = {}
        self.problems = []

    def rule(self, *a, **k):
        pass

    def ok(self, *a, **k):
        pass

    def bad(self, rule, construct, *a, **k):
        self.problems.append((rule, construct))


def _blank_comments_and_strings(src):
    out = list(src)
    i, n = 0, len(src)
    while i < n:
        if src.startswith("//", i):
            j = src.find("\n", i)
            j = n if j < 0 else j
        elif src.startswith("/*", i):
            j = src.find("*/", i + 2)
            j = n if j < 0 else j + 2
        elif src[i] in "\"'":
            q = src[i]
            j = i + 1
            while j < n and src[j] != q:
                j += 2 if src[j] == "\\" else 1
            j += 1
        else:
            i += 1
            continue
        for k in range(i, min(j, n)):
            if out[k] != "\n":
                out[k] = " "
        i = j
    return "".join(out)


def _enclosing_if_conditions(clean, pos):
    conds = []
    depth = 0
    i = pos - 1
    while i >= 0:
        c = clean[i]
        if c == "}":
            depth += 1
        elif c == "{":
            if depth:
                depth -= 1
            else:
                j = i - 1
                while j >= 0 and clean[j].isspace():
                    j -= 1
                if j >= 0 and clean[j] == ")":
                    d, k = 0, j
                    while k >= 0:
                        if clean[k] == ")":
                            d += 1
                        elif clean[k] == "(":
                            d -= 1
                            if d == 0:
                                break
                        k -= 1
                    w = k - 1
                    while w >= 0 and clean[w].isspace():
                        w -= 1
                    e = w + 1
                    while w >= 0 and (clean[w].isalnum() or clean[w] == "_"):
                        w -= 1
                    if clean[w + 1:e] == "if":
                        conds.append(" ".join(clean[k + 1:j].split()))
        i -= 1
    return conds


def unit_width_argument(repo, H, sources, classes):
    """(holds, detail): every non-unit assignment of outnum_/ctrlnum_ in the model compiler is guarded by a pure
    disjunction of equality tests against enumerators that gated MJX mirrors omit."""
    import re
    path = os.path.join(repo, COMPILER_CC)
    try:
        with open(path, encoding="utf-8", errors="replace") as f:
            clean = _blank_comments_and_strings(f.read())
    except OSError:
        raise AnalysisError(f"anchor vanished: {COMPILER_CC}")
    q = _Quiet()
    mir = c43.mirrors(q, H, classes)
    gates = c43.check_gates(q, H, sources, classes, mir)
    rejected = {}
    for cname, m in mir.items():
        if cname in gates:
            for e in m["partial"]:
                rejected[e] = cname
    sites = []
    for mm in re.finditer(r"\b(%s)\s*(\+?=)(?!=)\s*([^;]*);" % "|".join(WIDTH_VARS), clean):
        rhs = " ".join(mm.group(3).split())
        if mm.group(2) == "=" and rhs == "1":
            continue
        line = clean.count("\n", 0, mm.start()) + 1
        conds = _enclosing_if_conditions(clean, mm.start())
        good = None
        for cnd in conds:
            if re.fullmatch(r"\w+ ?== ?mj\w+( ?\|\| ?\w+ ?== ?mj\w+)*", cnd):
                ens = re.findall(r"== ?(mj\w+)", cnd)
                if all(e in rejected for e in ens):
                    good = (cnd, sorted({rejected[e] for e in ens}))
                    break
        sites.append({"var": mm.group(1), "line": line, "rhs": rhs, "guard": good, "conditions": conds})
    if not any(True for _ in re.finditer(r"\b(%s)\s*=\s*1\s*;" % "|".join(WIDTH_VARS), clean)):
        raise AnalysisError(f"{COMPILER_CC}: anchor vanished: unit defaults of {WIDTH_VARS}")
    bad = [s_ for s_ in sites if s_["guard"] is None]
    return (not bad), {"non_unit_assignments": sites, "unguarded": bad}


def check_state(res, H, sources, classes, repo):
    rel = f"{MJX}/io.py"
    io = sources["io.py"]
    io_funcs = c43.functions(io)
    csize, cptr, cspecial, cloops, clines = c_state_facts(repo)
    st_enum = H.enumerators("mjtState")
    if st_enum is None:
        raise AnalysisError("anchor vanished: enum mjtState")
    nstate = st_enum.get("mjNSTATE")
    single = [n for n, v in st_enum.items() if n.startswith("mjSTATE_") and v > 0 and v & (v - 1) == 0]
    if nstate is None or len(single) != nstate:
        raise AnalysisError(f"mjtState: {len(single)} single-bit elements but mjNSTATE = {nstate}")
    cfield = dict((k, v[0]) for k, v in cptr.items())
    for k, f in cspecial.items():
        if k in cfield and cfield[k] != f:
            raise AnalysisError(f"{SUPPORT_C}: {k} maps to both {cfield[k]} and {f}")
        cfield[k] = f
    res.rule("R-STATE-MAP", "C (mj_stateElemPtr + special cases) and MJX (_STATE_MAP) map every mjtState element to the "
             "same data field", floor=14)
    res.rule("R-STATE-SIZE", "C mj_stateElemSize and MJX _state_elem_size give every element the same size k*m.n",
             floor=14)
    res.rule("R-STATE-ORDER", "state_size/get_state/set_state walk elements in ascending bit order under `element & spec` "
             "like the C loops; non-mjtNum elements are converted in both directions", floor=7)

    # --- _STATE_MAP
    sm = module_literal(io, "_STATE_MAP", rel)
    pe = PE(rel, {})
    smap = pe.ev(sm.value, {})
    if not isinstance(smap, dict) or not all(isinstance(k, tuple) and k[:2] == ("enum", "mjtState") for k in smap):
        raise AnalysisError(f"{rel}:{sm.lineno}: _STATE_MAP is not a {{mujoco.mjtState.X: name}} literal")
    if len({k for k in smap}) != len(sm.value.keys):
        raise AnalysisError(f"{rel}:{sm.lineno}: _STATE_MAP repeats a key")
    pmap = {k[2]: v for k, v in smap.items()}
    data_fields = set(c43.class_fields(classes, "Data") or ())
    model_fields = set(c43.class_fields(classes, "Model") or ())
    if not data_fields or not model_fields:
        raise AnalysisError(f"{MJX}/types.py: anchor vanished: Data / Model fields")
    mjdata = set(H.public_fields("mjData"))
    for el in single:
        key = f"mjtState.{el}"
        cf, pf = cfield.get(el), pmap.get(el)
        if cf is None:
            raise AnalysisError(f"{SUPPORT_C}: no element pointer for {el}")
        if pf is None:
            res.bad("R-STATE-MAP", key, rel, sm.lineno, f"{el} is a state element of the C API (field {cf}) but has no "
                    f"entry in _STATE_MAP: get_state/set_state raise ValueError for a signature C accepts")
        elif pf != cf:
            res.bad("R-STATE-MAP", key, rel, sm.lineno, f"{el}: C reads/writes d->{cf} ({SUPPORT_C}:"
                    f"{clines['mj_stateElemPtr']}), _STATE_MAP says {pf!r}")
        elif pf not in data_fields:
            res.bad("R-STATE-MAP", key, rel, sm.lineno, f"{el} -> {pf!r}: types.Data has no field {pf}")
        elif cf not in mjdata:
            raise AnalysisError(f"{SUPPORT_C}: d->{cf} is not a member of mjData")
        else:
            res.ok("R-STATE-MAP", key, {"field": pf, "c": f"{SUPPORT_C}:{clines['mj_stateElemPtr']}",
                                        "mjx": f"{rel}:{sm.lineno}"})
    for el in pmap:
        if el not in single:
            res.bad("R-STATE-MAP", f"mjtState.{el}", rel, sm.lineno, f"_STATE_MAP has an entry for {el}, which is not a "
                    f"single-bit element of mjtState handled by mj_stateElemSize/Ptr")

    # --- sizes
    fn = io_funcs.get("_state_elem_size")
    if fn is None:
        raise AnalysisError(f"{rel}: anchor vanished: _state_elem_size")
    params = [a.arg for a in fn.args.args]
    if len(params) != 2:
        raise AnalysisError(f"{rel}:{fn.lineno}: _state_elem_size signature changed")
    pe = PE(rel, {"_STATE_MAP": smap})
    for el in single:
        key = f"mjtState.{el}"
        if el not in csize:
            raise AnalysisError(f"{SUPPORT_C}: mj_stateElemSize has no case for {el}")
        (ck, cf), cline = csize[el]
        if el not in pmap:
            res.bad("R-STATE-SIZE", key, rel, fn.lineno, f"{el} has no entry in _STATE_MAP, so _state_elem_size raises "
                    f"ValueError where C returns {ck}" + (f"*m->{cf}" if cf else ""))
            continue
        kind, val = pe.run(fn, {params[0]: _Model(), params[1]: ("enum", "mjtState", el)})
        if kind == "raise":
            res.bad("R-STATE-SIZE", key, rel, fn.lineno, f"_state_elem_size raises {val} for {el}; C returns "
                    f"{ck}*m->{cf}" if cf else f"_state_elem_size raises {val} for {el}; C returns {ck}")
            continue
        if isinstance(val, bool) or not isinstance(val, (int, Sym)):
            raise AnalysisError(f"{rel}:{fn.lineno}: _state_elem_size({el}) evaluates to {val!r}")
        pk, pf = (val, None) if isinstance(val, int) else (val.k, val.field)
        if (pk, pf) != (ck, cf):
            res.bad("R-STATE-SIZE", key, rel, fn.lineno, f"{el}: MJX size is {pk}{'*m.' + pf if pf else ''}, C size is "
                    f"{ck}{'*m->' + cf if cf else ''} ({SUPPORT_C}:{cline})")
        elif pf is not None and pf not in model_fields:
            res.bad("R-STATE-SIZE", key, rel, fn.lineno, f"{el}: size field {pf} is not a field of types.Model")
        else:
            res.ok("R-STATE-SIZE", key, {"size": f"{pk}" + (f"*m.{pf}" if pf else ""), "c": f"{SUPPORT_C}:{cline}"})

    # --- loop order and conversions
    # non-mjtNum storage: from the headers
    nonnum = {}
    for el, f in cfield.items():
        fld = H.field("mjData", f)
        t = cheaders.parse_type(fld["t"])
        while t[0] in ("ptr", "arr"):
            t = t[1]
        if t[1] != "mjtNum":
            nonnum[el] = (f, t[1])
    if set(nonnum) != set(cspecial):
        raise AnalysisError(f"{SUPPORT_C}: elements stored with a non-mjtNum type {sorted(nonnum)} differ from the elements "
                            f"mj_getState/mj_setState special-case {sorted(cspecial)}")
    for f in ("mj_stateSize", "mj_getState", "mj_setState"):
        if not cloops[f]:
            raise AnalysisError(f"{SUPPORT_C}: {f} no longer has the `for i<mjNSTATE; element = 1<<i; if (element & sig)` shape")
    for pyf, cfn, need_special in (("state_size", "mj_stateSize", False), ("get_state", "mj_getState", True),
                                   ("set_state", "mj_setState", True)):
        pfn = io_funcs.get(pyf)
        if pfn is None:
            raise AnalysisError(f"{rel}: anchor vanished: {pyf}")
        shape = py_loop_shape(pfn)
        if shape is None:
            res.bad("R-STATE-ORDER", f"{pyf}:order", rel, pfn.lineno, f"{pyf} does not walk `for i in range(mjNSTATE): "
                    f"element = mjtState(1 << i); if element & spec` as {cfn} does: the concatenation order of the state "
                    f"vector is not established")
            elem, guard = None, pfn
        else:
            loop, elem, guard = shape
            res.ok("R-STATE-ORDER", f"{pyf}:order", {"c": f"{SUPPORT_C}:{clines[cfn]}", "mjx": f"{rel}:{loop.lineno}"})
        if need_special:
            sp = py_specials(guard, elem)
            for el, (f, ty) in sorted(nonnum.items()):
                if el in sp:
                    res.ok("R-STATE-ORDER", f"{pyf}:convert:{el}", {"c_type": ty, "field": f})
                else:
                    res.bad("R-STATE-ORDER", f"{pyf}:convert:{el}", rel, getattr(guard, 'lineno', pfn.lineno), f"{pyf} does not convert {el} "
                            f"(C stores d->{f} as {ty} and special-cases it in {cfn})")
        # bounds check on the signature, as in C
        has_bound = any(isinstance(n, ast.Compare) and isinstance(n.ops[0], ast.GtE) and any(
            isinstance(x, ast.BinOp) and isinstance(x.op, ast.LShift) for x in ast.walk(n.comparators[0]))
            for n in ast.walk(pfn))
        if pyf != "state_size":
            if has_bound:
                res.ok("R-STATE-ORDER", f"{pyf}:bound", None)
            else:
                res.bad("R-STATE-ORDER", f"{pyf}:bound", rel, pfn.lineno, f"{pyf} does not reject spec >= 1<<mjNSTATE "
                        f"as {cfn} does")
    res.extra["c_state_table"] = {el: {"field": cfield[el], "size": f"{csize[el][0][0]}" +
                                       (f"*{csize[el][0][1]}" if csize[el][0][1] else "")} for el in single}


def check_make_data(res, H, sources, classes, repo):
    res.rule("R-MAKEDATA", "make_data builds exactly the fields of types.Data/DataJAX, public zero fields with the shape "
             "of the C arrays (MJDATA_POINTERS rows)", floor=110)
    rel = f"{MJX}/io.py"
    io_funcs = c43.functions(sources["io.py"])
    fn = io_funcs.get("_make_data_jax")
    pub = io_funcs.get("_make_data_public_fields")
    if fn is None or pub is None:
        raise AnalysisError(f"{rel}: anchor vanished: _make_data_jax / _make_data_public_fields")

    def dict_literals(f, name):
        """the literal dict assigned to `name` whose values are tuples (shape..., dtype)."""
        for v in c43._assigned(f, name):
            if isinstance(v, ast.Dict) and all(isinstance(k, ast.Constant) for k in v.keys):
                return v
        return None

    def returned_name(f):
        for n in ast.walk(f):
            if isinstance(n, ast.Return) and isinstance(n.value, ast.Name):
                return n.value.id
        return None
    pname = returned_name(pub)
    zpub = dict_literals(pub, pname) if pname else None
    if zpub is None:
        raise AnalysisError(f"{rel}:{pub.lineno}: _make_data_public_fields does not return a literal table")
    rows = xmacro_rows(repo, "MJDATA_POINTERS")
    mparam = pub.args.args[0].arg

    def construct(klass, f):
        """keywords of the types.<klass>(...) call in f: explicit names + expanded ** sources."""
        for n in ast.walk(f):
            if isinstance(n, ast.Call) and isinstance(n.func, ast.Attribute) and c43.chain(n.func) == ("types", [klass]):
                names, stars = [], []
                for kw in n.keywords:
                    if kw.arg is None:
                        stars.append(kw.value)
                    else:
                        names.append(kw.arg)
                return n, names, stars
        return None
    for klass in ("Data", "DataJAX"):
        c = construct(klass, fn)
        if c is None:
            raise AnalysisError(f"{rel}:{fn.lineno}: _make_data_jax does not construct types.{klass}")
        call, names, stars = c
        keys = list(names)
        for s in stars:
            if isinstance(s, ast.Call) and isinstance(s.func, ast.Name) and s.func.id == pub.name:
                keys += [k.value for k in zpub.keys]
            elif isinstance(s, ast.Name):
                d = dict_literals(fn, s.id)
                if d is None:
                    raise AnalysisError(f"{rel}:{call.lineno}: cannot resolve **{s.id}")
                keys += [k.value for k in d.keys]
            else:
                raise AnalysisError(f"{rel}:{call.lineno}: unsupported ** argument in types.{klass}(...)")
        want = c43.class_fields(classes, klass)
        if want is None:
            raise AnalysisError(f"{MJX}/types.py: cannot resolve the fields of {klass}")
        for k in want:
            key = f"make_data:{klass}.{k}"
            if keys.count(k) == 1:
                res.ok("R-MAKEDATA", key, None)
            elif k not in keys:
                res.bad("R-MAKEDATA", key, rel, call.lineno, f"make_data never sets types.{klass}.{k} (put_data does): "
                        f"TypeError / different pytree")
            else:
                res.bad("R-MAKEDATA", key, rel, call.lineno, f"make_data sets types.{klass}.{k} twice")
        for k in keys:
            if k not in want:
                res.bad("R-MAKEDATA", f"make_data:{klass}.{k}", rel, call.lineno, f"make_data passes {k} to types.{klass}, "
                        f"which has no such field")
    # shapes of the public zero fields
    width = {}
    for k, v in zip(zpub.keys, zpub.values):
        name = k.value
        key = f"shape:{name}"
        if not isinstance(v, ast.Tuple) or not v.elts:
            raise AnalysisError(f"{rel}:{k.lineno}: zero-field entry {name} is not a (shape..., dtype) tuple")
        dims = v.elts[:-1]
        row = rows.get(name)
        if row is None:
            fld = H.field("mjData", name)
            if fld is not None and not dims and fld["t"] in ("mjtNum", "double"):
                res.ok("R-MAKEDATA", key, {"scalar": fld["t"]})
            else:
                res.bad("R-MAKEDATA", key, rel, k.lineno, f"zero field {name} with shape rank {len(dims)} has no "
                        f"MJDATA_POINTERS row and is not a scalar mjtNum member of mjData")
            continue
        if not dims:
            res.bad("R-MAKEDATA", key, rel, k.lineno, f"{name} is a scalar in make_data but an array ({row['nr']} x "
                    f"{row['nc']}) in C")
            continue
        lead = c43.chain(dims[0]) if isinstance(dims[0], ast.Attribute) else None
        tail = 1
        ok = True
        for d in dims[1:]:
            if isinstance(d, ast.Constant) and isinstance(d.value, int):
                tail *= d.value
            else:
                ok = False
        nc = row["nc"]
        ncv = int(nc) if nc.isdigit() else H.macros.get(nc, H.consts.get(nc))
        if not ok or lead is None or lead[0] != mparam or len(lead[1]) != 1:
            raise AnalysisError(f"{rel}:{k.lineno}: shape of zero field {name} is not (m.<n>, ints...)")
        if ncv is None:
            raise AnalysisError(f"X-macro extent {nc!r} of {name} is not a known constant")
        same_dim = lead[1][0] == row["nr"]
        equiv = None
        if not same_dim and DIM_EQUIV.get(row["nr"], (None,))[0] == lead[1][0]:
            if "holds" not in width:
                width["holds"], width["detail"] = unit_width_argument(repo, H, sources, classes)
                res.extra["unit_width_argument"] = width["detail"]
            if width["holds"]:
                equiv = f"{row['nr']} == {lead[1][0]} for every accepted model: " + DIM_EQUIV[row["nr"]][1]
        if (not same_dim and equiv is None) or tail != ncv:
            why = ""
            if not same_dim and row["nr"] in DIM_EQUIV and not width.get("holds", True):
                ug = width["detail"]["unguarded"][0]
                why = (f"; the argument that {row['nr']} == {lead[1][0]} for accepted models no longer holds: "
                       f"{COMPILER_CC}:{ug['line']} sets {ug['var']} = {ug['rhs']} without a guard MJX rejects")
            res.bad("R-MAKEDATA", key, rel, k.lineno, f"make_data shape of {name} is (m.{lead[1][0]}, ..x{tail}) but the C "
                    f"array is ({row['nr']} x {nc}): put_data of a fresh MjData yields a different shape" + why)
        else:
            smp = {"c_extent": f"{row['nr']} x {nc}", "mjx_shape": ast.unparse(v)}
            if equiv:
                smp["dimension_equivalence"] = equiv
            res.ok("R-MAKEDATA", key, smp)


COPY_CALLS = {("copy", "copy"), ("copy", "deepcopy"), ("np", "array"), ("np", "copy"), ("numpy", "array"), ("numpy", "copy"),
              ("jp", "array"), ("jnp", "array")}


def _is_copy_call(v):
    """`copy.copy(x)`, `np.array(x)`, `x.copy()` ..."""
    import ast
    if not isinstance(v, ast.Call):
        return False
    f = v.func
    if isinstance(f, ast.Attribute):
        if isinstance(f.value, ast.Name) and (f.value.id, f.attr) in COPY_CALLS:
            return True
        if f.attr == "copy" and not v.args:
            return True
    return False


def check_host_copy(res, sources):
    """JAX back end transfer functions (`_put_*_jax`): jax.device_put may alias aligned host memory (zero-copy on CPU) and
    is asynchronous, so the numpy views into the live MjData / MjModel must be copied before they are handed over; otherwise
    the device value changes when the host object is stepped or reset, and put/get no longer round-trips."""
    import ast
    rel = f"{MJX}/io.py"
    res.rule("R-HOSTCOPY", "host arrays splatted into types.Data/Model by the JAX transfer functions are copies", floor=2)
    n = 0

    def reads_host(value, params):
        """the expression takes attributes of a parameter by name: getattr(<param>, ..) (a numpy view into the host object)"""
        return any(isinstance(c, ast.Call) and isinstance(c.func, ast.Name) and c.func.id == "getattr" and c.args and
                   isinstance(c.args[0], ast.Name) and c.args[0].id in params for c in ast.walk(value))
    # module functions that return a dict of host views
    view_fns = set()
    for f_ in sources["io.py"].body:
        if isinstance(f_, ast.FunctionDef):
            ps_ = {a.arg for a in f_.args.args}
            dicts_ = {a.targets[0].id for a in ast.walk(f_) if isinstance(a, ast.Assign) and len(a.targets) == 1 and
                      isinstance(a.targets[0], ast.Name) and isinstance(a.value, (ast.DictComp, ast.Dict)) and reads_host(a.value, ps_)}
            if any(isinstance(r, ast.Return) and isinstance(r.value, ast.Name) and r.value.id in dicts_ for r in ast.walk(f_)):
                view_fns.add(f_.name)
    for fn in ast.walk(sources["io.py"]):
        if not isinstance(fn, ast.FunctionDef) or not (fn.name.startswith("_put_") and fn.name.endswith("_jax")):
            continue
        params = {a.arg for a in fn.args.args}
        host = set()
        for a in ast.walk(fn):
            if isinstance(a, ast.Assign) and len(a.targets) == 1 and isinstance(a.targets[0], ast.Name):
                v_ = a.value
                if isinstance(v_, (ast.DictComp, ast.Dict)) and reads_host(v_, params) and not (isinstance(v_, ast.DictComp) and _is_copy_call(v_.value)):
                    host.add(a.targets[0].id)
                elif isinstance(v_, ast.Call) and isinstance(v_.func, ast.Name) and v_.func.id in view_fns:
                    host.add(a.targets[0].id)
        puts = [c for c in ast.walk(fn) if isinstance(c, ast.Call) and isinstance(c.func, ast.Attribute) and c.func.attr == "device_put"]
        if not puts:
            continue
        # locals bound to a dict of copies
        copied = set()
        for a in ast.walk(fn):
            if isinstance(a, ast.Assign) and len(a.targets) == 1 and isinstance(a.targets[0], ast.Name) and \
                    isinstance(a.value, ast.DictComp) and _is_copy_call(a.value.value):
                copied.add(a.targets[0].id)
        for c in ast.walk(fn):
            if not (isinstance(c, ast.Call) and isinstance(c.func, ast.Attribute) and isinstance(c.func.value, ast.Name)
                    and c.func.value.id == "types"):
                continue
            for kw in c.keywords:
                if kw.arg is not None:
                    continue
                v = kw.value
                names_ = {x.id for x in ast.walk(v) if isinstance(x, ast.Name)}
                if not (names_ & host):
                    continue        # a dict of freshly computed values
                n += 1
                ok = (isinstance(v, ast.DictComp) and _is_copy_call(v.value)) or (isinstance(v, ast.Name) and v.id in copied)
                key = f"{fn.name}:types.{c.func.attr}"
                if ok:
                    res.ok("R-HOSTCOPY", key, {"line": c.lineno})
                else:
                    res.bad("R-HOSTCOPY", key, rel, c.lineno,
                            f"{fn.name} splats `**{ast.unparse(v)[:60]}` into types.{c.func.attr} without copying the values: they are "
                            f"numpy views into the live host object and jax.device_put can alias them (CPU, x64) — the device value "
                            f"then follows later mj_step / mj_resetData of the source")
    if n == 0:
        raise AnalysisError(f"{rel}: no `_put_*_jax` function splatting host fields into types.* found")


def check_static_hash(res, sources):
    """Static numpy fields are pytree metadata; their hash is the jit cache key.  The key must be computed from the array's
    content whenever a wrapper is built (every flatten): every path of the key computation passes a hashlib digest of the
    array, none returns a remembered value."""
    import ast
    rel = f"{MJX}/dataclasses.py"
    res.rule("R-STATIC-HASH", "the hash key of static numpy fields is recomputed from the content on every path", floor=1)
    mod = sources.get("dataclasses.py")
    if mod is None:
        raise AnalysisError(f"anchor vanished: {rel}")
    wrappers = [c for c in ast.walk(mod) if isinstance(c, ast.ClassDef) and
                any(isinstance(f, ast.FunctionDef) and f.name == "__hash__" for f in c.body) and
                any("hashlib" in ast.unparse(f) for f in c.body if isinstance(f, ast.FunctionDef))]
    if len(wrappers) != 1:
        raise AnalysisError(f"{rel}: the numpy hash wrapper class (defines __hash__, uses hashlib) was not identified: "
                            f"{[c.name for c in wrappers]}")
    cls = wrappers[0]
    methods = {f.name: f for f in cls.body if isinstance(f, ast.FunctionDef)}

    def is_digest(node):
        return any(isinstance(c, ast.Call) and "hashlib." in ast.unparse(c.func) for c in ast.walk(node))

    def calls_method(node):
        out = []
        for c in ast.walk(node):
            if isinstance(c, ast.Call) and isinstance(c.func, ast.Attribute) and isinstance(c.func.value, ast.Name) and \
                    c.func.value.id in ("self", "cls", cls.name) and c.func.attr in methods:
                out.append(c.func.attr)
        return out

    def always(stmts, seen):
        """every path through stmts computes a digest before leaving (return) or falling through; returns
        (digest on all fall-through paths, offending return or None)"""
        done = False
        for st in stmts:
            if isinstance(st, ast.Return):
                if not done and not (st.value is not None and (is_digest(st.value) or any(ok_method(m_, seen) for m_ in calls_method(st.value)))):
                    return done, st
                return True, None
            if isinstance(st, ast.If):
                t_done, t_bad = always(st.body, seen)
                e_done, e_bad = always(st.orelse, seen) if st.orelse else (False, None)
                if not done and (t_bad or e_bad):
                    return done, (t_bad or e_bad)
                if t_done and e_done and st.orelse:
                    done = True
                continue
            if isinstance(st, (ast.Try,)):
                b_done, b_bad = always(st.body, seen)
                if not done and b_bad:
                    return done, b_bad
                for h in st.handlers:
                    h_done, h_bad = always(h.body, seen)
                    if not done and not b_done and h_bad:
                        return done, h_bad
                done = done or b_done
                continue
            if isinstance(st, (ast.For, ast.While, ast.With)):
                continue
            if is_digest(st) or any(ok_method(m_, seen) for m_ in calls_method(st)):
                done = True
        return done, None

    def ok_method(name, seen):
        if name in seen:
            return False
        d_, bad_ = always(methods[name].body, seen | {name})
        return d_ and bad_ is None
    init = methods.get("__init__")
    if init is None:
        raise AnalysisError(f"{rel}: {cls.name} has no __init__")
    d_, bad_ = always(init.body, {"__init__"})
    # report the offending return inside a helper, if any
    if not d_ or bad_ is not None:
        off = bad_
        if off is None:
            for m_ in calls_method(init):
                _d, b2 = always(methods[m_].body, {"__init__", m_})
                if b2 is not None:
                    off = b2
        res.bad("R-STATIC-HASH", f"{cls.name}:content-digest", rel, (off or init).lineno,
                f"{cls.name} does not digest the array content on every path of its key computation"
                + (f" (`{ast.unparse(off)[:60]}` returns without hashing)" if off is not None else "") +
                ": an in-place change of a static field keeps the old jit cache key and replays the stale trace")
    else:
        res.ok("R-STATIC-HASH", f"{cls.name}:content-digest", {"line": init.lineno})


def run(res, tier):
    repo = os.path.abspath(REPO)
    H = cheaders.load(repo)
    sources = c43.load_sources(repo)
    classes = c43.types_classes(sources["types.py"])
    check_state(res, H, sources, classes, repo)
    res.rule("R-FIELDS", "every types.Data/Model/Contact field copied by name from the C object in io.py is a member of "
             "mjData/mjModel/mjContact (or derived in the same function when the copy is tolerant)", floor=900)
    _, n_copy, foreign = c43.check_attrs(res, H, sources, classes, copy_structs=("mjData", "mjModel", "mjContact"),
                                         rule="R-FIELDS", explicit=False)
    check_make_data(res, H, sources, classes, repo)
    check_host_copy(res, sources)
    check_static_hash(res, sources)
    res.count("state_elements", len(res.extra.get("c_state_table", {})))
    res.count("copied_fields", n_copy)
    res.extra["copy_loops_over_foreign_classes_not_decided"] = foreign
    res.trusted = ["clang 14 parser/type checker/preprocessor", "CPython ast module (parsing only)"]
    res.explanation = (
        "Structural agreement of MJX's state API and data transfer with C: the per-element field and size tables of "
        "mj_stateElemPtr/mj_stateElemSize (clang IR, plus the special cases of mj_getState/mj_setState) are compared "
        "with _STATE_MAP and with _state_elem_size partially evaluated for every element; the three MJX state "
        "functions are checked to walk elements in ascending bit order under the signature mask like the C loops and to "
        "convert the elements C stores with a non-mjtNum type; every Data/Model/Contact field that io.py copies by name "
        "is a C struct member; make_data constructs exactly the field set of types.Data/DataJAX with C's array extents "
        "for the public fields.")
    res.not_decided = ("jax.jit/jax.vmap transparency, numerical put/get round trips and dtype handling (need execution); "
                       "get_data_into's per-field conversions; Warp/C++ back ends; shapes of the JAX-private (DataJAX) "
                       "fields, whose representation deliberately differs from C (dense matrices).")
    res.assumptions = ["dataclass semantics of PyTreeNode: fields() are the annotated class attributes incl. local bases",
                       "the Python bindings expose C struct members under their C names"]
