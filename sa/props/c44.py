"""C44 MJX data transfer and the state API are structurally consistent with C (R-XLANG / R-TABLE).

Python side: mjx/_src/io.py, types.py via `ast` (never imported).  C side: mj_stateElemSize / mj_stateElemPtr /
mj_getState / mj_setState / mj_stateSize in src/engine/engine_support.c (clang IR), struct members from the public
headers (sa.cheaders), array extents from the MJDATA_POINTERS X-macro (clang -E on a probe).

Decided
  The Python side is not matched against one layout of io.py: the state API and the JAX make_data path are *run* in a
  partial evaluator (class Interp below: concrete control flow, symbolic model / data / arrays, helper functions,
  generators, comprehensions, module-level tables, sum(), loops with accumulation, conditional expressions), and the
  rules compare what the runs produce with the C tables.
  R-STATE-MAP    for every single-bit mjtState element: the Data field get_state(spec = that bit) reads and the field
                 set_state(spec = that bit) replaces are the field the C switch of mj_stateElemPtr (plus the
                 `element == mjSTATE_X` special cases of mj_getState/mj_setState) names; no element is known to one side
                 only (a raise for an element C accepts; a key of a consulted mjtState-keyed table that is not a
                 single-bit element); every mapped name is a field of types.Data.
  R-STATE-SIZE   for every element, state_size(m, that bit) and the width of the slice of the state vector that
                 set_state(that bit) consumes equal the C size expression k * m-><n> of mj_stateElemSize (compared as
                 linear forms over m.<n>); the size field is a member of types.Model.
  R-STATE-ORDER  state_size / get_state / set_state select with `element & spec` and lay out in ascending bit order as
                 the C loops do: for the full signature, the empty one, every signature with one element removed, every
                 pair of neighbours and the two alternating halves, state_size is the sum of the selected C sizes,
                 get_state concatenates exactly the selected fields in ascending bit order, set_state takes each
                 selected field from state[adr : adr + size] with adr the running sum of the C sizes in ascending bit
                 order; the C loops have the counted-loop shape; every element whose C storage is not mjtNum (C
                 special-cases it) is converted in both get_state and set_state; both reject spec >= 1 << mjNSTATE.
  R-FIELDS       every field of types.Data / types.Model / types.Contact that io.py copies by name from the C object
                 (getattr copy loops) is a member of mjData / mjModel / mjContact; DataJAX fields copied under a
                 hasattr filter are C members or are assigned in the same function (derived).
  R-MAKEDATA     the function make_data dispatches to for Impl.JAX, run with a symbolic model, constructs types.Data and
                 types.DataJAX exactly once each with exactly the keyword set of their fields (so make_data and put_data
                 produce the same pytree structure); every field of types.Data built as zeros(shape) has the shape of
                 the C array: leading dimension m.<nr> and trailing extent product nc of its MJDATA_POINTERS row.
  R-HOSTCOPY     host arrays splatted into types.Data/DataJAX/Model by the `_put_*_jax` functions are copies.
  R-STATIC-HASH  the hash key of static numpy fields is a content digest on every path.
Not decided: jit/vmap transparency and value round trips (need execution); Warp and C++ back ends.
"""
from __future__ import annotations

import ast
import os
import subprocess

from .. import cheaders, cir, engine
from ..cfront import CACHE, REPO, AnalysisError, build_flags
from . import c43

LEVEL = "other"
MJX = c43.MJX
SUPPORT_C = "src/engine/engine_support.c"


# --------------------------------------------------------------------------------------
# C side


def _label(n):
    x = cir.strip(n)
    if x is not None and x.get("k") == "DeclRefExpr" and (x.get("ref") or {}).get("k") == "EnumConstantDecl":
        return x["ref"]["n"]
    return None


def c_switch(fn, what):
    """{enumerator: normalised return expression} of the single switch in `fn`."""
    b = cir.body(fn)
    sws = [x for x in cir.walk(b) if x.get("k") == "SwitchStmt"]
    if len(sws) != 1:
        raise AnalysisError(f"{SUPPORT_C}: {fn.get('n')}: expected one switch, found {len(sws)}")
    comp = [c for c in cir.kids(sws[0]) if c and c.get("k") == "CompoundStmt"]
    if not comp:
        raise AnalysisError(f"{SUPPORT_C}: {fn.get('n')}: switch without compound body")
    table = {}
    pending = []

    def stmt(s):
        k = s.get("k")
        if k == "CaseStmt":
            c = [x for x in cir.kids(s) if x]
            lab = _label(c[0])
            if lab is None:
                raise AnalysisError(f"{SUPPORT_C}:{s.get('line')}: case label is not an enumerator")
            pending.append((lab, s.get("line")))
            stmt(c[-1])
        elif k == "ReturnStmt":
            c = [x for x in cir.kids(s) if x]
            if all(lab == "default" for lab, _ in pending):
                del pending[:]          # the error branch's own return value is not part of the table
                return
            v = what(c[0]) if c else None
            for lab, line in pending:
                if lab in table:
                    raise AnalysisError(f"{SUPPORT_C}:{line}: duplicate case {lab}")
                table[lab] = (v, line)
            del pending[:]
        elif k == "DefaultStmt":
            del pending[:]
            pending.append(("default", s.get("line")))
            # the default branch reports an error; whatever follows is its return
        else:
            if pending and pending[-1][0] != "default":
                raise AnalysisError(f"{SUPPORT_C}:{s.get('line')}: unsupported statement {k} under a case label")
    for s in cir.kids(comp[0]):
        if s:
            stmt(s)
    table.pop("default", None)
    return table


def _member_of(n, param):
    """field name if n is `param->field` (through casts), else None."""
    x = cir.strip(n)
    if x is not None and x.get("k") == "MemberExpr" and x.get("arrow"):
        base = cir.strip(cir.kids(x)[0])
        if base is not None and base.get("k") == "DeclRefExpr" and (base.get("ref") or {}).get("n") == param:
            return x.get("n")
    return None


def c_size_expr(n):
    """(k, field) for `k`, `m->field`, `k*m->field`, `m->field*k`."""
    x = cir.strip(n)
    if x is None:
        raise AnalysisError(f"{SUPPORT_C}: empty size expression")
    if x.get("k") == "IntegerLiteral":
        return (int(x["v"]), None)
    f = _member_of(x, "m")
    if f:
        return (1, f)
    if x.get("k") == "BinaryOperator" and x.get("op") == "*":
        a, b = (cir.strip(c) for c in cir.kids(x))
        for p, q in ((a, b), (b, a)):
            if p is not None and p.get("k") == "IntegerLiteral" and _member_of(q, "m"):
                return (int(p["v"]), _member_of(q, "m"))
    raise AnalysisError(f"{SUPPORT_C}:{x.get('line')}: unsupported size expression `{cir.text(x)}`")


def c_ptr_expr(n):
    x = cir.strip(n)
    if x is not None and x.get("k") == "UnaryOperator" and x.get("op") == "&":
        x = cir.strip(cir.kids(x)[0])
    f = _member_of(x, "d")
    if f:
        return f
    raise AnalysisError(f"{SUPPORT_C}:{n.get('line')}: unsupported element pointer `{cir.text(n)}`")


def c_special_elements(fn):
    """{enumerator: field} for the branch taken when `element == mjSTATE_X` (either polarity of the test, `continue`-style
    guards nested) in mj_getState/mj_setState: the data field that branch touches."""
    from .. import norm
    out = {}
    for n in cir.walk(cir.body(fn)):
        if n.get("k") != "IfStmt":
            continue
        _pre, cond, then, els = norm._if_parts(n)
        for atom, pol in norm.split_cond(cond, True):
            if atom.get("k") != "BinaryOperator" or atom.get("op") != "==":
                continue
            labs = [_label(x) for x in cir.kids(atom)]
            lab = next((x for x in labs if x), None)
            if not lab or not lab.startswith("mjSTATE_"):
                continue
            branch = then if pol else els
            if branch is None:
                continue
            dnames = {p.get("n") for p in cir.params(fn) if "mjData" in (p.get("t") or "")}
            fields = set()
            for x in cir.walk(branch):
                if x.get("k") == "MemberExpr" and x.get("arrow"):
                    base = cir.strip(cir.kids(x)[0])
                    if base is not None and base.get("k") == "DeclRefExpr" and (base.get("ref") or {}).get("n") in dnames:
                        fields.add(x.get("n"))
            if len(fields) != 1:
                raise AnalysisError(f"{SUPPORT_C}:{n.get('line')}: special case for {lab} touches {sorted(fields)}")
            out[lab] = fields.pop()
    return out


def c_loop_shape(fn):
    """True if fn has an element loop counting i from 0 to mjNSTATE by one with element = 1<<i and everything the body does
    guarded by `element & sig` (for or while form, if- or continue-style guard; decided on the canonical view)."""
    from .. import norm
    from . import c26
    body = cir.body(fn)
    for lp in cir.walk(body):
        if lp.get("k") not in ("ForStmt", "WhileStmt"):
            continue
        lb = cir.kids(lp)[-1]
        for x in cir.walk(lb):
            if x.get("k") == "VarDecl" and x.get("init"):
                k = [y for y in cir.kids(x) if y]
                e = cir.strip(k[-1]) if k else None
                if e is not None and e.get("k") == "BinaryOperator" and e.get("op") == "<<" and cir.text(cir.kids(e)[0]) == "1" and \
                        (cir.strip(cir.kids(e)[1]) or {}).get("k") == "DeclRefExpr":
                    cl = c26.counted_loop(body, lp, cir.strip(cir.kids(e)[1])["ref"]["id"])
                    if cl["problems"] or cl["start"] != "0" or cl["bound"] != "mjNSTATE":
                        continue
                    E = x.get("n")
                    sigs = [p.get("n") for p in cir.params(fn) if (p.get("t") or "") == "int"]
                    effects = [y for y in cir.walk(lb) if (cir.is_call(y) and cir.callee(y) not in c26.STATE_PRIMS) or
                               y.get("k") == "CompoundAssignOperator"]
                    okk = bool(effects)
                    for y in effects:
                        gs = [(cir.text(c_), p_) for c_, p_ in (norm.guards(lb, y) or [])]
                        if not any((f"{E} & {s_}", True) in gs or (f"{s_} & {E}", True) in gs for s_ in sigs):
                            okk = False
                    if okk:
                        return True
    return False


def c_state_facts(repo):
    u = engine.unit(SUPPORT_C, repo)
    need = ("mj_stateElemSize", "mj_stateElemPtr", "mj_getState", "mj_setState", "mj_stateSize")
    for f in need:
        if f not in u.funcs:
            raise AnalysisError(f"{SUPPORT_C}: anchor vanished: {f}")
    size = c_switch(u.funcs["mj_stateElemSize"], c_size_expr)
    ptr = c_switch(u.funcs["mj_stateElemPtr"], c_ptr_expr)
    from .. import norm
    from . import c26
    cview = {f: norm.canon(u, f, exclude=c26.STATE_PRIMS) for f in ("mj_stateSize", "mj_getState", "mj_setState")}
    sg = c_special_elements(cview["mj_getState"])
    ss = c_special_elements(cview["mj_setState"])
    if sg != ss:
        raise AnalysisError(f"{SUPPORT_C}: mj_getState and mj_setState special-case different elements: {sg} vs {ss}")
    loops = {f: c_loop_shape(cview[f]) for f in ("mj_stateSize", "mj_getState", "mj_setState")}
    lines = {f: u.funcs[f].get("line") for f in need}
    return size, ptr, sg, loops, lines


def xmacro_rows(repo, macro):
    """Rows (type, name, nr, nc) of an X-macro table of include/mujoco/mjxmacro.h via the preprocessor."""
    os.makedirs(CACHE, exist_ok=True)
    probe = os.path.join(CACHE, f"probe_xmacro.{os.getpid()}.c")
    std = [f for f in build_flags(repo)["c"] if f.startswith("-std=")]
    try:
        with open(probe, "w") as f:
            f.write("#include <mujoco/mjxmacro.h>\n#undef X\n#undef XNV\n"
                    "#define X(type, name, nr, nc) @ROW@ type @ name @ nr @ nc @END@\n#define XNV X\n"
                    f"@BEGIN@ {macro}\n")
        p = subprocess.run(["clang", "-E", "-P", "-w"] + std + ["-Iinclude", probe], cwd=repo, stdout=subprocess.PIPE,
                           stderr=subprocess.PIPE)
    finally:
        try:
            os.remove(probe)
        except OSError:
            pass
    if p.returncode != 0:
        raise AnalysisError(f"clang -E failed on mjxmacro.h: {p.stderr.decode()[:500]}")
    text = p.stdout.decode("utf-8", "replace")
    if "@BEGIN@" not in text:
        raise AnalysisError("X-macro probe produced no output")
    text = text.split("@BEGIN@", 1)[1]
    rows = {}
    for chunk in text.split("@ROW@")[1:]:
        body = chunk.split("@END@")[0]
        parts = [" ".join(x.split()) for x in body.split("@")]
        if len(parts) != 4:
            raise AnalysisError(f"X-macro row not understood: {body!r}")
        rows[parts[1]] = {"type": parts[0], "nr": parts[2], "nc": parts[3]}
    if macro in text.split("@ROW@")[0] and not rows:
        raise AnalysisError(f"anchor vanished: X-macro {macro} is not defined by mjxmacro.h")
    if not rows:
        raise AnalysisError(f"anchor vanished: X-macro {macro} expanded to nothing")
    return rows


# --------------------------------------------------------------------------------------
# Python side: partial evaluator
#
# The rules below do not look at how io.py is laid out.  They *run* the state API and the JAX make_data path of io.py in a
# small evaluator for a Python subset: everything that depends only on concrete values (the state signature, element
# names, literal tables at module or function level, helper functions, generators, comprehensions, sum(), loops with
# accumulation, conditional expressions) is executed; everything that depends on the model / data / array arguments
# stays a symbolic term (`T`), integer arithmetic over such terms a linear form (`Lin`).  Calls into other modules
# (jp.*, np.*, types.*, constraint.* ...) are opaque terms and are logged as events.  A branch whose condition is not
# decidable and whose body only raises is an input validation and is assumed not taken; any other undecidable branch
# is executed on both sides and the environments are merged.  Anything outside the subset is an AnalysisError.


class Ext:
    """a name bound by an import, by dotted path from the local alias (`jp.zeros`, `types.Data`)"""
    __slots__ = ("name",)

    def __init__(self, name):
        self.name = name

    def __eq__(self, o):
        return type(o) is type(self) and o.name == self.name

    def __hash__(self):
        return hash((type(self).__name__, self.name))

    def __repr__(self):
        return self.name

    def __deepcopy__(self, memo):
        return self


class Builtin(Ext):
    __slots__ = ()


class EnumType:
    def __init__(self, name, values):
        self.name, self.values = name, values

    def __deepcopy__(self, memo):
        return self

    def __repr__(self):
        return f"mujoco.{self.name}"


class Enum:
    """mujoco.mjtE.mjNAME: behaves like an IntEnum member (equal to its integer, hashes like it)"""
    __slots__ = ("etype", "name", "value")

    def __init__(self, etype, name, value):
        self.etype, self.name, self.value = etype, name, value

    def __eq__(self, o):
        if isinstance(o, Enum):
            return o.value == self.value
        if isinstance(o, int):
            return o == self.value
        return NotImplemented

    def __hash__(self):
        return hash(self.value)

    def __repr__(self):
        return f"{self.etype}.{self.name}"

    def __deepcopy__(self, memo):
        return self


class SliceV:
    __slots__ = ("lo", "hi", "step")

    def __init__(self, lo, hi, step):
        self.lo, self.hi, self.step = lo, hi, step

    def key(self):
        return ("slice", _freeze(self.lo), _freeze(self.hi), _freeze(self.step))

    def __eq__(self, o):
        return isinstance(o, SliceV) and o.key() == self.key()

    def __hash__(self):
        return hash(self.key())

    def __deepcopy__(self, memo):
        return self

    def __repr__(self):
        return f"{'' if self.lo is None else show(self.lo)}:{'' if self.hi is None else show(self.hi)}" + \
            ("" if self.step is None else ":" + show(self.step))


class T:
    """opaque symbolic term; args are deeply immutable (see _snap)"""
    __slots__ = ("head", "args", "_key")

    def __init__(self, head, *args):
        self.head, self.args, self._key = head, args, None

    def key(self):
        if self._key is None:
            self._key = ("T", self.head) + tuple(_freeze(a) for a in self.args)
        return self._key

    def __eq__(self, o):
        return isinstance(o, T) and o.key() == self.key()

    def __hash__(self):
        return hash(self.key())

    def __deepcopy__(self, memo):
        return self

    def __repr__(self):
        return show(self)


class Lin:
    """const + sum(coeff * atom), atoms are T"""
    __slots__ = ("terms", "const")

    def __init__(self, terms, const=0):
        self.terms = {a: c for a, c in terms.items() if c != 0}
        self.const = const

    @staticmethod
    def of(v):
        if isinstance(v, bool):
            return Lin({}, int(v))
        if isinstance(v, int):
            return Lin({}, v)
        if isinstance(v, Enum):
            return Lin({}, v.value)
        if isinstance(v, Lin):
            return v
        if isinstance(v, T):
            return Lin({v: 1})
        return None

    def add(self, o, sign=1):
        t = dict(self.terms)
        for a, c in o.terms.items():
            t[a] = t.get(a, 0) + sign * c
        return Lin(t, self.const + sign * o.const)

    def scale(self, k):
        return Lin({a: c * k for a, c in self.terms.items()}, self.const * k)

    def simp(self):
        if not self.terms:
            return self.const
        if self.const == 0 and len(self.terms) == 1:
            (a, c), = self.terms.items()
            if c == 1:
                return a
        return self

    def key(self):
        return ("lin", self.const, frozenset((a.key(), c) for a, c in self.terms.items()))

    def __eq__(self, o):
        return isinstance(o, Lin) and o.key() == self.key()

    def __hash__(self):
        return hash(self.key())

    def __deepcopy__(self, memo):
        return self

    def __repr__(self):
        return show(self)


class Iter:
    """one-shot iterator over values that were produced eagerly (generator call, generator expression, iter())"""

    def __init__(self, items):
        self.items, self.pos = list(items), 0

    def rest(self):
        out = self.items[self.pos:]
        self.pos = len(self.items)
        return out


class Func:
    def __init__(self, node, closure=None):
        self.node, self.closure = node, closure
        self.name = getattr(node, "name", "<lambda>")
        self.is_gen = not isinstance(node, ast.Lambda) and any(
            isinstance(x, (ast.Yield, ast.YieldFrom)) for x in _own_scope(node))

    def __deepcopy__(self, memo):
        return self


class BoundMethod:
    def __init__(self, obj, name):
        self.obj, self.name = obj, name


class _Return(Exception):
    def __init__(self, v):
        self.v = v


class _Raise(Exception):
    def __init__(self, name, line=None):
        self.name, self.line = name, line


class _Break(Exception):
    pass


class _Continue(Exception):
    pass


def _own_scope(fn):
    """nodes of a function body that belong to its own scope (nested functions / lambdas excluded)"""
    todo = list(fn.body) if isinstance(fn.body, list) else [fn.body]
    while todo:
        n = todo.pop()
        yield n
        for ch in ast.iter_child_nodes(n):
            if not isinstance(ch, (ast.FunctionDef, ast.AsyncFunctionDef, ast.Lambda)):
                todo.append(ch)


def _freeze(v):
    if isinstance(v, (T, Lin, SliceV)):
        return v.key()
    if isinstance(v, (list, tuple)):
        return ("seq",) + tuple(_freeze(x) for x in v)
    if isinstance(v, dict):
        return ("dict",) + tuple((_freeze(k), _freeze(x)) for k, x in v.items())
    if isinstance(v, (set, frozenset)):
        return ("set", frozenset(_freeze(x) for x in v))
    if isinstance(v, Iter):
        return ("iter", id(v))
    if isinstance(v, (Func, BoundMethod, EnumType)):
        return ("obj", id(v))
    if isinstance(v, Enum):
        return ("enum", v.value)
    if isinstance(v, bool):
        return ("bool", v)
    return v


def _snap(v):
    """immutable snapshot of a value for use inside a term"""
    if isinstance(v, (list, tuple)):
        return tuple(_snap(x) for x in v)
    if isinstance(v, dict):
        return T("dict", *((_snap(k), _snap(x)) for k, x in v.items()))
    if isinstance(v, (set, frozenset)):
        return frozenset(_snap(x) for x in v)
    if isinstance(v, Iter):
        return tuple(_snap(x) for x in v.rest())
    return v


def _is_sym(v):
    return isinstance(v, (T, Lin))


def truth(v):
    """True / False / None (not decidable)"""
    if _is_sym(v):
        return None
    if isinstance(v, Enum):
        return v.value != 0
    if isinstance(v, (Ext, Func, BoundMethod, EnumType, Iter, SliceV)):
        return True
    try:
        return bool(v)
    except Exception:
        return None


def show(v, depth=0):
    """readable rendering of a value (messages and evidence samples only)"""
    if depth > 6:
        return "..."
    d = depth + 1
    if isinstance(v, T):
        h, a = v.head, v.args
        if h == "root":
            return a[0]
        if h == "attr":
            return f"{show(a[0], d)}.{a[1]}"
        if h == "sub":
            return f"{show(a[0], d)}[{show(a[1], d)}]"
        if h in ("call", "mcall"):
            fn = show(a[0], d) if h == "call" else f"{show(a[0], d)}.{a[1]}"
            pos, kws = (a[1], a[2]) if h == "call" else (a[2], a[3])
            parts = [show(x, d) for x in pos] + [f"{k}={show(x, d)}" for k, x in kws]
            return f"{fn}({', '.join(parts)})"
        if h == "ifexp":
            return f"({show(a[1], d)} if {show(a[0], d)} else {show(a[2], d)})"
        if h == "cmp":
            return f"({show(a[1], d)} {a[0]} {show(a[2], d)})"
        if h == "binop":
            return f"({show(a[1], d)} {a[0]} {show(a[2], d)})"
        if h == "dict":
            return "{" + ", ".join(f"{show(k, d)}: {show(x, d)}" for k, x in a) + "}"
        return f"<{h}>" if not a else f"<{h} " + " ".join(show(x, d) for x in a[:3]) + ">"
    if isinstance(v, Lin):
        parts = [(f"{c}*" if c != 1 else "") + show(a, d) for a, c in sorted(v.terms.items(), key=lambda kv: show(kv[0]))]
        if v.const or not parts:
            parts.append(str(v.const))
        return " + ".join(parts)
    if isinstance(v, tuple):
        return "(" + ", ".join(show(x, d) for x in v) + ("," if len(v) == 1 else "") + ")"
    if isinstance(v, list):
        return "[" + ", ".join(show(x, d) for x in v) + "]"
    if isinstance(v, dict):
        return "{" + ", ".join(f"{show(k, d)}: {show(x, d)}" for k, x in v.items()) + "}"
    if isinstance(v, Func):
        return f"<function {v.name}>"
    return repr(v)


def terms_in(v):
    """every T inside a value (through containers, linear forms, slices and term arguments)"""
    todo = [v]
    while todo:
        x = todo.pop()
        if isinstance(x, T):
            yield x
            todo.extend(x.args)
        elif isinstance(x, Lin):
            todo.extend(x.terms)
        elif isinstance(x, SliceV):
            todo.extend((x.lo, x.hi, x.step))
        elif isinstance(x, (list, tuple, set, frozenset)):
            todo.extend(x)
        elif isinstance(x, dict):
            todo.extend(x.keys())
            todo.extend(x.values())


def root(name):
    return T("root", name)


_EXC = ("BaseException", "Exception", "ValueError", "TypeError", "KeyError", "IndexError", "NotImplementedError",
        "RuntimeError", "AssertionError", "AttributeError", "ImportError", "ModuleNotFoundError", "StopIteration",
        "ArithmeticError", "ZeroDivisionError", "OverflowError", "LookupError", "OSError", "DeprecationWarning",
        "UserWarning", "RuntimeWarning", "Warning", "FutureWarning")
_BUILTINS = ("int", "len", "range", "sum", "getattr", "hasattr", "isinstance", "issubclass", "tuple", "list", "dict", "set",
             "frozenset", "enumerate", "zip", "sorted", "reversed", "min", "max", "any", "all", "abs", "next", "iter",
             "bool", "str", "float", "complex", "bytes", "print", "repr", "map", "filter", "slice", "type", "id", "callable",
             "round", "divmod", "object", "pow", "hash", "format", "vars", "super") + _EXC
_BINOPS = {ast.Add: "+", ast.Sub: "-", ast.Mult: "*", ast.Div: "/", ast.FloorDiv: "//", ast.Mod: "%", ast.Pow: "**",
           ast.LShift: "<<", ast.RShift: ">>", ast.BitAnd: "&", ast.BitOr: "|", ast.BitXor: "^", ast.MatMult: "@"}
_CMPOPS = {ast.Eq: "==", ast.NotEq: "!=", ast.Lt: "<", ast.LtE: "<=", ast.Gt: ">", ast.GtE: ">=", ast.In: "in",
           ast.NotIn: "not in", ast.Is: "is", ast.IsNot: "is not"}
_UNDEF = T("undefined")


class Interp:
    MAX_STEPS = 400000
    MAX_DEPTH = 40

    def __init__(self, rel, tree, H):
        self.rel, self.tree, self.H = rel, tree, H
        self.mod = {}           # module-level name -> [(kind, node|dotted)]
        self.gcache = {}
        self.greads = set()     # module-level data names that were read
        self.events = []        # (term, fork depth, line): calls into other modules, in execution order
        self.assumed = []       # (line, condition): validation guards assumed not taken
        self.fork = 0
        self.depth = 0
        self.steps = 0
        self.ystack = []
        self._evaluating = set()
        self._scan(tree.body)

    # -- module level ------------------------------------------------------------------
    def _bind(self, name, kind, what):
        self.mod.setdefault(name, []).append((kind, what))

    @staticmethod
    def _imported(st):
        """(local name, dotted path of what it denotes) for an import statement"""
        out = []
        if isinstance(st, ast.Import):
            for a in st.names:
                out.append((a.asname, a.name) if a.asname else (a.name.split(".")[0], a.name.split(".")[0]))
        else:
            mod = "." * st.level + (st.module or "")
            for a in st.names:
                out.append((a.asname or a.name, (mod + "." if mod and not mod.endswith(".") else mod) + a.name))
        return out

    def _scan(self, stmts):
        for st in stmts:
            if isinstance(st, (ast.Import, ast.ImportFrom)):
                for local, dotted in self._imported(st):
                    if ("import", dotted) not in self.mod.get(local, ()):
                        self._bind(local, "import", dotted)
            elif isinstance(st, (ast.FunctionDef, ast.AsyncFunctionDef)):
                self._bind(st.name, "func", st)
            elif isinstance(st, ast.ClassDef):
                self._bind(st.name, "class", st)
            elif isinstance(st, ast.Assign):
                for t in st.targets:
                    if isinstance(t, ast.Name):
                        self._bind(t.id, "assign", st.value)
                    else:
                        for x in ast.walk(t):
                            if isinstance(x, ast.Name):
                                self._bind(x.id, "opaque", st)
            elif isinstance(st, ast.AnnAssign) and isinstance(st.target, ast.Name) and st.value is not None:
                self._bind(st.target.id, "assign", st.value)
            elif isinstance(st, ast.AugAssign) and isinstance(st.target, ast.Name):
                self._bind(st.target.id, "opaque", st)
            elif isinstance(st, ast.If):
                self._scan(st.body)
                self._scan(st.orelse)
            elif isinstance(st, ast.Try):
                self._scan(st.body)
                for h in st.handlers:
                    self._scan(h.body)
                self._scan(st.orelse)
                self._scan(st.finalbody)
            elif isinstance(st, (ast.With,)):
                self._scan(st.body)

    def glob(self, name, n):
        if name in self.gcache:
            if name in self.mod and self.mod[name][0][0] == "assign":
                self.greads.add(name)
            return self.gcache[name]
        b = self.mod.get(name)
        if b is None:
            if name in _BUILTINS:
                return Builtin(name)
            self.err(n, f"unknown name {name}")
        if len(b) != 1:
            kinds = {k for k, _ in b}
            if kinds == {"import"} and len({w for _, w in b}) == 1:
                b = b[:1]
            else:
                self.err(n, f"module-level name {name} is bound {len(b)} times")
        kind, what = b[0]
        if kind == "import":
            v = Ext(what)
        elif kind == "func":
            v = Func(what)
        elif kind == "class":
            v = Ext(name)
        elif kind == "assign":
            if name in self._evaluating:
                self.err(n, f"module-level name {name} depends on itself")
            self._evaluating.add(name)
            try:
                v = self.ev(what, {})
            except _Raise as r:
                self.err(what, f"module-level initialiser of {name} raises {r.name}")
            finally:
                self._evaluating.discard(name)
            self.greads.add(name)
        else:
            self.err(n, f"module-level name {name} is not a plain binding")
        self.gcache[name] = v
        return v

    def err(self, n, msg):
        raise AnalysisError(f"{self.rel}:{getattr(n, 'lineno', '?')}: partial evaluation: {msg}")

    # -- entry -------------------------------------------------------------------------
    def call_function(self, name, args, kwargs=()):
        """("return", value) | ("raise", exception name); self.events / self.assumed describe the run"""
        self.events, self.assumed = [], []
        self.fork = self.depth = 0
        self.ystack = []
        f = self.glob(name, None)
        if not isinstance(f, Func):
            raise AnalysisError(f"{self.rel}: {name} is not a module-level function")
        try:
            return ("return", self.invoke(f, list(args), list(kwargs), f.node))
        except _Raise as r:
            return ("raise", r.name)
        except RecursionError:
            raise AnalysisError(f"{self.rel}: partial evaluation of {name}: recursion too deep")

    # -- functions ---------------------------------------------------------------------
    def invoke(self, f, args, kwargs, n):
        node = f.node
        a = node.args
        env = dict(f.closure) if f.closure else {}
        pos = [p.arg for p in a.posonlyargs + a.args]
        kwonly = [p.arg for p in a.kwonlyargs]
        bound = {}
        if len(args) > len(pos):
            if a.vararg is None:
                raise _Raise("TypeError", getattr(n, "lineno", None))
            bound[a.vararg.arg] = tuple(args[len(pos):])
            args = args[:len(pos)]
        elif a.vararg is not None:
            bound[a.vararg.arg] = ()
        for p, v in zip(pos, args):
            bound[p] = v
        extra = {}
        for k, v in kwargs:
            if k in bound or k in extra:
                raise _Raise("TypeError", getattr(n, "lineno", None))
            if k in pos[len(a.posonlyargs):] or k in kwonly:
                bound[k] = v
            elif a.kwarg is not None:
                extra[k] = v
            else:
                raise _Raise("TypeError", getattr(n, "lineno", None))
        if a.kwarg is not None:
            bound[a.kwarg.arg] = extra
        defaults = dict(zip(pos[len(pos) - len(a.defaults):], a.defaults))
        defaults.update({k: d for k, d in zip(kwonly, a.kw_defaults) if d is not None})
        for p in pos + kwonly:
            if p not in bound:
                if p not in defaults:
                    raise _Raise("TypeError", getattr(n, "lineno", None))
                bound[p] = self.ev(defaults[p], dict(f.closure) if f.closure else {})
        env.update(bound)
        self.depth += 1
        if self.depth > self.MAX_DEPTH:
            self.err(n, f"call depth exceeds {self.MAX_DEPTH} in {f.name}")
        try:
            if isinstance(node, ast.Lambda):
                return self.ev(node.body, env)
            if f.is_gen:
                self.ystack.append(([], self.fork))
                try:
                    self.block(node.body, env)
                except _Return:
                    pass
                finally:
                    out, _ = self.ystack.pop()
                return Iter(out)
            try:
                self.block(node.body, env)
            except _Return as r:
                return r.v
            return None
        finally:
            self.depth -= 1

    def call(self, f, args, kwargs, n):
        if isinstance(f, Func):
            return self.invoke(f, args, kwargs, n)
        if isinstance(f, Builtin):
            return self.builtin(f.name, args, kwargs, n)
        if isinstance(f, EnumType):
            if len(args) == 1 and not kwargs:
                v = args[0].value if isinstance(args[0], Enum) else args[0]
                if isinstance(v, int):
                    for nm, val in f.values.items():
                        if val == v:
                            return Enum(f.name, nm, val)
                    raise _Raise("ValueError", n.lineno)
            self.err(n, f"unsupported construction of {f!r}")
        if isinstance(f, BoundMethod):
            return self.method(f, args, kwargs, n)
        if isinstance(f, (Ext, T)):
            kw = tuple((k, _snap(v)) for k, v in kwargs)
            if isinstance(f, T) and f.head == "attr":
                t = T("mcall", f.args[0], f.args[1], _snap(args), kw)
            else:
                t = T("call", f, _snap(args), kw)
            self.events.append((t, self.fork, getattr(n, "lineno", None)))
            return t
        self.err(n, f"call of a non-callable value {show(f)}")

    # -- statements --------------------------------------------------------------------
    @staticmethod
    def _raise_only(stmts):
        seen = False
        for s in stmts:
            if isinstance(s, ast.Raise):
                seen = True
            elif isinstance(s, ast.Pass) or (isinstance(s, ast.Expr) and isinstance(s.value, ast.Constant)):
                continue
            else:
                return False
        return seen

    def block(self, stmts, env):
        for s in stmts:
            self.steps += 1
            if self.steps > self.MAX_STEPS:
                self.err(s, "step budget exhausted")
            self.stmt(s, env)

    def stmt(self, s, env):
        if isinstance(s, ast.Expr):
            if not isinstance(s.value, ast.Constant):
                self.ev(s.value, env)
        elif isinstance(s, ast.Assign):
            v = self.ev(s.value, env)
            for t in s.targets:
                self.assign(t, v, env)
        elif isinstance(s, ast.AnnAssign):
            if s.value is not None:
                self.assign(s.target, self.ev(s.value, env), env)
        elif isinstance(s, ast.AugAssign):
            t = s.target
            if isinstance(t, ast.Name):
                cur = self.ev(ast.copy_location(ast.Name(id=t.id, ctx=ast.Load()), t), env)
            elif isinstance(t, ast.Subscript):
                cur = self.subscript(self.ev(t.value, env), self.ev(t.slice, env), t)
            else:
                self.err(s, "unsupported augmented assignment target")
            new = self.binop(s, s.op, cur, self.ev(s.value, env))
            if isinstance(cur, list) and isinstance(s.op, ast.Add) and isinstance(new, list):
                cur.extend(new[len(cur):])       # `lst += x` mutates in place
                new = cur
            self.assign(t, new, env)
        elif isinstance(s, ast.Return):
            raise _Return(self.ev(s.value, env) if s.value is not None else None)
        elif isinstance(s, ast.Raise):
            e = s.exc.func if isinstance(s.exc, ast.Call) else s.exc
            raise _Raise(e.id if isinstance(e, ast.Name) else (e.attr if isinstance(e, ast.Attribute) else "?"), s.lineno)
        elif isinstance(s, ast.If):
            self.do_if(s, env)
        elif isinstance(s, ast.For):
            broke = False
            for v in self.iterate(self.ev(s.iter, env), s.iter):
                self.assign(s.target, v, env)
                try:
                    self.block(s.body, env)
                except _Break:
                    broke = True
                    break
                except _Continue:
                    continue
            if not broke:
                self.block(s.orelse, env)
        elif isinstance(s, ast.While):
            broke = False
            while True:
                t = truth(self.ev(s.test, env))
                if t is None:
                    self.err(s, "loop condition is not decidable")
                if not t:
                    break
                self.steps += 1
                if self.steps > self.MAX_STEPS:
                    self.err(s, "step budget exhausted")
                try:
                    self.block(s.body, env)
                except _Break:
                    broke = True
                    break
                except _Continue:
                    continue
            if not broke:
                self.block(s.orelse, env)
        elif isinstance(s, ast.Break):
            raise _Break()
        elif isinstance(s, ast.Continue):
            raise _Continue()
        elif isinstance(s, ast.Pass):
            pass
        elif isinstance(s, ast.Assert):
            t = truth(self.ev(s.test, env))
            if t is False:
                raise _Raise("AssertionError", s.lineno)
            if t is None:
                self.assumed.append((s.lineno, "assert"))
        elif isinstance(s, ast.Delete):
            for t in s.targets:
                if isinstance(t, ast.Name) and t.id in env:
                    del env[t.id]
                elif isinstance(t, ast.Subscript):
                    base, key = self.ev(t.value, env), self.ev(t.slice, env)
                    if isinstance(base, (dict, list)) and not _is_sym(key):
                        try:
                            del base[key]
                        except (KeyError, IndexError) as e:
                            raise _Raise(type(e).__name__, s.lineno)
                    else:
                        self.err(s, "unsupported del")
                else:
                    self.err(s, "unsupported del")
        elif isinstance(s, (ast.FunctionDef,)):
            env[s.name] = Func(s, env)
        elif isinstance(s, ast.Try):
            try:
                try:
                    self.block(s.body, env)
                except _Raise as r:
                    for h in s.handlers:
                        if self._handles(h.type, r.name):
                            if h.name:
                                env[h.name] = T("exc", r.name)
                            self.block(h.body, env)
                            break
                    else:
                        raise
                else:
                    self.block(s.orelse, env)
            finally:
                self.block(s.finalbody, env)
        elif isinstance(s, ast.With):
            for it in s.items:
                v = self.ev(it.context_expr, env)
                if it.optional_vars is not None:
                    self.assign(it.optional_vars, T("enter", _snap(v)), env)
            self.block(s.body, env)
        elif isinstance(s, (ast.Import, ast.ImportFrom)):
            for local, dotted in self._imported(s):
                env[local] = Ext(dotted)
        else:
            self.err(s, f"unsupported statement {type(s).__name__}")

    @staticmethod
    def _handles(t, name):
        if t is None:
            return True
        if isinstance(t, ast.Tuple):
            return any(Interp._handles(x, name) for x in t.elts)
        nm = t.id if isinstance(t, ast.Name) else (t.attr if isinstance(t, ast.Attribute) else None)
        return nm in (name, "Exception", "BaseException")

    def do_if(self, s, env):
        c = self.ev(s.test, env)
        t = truth(c)
        if t is not None:
            self.block(s.body if t else s.orelse, env)
            return
        # not decidable: validation guards are assumed not taken
        if self._raise_only(s.body):
            self.assumed.append((s.lineno, show(c)))
            self.block(s.orelse, env)
            return
        if s.orelse and self._raise_only(s.orelse):
            self.assumed.append((s.lineno, "not " + show(c)))
            self.block(s.body, env)
            return
        import copy as _copy
        live, raised = [], []
        for branch in (s.body, s.orelse):
            e = _copy.deepcopy(env)
            self.fork += 1
            try:
                self.block(branch, e)
                live.append(e)
            except _Raise as r:
                raised.append(r)
            except (_Return, _Break, _Continue):
                self.err(s, "return / break / continue under a condition that is not decidable")
            finally:
                self.fork -= 1
        if not live:
            raise raised[0]
        if len(live) == 1:
            self.assumed.append((s.lineno, show(c)))
            merged = live[0]
        else:
            merged = {}
            for k in list(live[0]) + [k for k in live[1] if k not in live[0]]:
                v1, v2 = live[0].get(k, _UNDEF), live[1].get(k, _UNDEF)
                merged[k] = v1 if _freeze(v1) == _freeze(v2) else T("phi", _snap(c), _snap(v1), _snap(v2))
        env.clear()
        env.update(merged)

    def assign(self, t, v, env):
        if isinstance(t, ast.Name):
            env[t.id] = v
        elif isinstance(t, (ast.Tuple, ast.List)):
            stars = [i for i, e in enumerate(t.elts) if isinstance(e, ast.Starred)]
            if stars:
                if len(stars) > 1 or _is_sym(v):
                    self.err(t, "unsupported starred assignment")
                items = self.iterate(v, t)
                i, after = stars[0], len(t.elts) - stars[0] - 1
                if len(items) < len(t.elts) - 1:
                    raise _Raise("ValueError", t.lineno)
                for e, x in zip(t.elts[:i], items[:i]):
                    self.assign(e, x, env)
                self.assign(t.elts[i].value, items[i:len(items) - after], env)
                for e, x in zip(t.elts[i + 1:], items[len(items) - after:]):
                    self.assign(e, x, env)
                return
            for e, x in zip(t.elts, self.unpack(v, len(t.elts), t)):
                self.assign(e, x, env)
        elif isinstance(t, ast.Subscript):
            base, key = self.ev(t.value, env), self.ev(t.slice, env)
            if isinstance(base, dict) and not _is_sym(key):
                try:
                    base[key] = v
                except TypeError:
                    raise _Raise("TypeError", t.lineno)
            elif isinstance(base, list) and isinstance(key, (int, Enum)) and not isinstance(key, bool):
                try:
                    base[key.value if isinstance(key, Enum) else key] = v
                except IndexError:
                    raise _Raise("IndexError", t.lineno)
            else:
                self.err(t, "store into a value that is not a concrete dict / list")
        else:
            self.err(t, f"unsupported assignment target {type(t).__name__}")

    def unpack(self, v, n, node):
        if isinstance(v, (tuple, list)):
            items = list(v)
        elif isinstance(v, Iter):
            items = v.rest()
        elif isinstance(v, dict):
            items = list(v)
        elif _is_sym(v):
            return [T("sub", v, i) for i in range(n)]
        else:
            self.err(node, f"cannot unpack {show(v)}")
        if len(items) != n:
            raise _Raise("ValueError", node.lineno)
        return items

    def iterate(self, v, node):
        if isinstance(v, (list, tuple)):
            return list(v)
        if isinstance(v, dict):
            return list(v)
        if isinstance(v, Iter):
            return v.rest()
        if isinstance(v, str):
            return list(v)
        if isinstance(v, (set, frozenset)):
            return sorted(v, key=lambda x: repr(_freeze(x)))
        if isinstance(v, EnumType):
            return [Enum(v.name, k, x) for k, x in v.values.items()]
        self.err(node, f"iteration over a value that is not concrete: {show(v)}")

    # -- operators ---------------------------------------------------------------------
    def binop(self, n, op, a, b):
        sym = _BINOPS.get(type(op))
        if sym is None:
            self.err(n, "unsupported operator")
        if _is_sym(a) or _is_sym(b):
            la, lb = Lin.of(a), Lin.of(b)
            if la is not None and lb is not None:
                if sym == "+":
                    return la.add(lb).simp()
                if sym == "-":
                    return la.add(lb, -1).simp()
                if sym == "*":
                    if not la.terms:
                        return lb.scale(la.const).simp()
                    if not lb.terms:
                        return la.scale(lb.const).simp()
            return T("binop", sym, _snap(a), _snap(b))
        if isinstance(a, (Ext, Func, BoundMethod, EnumType)) or isinstance(b, (Ext, Func, BoundMethod, EnumType)):
            return T("binop", sym, _snap(a), _snap(b))
        if isinstance(a, Enum):
            a = a.value
        if isinstance(b, Enum):
            b = b.value
        if isinstance(a, Iter) or isinstance(b, Iter):
            raise _Raise("TypeError", getattr(n, "lineno", None))
        try:
            if sym == "+":
                return a + b
            if sym == "-":
                return a - b
            if sym == "*":
                return a * b
            if sym == "/":
                return a / b
            if sym == "//":
                return a // b
            if sym == "%":
                if isinstance(a, str):
                    return T("fstr", getattr(n, "lineno", 0))
                return a % b
            if sym == "**":
                return a ** b
            if sym == "<<":
                if isinstance(b, int) and b > 4096:
                    self.err(n, "shift too large")
                return a << b
            if sym == ">>":
                return a >> b
            if sym == "&":
                return a & b
            if sym == "|":
                return a | b
            if sym == "^":
                return a ^ b
        except ZeroDivisionError:
            raise _Raise("ZeroDivisionError", getattr(n, "lineno", None))
        except TypeError:
            raise _Raise("TypeError", getattr(n, "lineno", None))
        self.err(n, f"unsupported operator {sym}")

    def compare(self, n, op, a, b):
        sym = _CMPOPS[type(op)]
        unknown = T("cmp", sym, _snap(a), _snap(b))
        if isinstance(a, Iter) or isinstance(b, Iter):
            self.err(n, "comparison of an iterator")
        opaque = (Ext, Func, BoundMethod, EnumType)
        if sym in ("is", "is not"):
            if _is_sym(a) or _is_sym(b):
                return unknown
            if isinstance(a, opaque) or isinstance(b, opaque):
                if isinstance(a, Ext) and isinstance(b, Ext) and a == b:
                    r = True
                elif a is None or b is None or isinstance(a, bool) or isinstance(b, bool):
                    r = False
                else:
                    return unknown
            elif a is None or b is None or isinstance(a, bool) or isinstance(b, bool):
                r = a is b
            else:
                r = _freeze(a) == _freeze(b)
            return r if sym == "is" else not r
        if sym in ("in", "not in"):
            if _is_sym(b) or isinstance(b, opaque):
                return unknown
            if not isinstance(b, (list, tuple, dict, set, frozenset, str)):
                raise _Raise("TypeError", n.lineno)
            if _is_sym(a) or isinstance(a, opaque):
                if len(b) == 0:
                    return sym == "not in"
                return unknown
            try:
                r = a in b
            except TypeError:
                raise _Raise("TypeError", n.lineno)
            return r if sym == "in" else not r
        if _is_sym(a) or _is_sym(b):
            la, lb = Lin.of(a), Lin.of(b)
            if la is None or lb is None:
                return unknown
            d = la.add(lb, -1)
            if d.terms:
                return unknown
            a, b = d.const, 0
        elif isinstance(a, opaque) or isinstance(b, opaque):
            if sym in ("==", "!=") and isinstance(a, Ext) and isinstance(b, Ext) and a == b:
                return sym == "=="
            return unknown
        if sym not in ("==", "!="):
            a = a.value if isinstance(a, Enum) else a
            b = b.value if isinstance(b, Enum) else b
        elif _freeze(a) != _freeze(b) and (any(True for _ in terms_in(a)) or any(True for _ in terms_in(b))):
            return unknown          # containers with symbolic members that are not identical
        try:
            if sym == "==":
                return _freeze(a) == _freeze(b) if isinstance(a, (list, tuple, dict, set, frozenset)) else bool(a == b)
            if sym == "!=":
                return _freeze(a) != _freeze(b) if isinstance(a, (list, tuple, dict, set, frozenset)) else bool(a != b)
            if sym == "<":
                return a < b
            if sym == "<=":
                return a <= b
            if sym == ">":
                return a > b
            return a >= b
        except TypeError:
            raise _Raise("TypeError", n.lineno)

    def subscript(self, base, key, n):
        if isinstance(base, (list, tuple, str)):
            if isinstance(key, SliceV):
                parts = [p.value if isinstance(p, Enum) else p for p in (key.lo, key.hi, key.step)]
                if all(p is None or (isinstance(p, int) and not isinstance(p, bool)) for p in parts):
                    return base[slice(*parts)]
                return T("sub", _snap(base), key)
            if isinstance(key, Enum):
                key = key.value
            if isinstance(key, int):
                try:
                    return base[key]
                except IndexError:
                    raise _Raise("IndexError", n.lineno)
            if _is_sym(key):
                return T("sub", _snap(base), key)
            raise _Raise("TypeError", n.lineno)
        if isinstance(base, dict):
            if _is_sym(key):
                return T("sub", _snap(base), key)
            try:
                if key in base:
                    return base[key]
            except TypeError:
                raise _Raise("TypeError", n.lineno)
            raise _Raise("KeyError", n.lineno)
        if isinstance(base, (T, Lin, Ext)):
            return T("sub", base, _snap(key))
        if isinstance(base, (int, float, type(None), Iter, Enum, set, frozenset)):
            raise _Raise("TypeError", n.lineno)
        self.err(n, f"unsupported subscript of {show(base)}")

    def attr(self, v, name, n):
        if isinstance(v, Ext) and not isinstance(v, Builtin):
            if v.name in ("mujoco", "mujoco._enums"):
                vals = self.H.enumerators(name) if name.startswith("mjt") else None
                if vals is not None:
                    return EnumType(name, vals)
                for tab in (self.H.macros, self.H.consts):
                    x = tab.get(name)
                    if isinstance(x, (int, float)) and not isinstance(x, bool):
                        return x
            return Ext(v.name + "." + name)
        if isinstance(v, EnumType):
            if name in v.values:
                return Enum(v.name, name, v.values[name])
            self.err(n, f"mujoco.{v.name} has no enumerator {name}")
        if isinstance(v, Enum):
            if name == "value":
                return v.value
            if name == "name":
                return v.name
            self.err(n, f"unsupported attribute {name} of an enumerator")
        if _is_sym(v):
            return T("attr", v, name)
        if isinstance(v, (dict, list, tuple, str, set, frozenset)):
            return BoundMethod(v, name)
        if isinstance(v, Func) and name == "__name__":
            return v.name
        if isinstance(v, Builtin):
            return Ext(v.name + "." + name)
        self.err(n, f"unsupported attribute {name} of {show(v)}")

    # -- expressions -------------------------------------------------------------------
    def ev(self, n, env):
        if isinstance(n, ast.Constant):
            return n.value
        if isinstance(n, ast.Name):
            if n.id in env:
                return env[n.id]
            return self.glob(n.id, n)
        if isinstance(n, ast.Attribute):
            return self.attr(self.ev(n.value, env), n.attr, n)
        if isinstance(n, ast.Subscript):
            return self.subscript(self.ev(n.value, env), self.ev(n.slice, env), n)
        if isinstance(n, ast.Slice):
            return SliceV(*(self.ev(x, env) if x is not None else None for x in (n.lower, n.upper, n.step)))
        if isinstance(n, (ast.Tuple, ast.List, ast.Set)):
            out = []
            for e in n.elts:
                if isinstance(e, ast.Starred):
                    out.extend(self.iterate(self.ev(e.value, env), e))
                else:
                    out.append(self.ev(e, env))
            if isinstance(n, ast.Tuple):
                return tuple(out)
            if isinstance(n, ast.List):
                return out
            try:
                return set(out)
            except TypeError:
                self.err(n, "unhashable set element")
        if isinstance(n, ast.Dict):
            out = {}
            for k, v in zip(n.keys, n.values):
                if k is None:
                    d = self.ev(v, env)
                    if not isinstance(d, dict):
                        self.err(n, "cannot resolve ** in a dict display")
                    out.update(d)
                else:
                    kk = self.ev(k, env)
                    try:
                        out[kk] = self.ev(v, env)
                    except TypeError:
                        self.err(n, "unhashable dict key")
            return out
        if isinstance(n, ast.BinOp):
            return self.binop(n, n.op, self.ev(n.left, env), self.ev(n.right, env))
        if isinstance(n, ast.UnaryOp):
            v = self.ev(n.operand, env)
            if isinstance(n.op, ast.Not):
                t = truth(v)
                return (not t) if t is not None else T("not", _snap(v))
            if isinstance(v, Enum):
                v = v.value
            if isinstance(n.op, ast.USub):
                l = Lin.of(v)
                if l is not None:
                    return l.scale(-1).simp()
                if isinstance(v, float):
                    return -v
            elif isinstance(n.op, ast.UAdd) and (Lin.of(v) is not None or isinstance(v, float)):
                return v
            elif isinstance(n.op, ast.Invert) and isinstance(v, int):
                return ~v
            return T("unop", type(n.op).__name__, _snap(v))
        if isinstance(n, ast.BoolOp):
            is_and = isinstance(n.op, ast.And)
            vals, unknown = [], False
            for x in n.values:
                v = self.ev(x, env)
                vals.append(v)
                t = truth(v)
                if t is None:
                    unknown = True
                elif t != is_and:
                    return v            # decides the whole expression (its truth value, at least)
            return T("boolop", "and" if is_and else "or", _snap(vals)) if unknown else vals[-1]
        if isinstance(n, ast.Compare):
            left = self.ev(n.left, env)
            res, unknown = True, []
            for op, c in zip(n.ops, n.comparators):
                right = self.ev(c, env)
                r = self.compare(n, op, left, right)
                if r is False:
                    return False
                if r is not True:
                    unknown.append(r)
                left = right
            if unknown:
                return unknown[0] if len(unknown) == 1 else T("boolop", "and", tuple(unknown))
            return res
        if isinstance(n, ast.IfExp):
            c = self.ev(n.test, env)
            t = truth(c)
            if t is not None:
                return self.ev(n.body if t else n.orelse, env)
            return T("ifexp", _snap(c), _snap(self.ev(n.body, env)), _snap(self.ev(n.orelse, env)))
        if isinstance(n, ast.Call):
            f = self.ev(n.func, env)
            args = []
            for a in n.args:
                if isinstance(a, ast.Starred):
                    args.extend(self.iterate(self.ev(a.value, env), a))
                else:
                    args.append(self.ev(a, env))
            kwargs = []
            for kw in n.keywords:
                v = self.ev(kw.value, env)
                if kw.arg is None:
                    if not isinstance(v, dict) or not all(isinstance(k, str) for k in v):
                        self.err(n, f"cannot resolve `**{ast.unparse(kw.value)[:40]}`")
                    kwargs.extend(v.items())
                else:
                    kwargs.append((kw.arg, v))
            return self.call(f, args, kwargs, n)
        if isinstance(n, ast.JoinedStr):
            return T("fstr", n.lineno)
        if isinstance(n, ast.Lambda):
            return Func(n, env)
        if isinstance(n, (ast.ListComp, ast.SetComp, ast.DictComp, ast.GeneratorExp)):
            return self.comprehension(n, env)
        if isinstance(n, ast.NamedExpr):
            v = self.ev(n.value, env)
            env[n.target.id] = v
            return v
        if isinstance(n, ast.Yield):
            if not self.ystack:
                self.err(n, "yield outside a generator call")
            out, fork = self.ystack[-1]
            if fork != self.fork:
                self.err(n, "yield under a condition that is not decidable")
            out.append(self.ev(n.value, env) if n.value is not None else None)
            return None
        if isinstance(n, ast.YieldFrom):
            if not self.ystack:
                self.err(n, "yield outside a generator call")
            out, fork = self.ystack[-1]
            if fork != self.fork:
                self.err(n, "yield under a condition that is not decidable")
            out.extend(self.iterate(self.ev(n.value, env), n))
            return None
        if isinstance(n, ast.Starred):
            self.err(n, "starred expression")
        self.err(n, f"unsupported expression {type(n).__name__}")

    def comprehension(self, n, env):
        out = []

        def rec(i, e):
            if i == len(n.generators):
                if isinstance(n, ast.DictComp):
                    out.append((self.ev(n.key, e), self.ev(n.value, e)))
                else:
                    out.append(self.ev(n.elt, e))
                return
            g = n.generators[i]
            if g.is_async:
                self.err(n, "async comprehension")
            for v in self.iterate(self.ev(g.iter, e), g.iter):
                self.assign(g.target, v, e)
                keep = True
                for c in g.ifs:
                    t = truth(self.ev(c, e))
                    if t is None:
                        self.err(c, "comprehension filter is not decidable")
                    if not t:
                        keep = False
                        break
                if keep:
                    rec(i + 1, e)
        rec(0, dict(env))
        try:
            if isinstance(n, ast.ListComp):
                return out
            if isinstance(n, ast.SetComp):
                return set(out)
            if isinstance(n, ast.DictComp):
                return dict(out)
        except TypeError:
            self.err(n, "unhashable element in a comprehension")
        return Iter(out)

    # -- builtins and methods of concrete containers ---------------------------------------
    def builtin(self, name, args, kwargs, n):
        kw = dict(kwargs)
        line = getattr(n, "lineno", None)

        def opaque():
            t = T("call", Builtin(name), _snap(args), tuple((k, _snap(v)) for k, v in kwargs))
            return t
        if name in _EXC:
            return T("exc", name)
        if name == "int":
            if not args:
                return 0
            x = args[0]
            if _is_sym(x):
                return x            # integer-valued by assumption (sizes, counts)
            if isinstance(x, Enum):
                return x.value
            if isinstance(x, (bool, int, float, str)):
                try:
                    return int(x, *args[1:]) if isinstance(x, str) else int(x)
                except (ValueError, TypeError):
                    raise _Raise("ValueError", line)
            return opaque()
        if name == "bool":
            t = truth(args[0]) if args else False
            return t if t is not None else opaque()
        if name == "float":
            if args and isinstance(args[0], (bool, int, float)):
                return float(args[0])
            return opaque()
        if name in ("str", "repr", "format"):
            if len(args) == 1 and isinstance(args[0], (str, int)) and not isinstance(args[0], bool):
                return str(args[0]) if name != "repr" else repr(args[0])
            return T("fstr", line or 0)
        if name == "len":
            x = args[0]
            if isinstance(x, (list, tuple, dict, str, set, frozenset)):
                return len(x)
            if _is_sym(x) or isinstance(x, Ext):
                return opaque()
            raise _Raise("TypeError", line)
        if name == "range":
            vals = [a.value if isinstance(a, Enum) else a for a in args]
            if vals and all(isinstance(a, int) and not isinstance(a, bool) for a in vals):
                try:
                    r = range(*vals)
                except (TypeError, ValueError):
                    raise _Raise("ValueError", line)
                if len(r) > 100000:
                    self.err(n, "range too large")
                return list(r)
            return opaque()
        if name == "sum":
            acc = args[1] if len(args) > 1 else kw.get("start", 0)
            for x in self.iterate(args[0], n):
                acc = self.binop(n, ast.Add(), acc, x)
            return acc
        if name == "getattr":
            if len(args) < 2:
                raise _Raise("TypeError", line)
            o, k = args[0], args[1]
            if isinstance(k, str):
                if len(args) == 3 and (_is_sym(o) or isinstance(o, Ext)):
                    return T("attr?", o, k, _snap(args[2]))
                if len(args) == 3:
                    try:
                        return self.attr(o, k, n)
                    except AnalysisError:
                        return args[2]
                return self.attr(o, k, n)
            if _is_sym(k):
                return T("getattr", _snap(o), k)
            raise _Raise("TypeError", line)
        if name in ("hasattr", "isinstance", "issubclass", "callable", "type", "id", "hash", "vars", "super", "object",
                    "complex", "bytes", "round", "divmod", "pow"):
            if name == "isinstance" and len(args) == 2 and isinstance(args[1], Builtin):
                py = {"int": int, "str": str, "float": float, "bool": bool, "tuple": tuple, "list": list, "dict": dict,
                      "set": set}.get(args[1].name)
                x = args[0]
                if py is not None and not _is_sym(x) and not isinstance(x, (Ext, Func, BoundMethod, Iter, EnumType)):
                    if isinstance(x, Enum):
                        return py is int
                    return isinstance(x, py)
            return opaque()
        if name in ("tuple", "list", "set", "frozenset"):
            items = self.iterate(args[0], n) if args else []
            try:
                return {"tuple": tuple, "list": list, "set": set, "frozenset": frozenset}[name](items)
            except TypeError:
                self.err(n, "unhashable set element")
        if name == "dict":
            out = {}
            if args:
                src = args[0]
                if isinstance(src, dict):
                    out.update(src)
                else:
                    for pair in self.iterate(src, n):
                        k, v = self.unpack(pair, 2, n)
                        out[k] = v
            out.update(kw)
            return out
        if name == "enumerate":
            start = args[1] if len(args) > 1 else kw.get("start", 0)
            return Iter([(start + i, x) for i, x in enumerate(self.iterate(args[0], n))])
        if name == "zip":
            return Iter([tuple(t) for t in zip(*(self.iterate(a, n) for a in args))])
        if name == "reversed":
            return Iter(list(reversed(self.iterate(args[0], n))))
        if name == "sorted":
            items = self.iterate(args[0], n)
            keyf = kw.get("key")
            keys = [self.call(keyf, [x], [], n) for x in items] if keyf is not None else list(items)
            keys = [k.value if isinstance(k, Enum) else k for k in keys]
            if any(_is_sym(k) or isinstance(k, (Ext, Func)) for k in keys):
                self.err(n, "sorting by a key that is not concrete")
            try:
                order = sorted(range(len(items)), key=lambda i: keys[i], reverse=bool(truth(kw.get("reverse", False))))
            except TypeError:
                raise _Raise("TypeError", line)
            return [items[i] for i in order]
        if name in ("min", "max"):
            items = self.iterate(args[0], n) if len(args) == 1 else list(args)
            items = [x.value if isinstance(x, Enum) else x for x in items]
            if items and all(isinstance(x, (int, float, str)) for x in items) and "key" not in kw:
                try:
                    return min(items) if name == "min" else max(items)
                except TypeError:
                    raise _Raise("TypeError", line)
            if not items:
                if "default" in kw:
                    return kw["default"]
                raise _Raise("ValueError", line)
            return opaque()
        if name in ("any", "all"):
            unknown = False
            for x in self.iterate(args[0], n):
                t = truth(x)
                if t is None:
                    unknown = True
                elif t == (name == "any"):
                    return name == "any"
            return opaque() if unknown else name == "all"
        if name == "abs":
            x = args[0]
            if isinstance(x, (int, float)):
                return abs(x)
            return opaque()
        if name == "iter":
            x = args[0]
            return x if isinstance(x, Iter) else Iter(self.iterate(x, n))
        if name == "next":
            x = args[0]
            if not isinstance(x, Iter):
                if _is_sym(x):
                    return opaque()
                raise _Raise("TypeError", line)
            if x.pos < len(x.items):
                x.pos += 1
                return x.items[x.pos - 1]
            if len(args) > 1:
                return args[1]
            raise _Raise("StopIteration", line)
        if name == "map":
            return Iter([self.call(args[0], list(t), [], n) for t in zip(*(self.iterate(a, n) for a in args[1:]))])
        if name == "filter":
            out = []
            for x in self.iterate(args[1], n):
                t = truth(x if args[0] is None else self.call(args[0], [x], [], n))
                if t is None:
                    self.err(n, "filter predicate is not decidable")
                if t:
                    out.append(x)
            return Iter(out)
        if name == "slice":
            a = list(args) + [None] * 3
            return SliceV(None, a[0], None) if len(args) == 1 else SliceV(a[0], a[1], a[2])
        if name == "print":
            return None
        return opaque()

    def method(self, bm, args, kwargs, n):
        o, name = bm.obj, bm.name
        kw = dict(kwargs)
        line = getattr(n, "lineno", None)
        try:
            if isinstance(o, dict):
                if name == "items":
                    return [(k, v) for k, v in o.items()]
                if name == "keys":
                    return list(o.keys())
                if name == "values":
                    return list(o.values())
                if name == "copy":
                    return dict(o)
                if name in ("get", "pop", "setdefault") and args:
                    k = args[0]
                    if _is_sym(k):
                        self.err(n, f"dict.{name} with a key that is not concrete")
                    if name == "get":
                        return o.get(k, args[1] if len(args) > 1 else kw.get("default"))
                    if name == "setdefault":
                        return o.setdefault(k, args[1] if len(args) > 1 else None)
                    if k in o:
                        return o.pop(k)
                    if len(args) > 1:
                        return args[1]
                    raise _Raise("KeyError", line)
                if name == "update":
                    for src in args:
                        if isinstance(src, dict):
                            o.update(src)
                        else:
                            for pair in self.iterate(src, n):
                                k, v = self.unpack(pair, 2, n)
                                o[k] = v
                    o.update(kw)
                    return None
                if name == "clear":
                    o.clear()
                    return None
            elif isinstance(o, list):
                if name == "append" and len(args) == 1:
                    o.append(args[0])
                    return None
                if name == "extend" and len(args) == 1:
                    o.extend(self.iterate(args[0], n))
                    return None
                if name == "insert" and len(args) == 2 and isinstance(args[0], int):
                    o.insert(args[0], args[1])
                    return None
                if name == "pop":
                    if not o:
                        raise _Raise("IndexError", line)
                    return o.pop(*[a for a in args if isinstance(a, int)])
                if name == "copy":
                    return list(o)
                if name == "reverse":
                    o.reverse()
                    return None
                if name == "clear":
                    del o[:]
                    return None
                if name == "sort":
                    o[:] = self.builtin("sorted", [list(o)], list(kwargs), n)
                    return None
            if isinstance(o, (list, tuple)) and name in ("index", "count") and len(args) == 1 and not _is_sym(args[0]):
                fz = [_freeze(x) for x in o]
                if name == "count":
                    return fz.count(_freeze(args[0]))
                if _freeze(args[0]) in fz:
                    return fz.index(_freeze(args[0]))
                raise _Raise("ValueError", line)
            if isinstance(o, str):
                if name == "format":
                    return T("fstr", line or 0)
                if all(isinstance(a, (str, int, tuple)) for a in args) and not kw and name in (
                        "startswith", "endswith", "split", "rsplit", "lower", "upper", "strip", "lstrip", "rstrip", "replace",
                        "removeprefix", "removesuffix", "isdigit", "find", "partition", "rpartition", "title", "capitalize"):
                    r = getattr(o, name)(*args)
                    return r
                if name == "join" and len(args) == 1:
                    items = self.iterate(args[0], n)
                    if all(isinstance(x, str) for x in items):
                        return o.join(items)
                    return T("fstr", line or 0)
            if isinstance(o, (set, frozenset)):
                if name in ("add", "discard", "remove") and isinstance(o, set) and len(args) == 1:
                    if name == "remove" and args[0] not in o:
                        raise _Raise("KeyError", line)
                    getattr(o, name)(args[0])
                    return None
                if name == "update" and isinstance(o, set):
                    for a in args:
                        o.update(self.iterate(a, n))
                    return None
                if name in ("union", "intersection", "difference", "symmetric_difference", "issubset", "issuperset",
                            "isdisjoint"):
                    return getattr(o, name)(*[set(self.iterate(a, n)) for a in args])
                if name == "copy":
                    return type(o)(o)
        except TypeError:
            raise _Raise("TypeError", line)
        self.err(n, f"unsupported method {type(o).__name__}.{name}")


# --------------------------------------------------------------------------------------
# dimensions that coincide for every model put_model accepts

# C sizes some actuator arrays by `nout` (sum of per-actuator output widths) and `ctrl` by `nu` (sum of control
# widths); MJX sizes all of them by m.nu.  One named dimension per line, with the argument and its mechanical check.
DIM_EQUIV = {
    "nout": ("nu", "nout = sum(outnum_), nu = sum(ctrlnum_) in mjCModel; both widths are 1 unless mjCActuator::Compile "
                   "assigns otherwise, and every such assignment sits under `if (x == mjE [|| y == mjF ...])` for "
                   "enumerators that the MJX mirrors omit and _put_model_jax gates with NotImplementedError "
                   "(checked below from src/user/user_objects.cc and the C43 gate analysis)"),
}
COMPILER_CC = "src/user/user_objects.cc"
WIDTH_VARS = ("outnum_", "ctrlnum_")


class _Quiet:
    """Result stand-in: lets C44 reuse C43's mirror/gate analysis without recording C43's obligations."""

    def __init__(self):
        self.extra = {}
        self.problems = []

    def rule(self, *a, **k):
        pass

    def ok(self, *a, **k):
        pass

    def bad(self, rule, construct, *a, **k):
        self.problems.append((rule, construct))


def _blank_comments_and_strings(src):
    out = list(src)
    i, n = 0, len(src)
    while i < n:
        if src.startswith("//", i):
            j = src.find("\n", i)
            j = n if j < 0 else j
        elif src.startswith("/*", i):
            j = src.find("*/", i + 2)
            j = n if j < 0 else j + 2
        elif src[i] in "\"'":
            q = src[i]
            j = i + 1
            while j < n and src[j] != q:
                j += 2 if src[j] == "\\" else 1
            j += 1
        else:
            i += 1
            continue
        for k in range(i, min(j, n)):
            if out[k] != "\n":
                out[k] = " "
        i = j
    return "".join(out)


def _enclosing_if_conditions(clean, pos):
    conds = []
    depth = 0
    i = pos - 1
    while i >= 0:
        c = clean[i]
        if c == "}":
            depth += 1
        elif c == "{":
            if depth:
                depth -= 1
            else:
                j = i - 1
                while j >= 0 and clean[j].isspace():
                    j -= 1
                if j >= 0 and clean[j] == ")":
                    d, k = 0, j
                    while k >= 0:
                        if clean[k] == ")":
                            d += 1
                        elif clean[k] == "(":
                            d -= 1
                            if d == 0:
                                break
                        k -= 1
                    w = k - 1
                    while w >= 0 and clean[w].isspace():
                        w -= 1
                    e = w + 1
                    while w >= 0 and (clean[w].isalnum() or clean[w] == "_"):
                        w -= 1
                    if clean[w + 1:e] == "if":
                        conds.append(" ".join(clean[k + 1:j].split()))
        i -= 1
    return conds


def unit_width_argument(repo, H, sources, classes):
    """(holds, detail): every non-unit assignment of outnum_/ctrlnum_ in the model compiler is guarded by a pure
    disjunction of equality tests against enumerators that gated MJX mirrors omit."""
    import re
    path = os.path.join(repo, COMPILER_CC)
    try:
        with open(path, encoding="utf-8", errors="replace") as f:
            clean = _blank_comments_and_strings(f.read())
    except OSError:
        raise AnalysisError(f"anchor vanished: {COMPILER_CC}")
    q = _Quiet()
    mir = c43.mirrors(q, H, classes)
    gates = c43.check_gates(q, H, sources, classes, mir)
    rejected = {}
    for cname, m in mir.items():
        if cname in gates:
            for e in m["partial"]:
                rejected[e] = cname
    sites = []
    for mm in re.finditer(r"\b(%s)\s*(\+?=)(?!=)\s*([^;]*);" % "|".join(WIDTH_VARS), clean):
        rhs = " ".join(mm.group(3).split())
        if mm.group(2) == "=" and rhs == "1":
            continue
        line = clean.count("\n", 0, mm.start()) + 1
        conds = _enclosing_if_conditions(clean, mm.start())
        good = None
        for cnd in conds:
            if re.fullmatch(r"\w+ ?== ?mj\w+( ?\|\| ?\w+ ?== ?mj\w+)*", cnd):
                ens = re.findall(r"== ?(mj\w+)", cnd)
                if all(e in rejected for e in ens):
                    good = (cnd, sorted({rejected[e] for e in ens}))
                    break
        sites.append({"var": mm.group(1), "line": line, "rhs": rhs, "guard": good, "conditions": conds})
    if not any(True for _ in re.finditer(r"\b(%s)\s*=\s*1\s*;" % "|".join(WIDTH_VARS), clean)):
        raise AnalysisError(f"{COMPILER_CC}: anchor vanished: unit defaults of {WIDTH_VARS}")
    bad = [s_ for s_ in sites if s_["guard"] is None]
    return (not bad), {"non_unit_assignments": sites, "unguarded": bad}


def _as_size(v, mroot):
    """(k, field) for the values k, m.<field>, k*m.<field>; None for anything else"""
    if isinstance(v, bool):
        return None
    l = Lin.of(v)
    if l is None:
        return None
    if not l.terms:
        return (l.const, None)
    if l.const == 0 and len(l.terms) == 1:
        (a, c), = l.terms.items()
        if a.head == "attr" and a.args[0] == mroot:
            return (c, a.args[1])
    return None


def _size_text(k, f, arrow="."):
    return f"{k}*m{arrow}{f}" if f else f"{k}"


def _converted(v):
    """the value passes a dtype conversion (`.astype(..)` or a call with dtype=...)"""
    for t in terms_in(v):
        if t.head == "mcall" and (t.args[1] == "astype" or any(k == "dtype" for k, _ in t.args[3])):
            return True
        if t.head == "call" and any(k == "dtype" for k, _ in t.args[2]):
            return True
    return False


def _state_items(v, droot, where):
    """[(data field, converted)]: the pieces of the vector a get_state call returns, in concatenation order"""
    if not any(t.head == "attr" and t.args[0] == droot for t in terms_in(v)):
        return []
    seqs = [a for a in v.args[1] if isinstance(a, tuple)] if isinstance(v, T) and v.head == "call" else []
    if len(seqs) != 1:
        raise AnalysisError(f"{where}: the result is not one call over the sequence of selected pieces: {show(v)[:200]}")
    out = []
    for item in seqs[0]:
        fields = {t.args[1] for t in terms_in(item) if t.head == "attr" and t.args[0] == droot}
        if len(fields) != 1:
            raise AnalysisError(f"{where}: a piece of the state vector reads {sorted(fields)}: {show(item)[:200]}")
        out.append((fields.pop(), _converted(item)))
    return out


def _state_updates(v, droot, sroot, where):
    """{data field: (lo, hi, converted)}: the slices state[lo:hi] a set_state call writes into the replaced Data"""
    if v == droot:
        return {}
    if isinstance(v, T) and v.head == "mcall" and v.args[0] == droot and v.args[1] == "replace" and not v.args[2]:
        kws = v.args[3]
    elif isinstance(v, T) and v.head == "call" and isinstance(v.args[0], Ext) and v.args[0].name.endswith("replace") \
            and v.args[1] == (droot,):
        kws = v.args[2]
    else:
        raise AnalysisError(f"{where}: the result is not `d.replace(**updates)`: {show(v)[:200]}")
    out = {}
    for name, val in kws:
        if name in out:
            raise AnalysisError(f"{where}: field {name} is replaced twice")
        sl = {t.args[1] for t in terms_in(val) if t.head == "sub" and t.args[0] == sroot and isinstance(t.args[1], SliceV)}
        if len(sl) != 1:
            raise AnalysisError(f"{where}: the new value of {name} is not taken from one slice of the state vector: "
                                f"{show(val)[:200]}")
        s = sl.pop()
        lo, hi = Lin.of(0 if s.lo is None else s.lo), Lin.of(s.hi)
        if s.step is not None or lo is None or hi is None:
            raise AnalysisError(f"{where}: unsupported slice state[{s!r}] for {name}")
        out[name] = (lo, hi, _converted(val))
    return out


STATE_API = {"state_size": ("mj_stateSize", ("m",)), "get_state": ("mj_getState", ("m", "d")),
             "set_state": ("mj_setState", ("m", "d", "state"))}


def check_state(res, H, sources, classes, repo):
    rel = f"{MJX}/io.py"
    io = sources["io.py"]
    io_funcs = c43.functions(io)
    csize, cptr, cspecial, cloops, clines = c_state_facts(repo)
    st_enum = H.enumerators("mjtState")
    if st_enum is None:
        raise AnalysisError("anchor vanished: enum mjtState")
    nstate = st_enum.get("mjNSTATE")
    single = sorted((n for n, v in st_enum.items() if n.startswith("mjSTATE_") and v > 0 and v & (v - 1) == 0),
                    key=lambda n: st_enum[n])
    if nstate is None or len(single) != nstate or [st_enum[n] for n in single] != [1 << i for i in range(nstate)]:
        raise AnalysisError(f"mjtState: {len(single)} single-bit elements but mjNSTATE = {nstate}")
    cfield = dict((k, v[0]) for k, v in cptr.items())
    for k, f in cspecial.items():
        if k in cfield and cfield[k] != f:
            raise AnalysisError(f"{SUPPORT_C}: {k} maps to both {cfield[k]} and {f}")
        cfield[k] = f
    res.rule("R-STATE-MAP", "C (mj_stateElemPtr + special cases) and MJX (the field get_state reads / set_state replaces for "
             "each single-element signature) map every mjtState element to the same data field", floor=14)
    res.rule("R-STATE-SIZE", "C mj_stateElemSize and MJX (state_size of a single element, width of the slice set_state "
             "consumes) give every element the same size k*m.n", floor=14)
    res.rule("R-STATE-ORDER", "state_size/get_state/set_state select the elements with `element & spec` and lay them out in "
             "ascending bit order like the C loops; non-mjtNum elements are converted in both directions", floor=7)
    data_fields = set(c43.class_fields(classes, "Data") or ())
    model_fields = set(c43.class_fields(classes, "Model") or ())
    if not data_fields or not model_fields:
        raise AnalysisError(f"{MJX}/types.py: anchor vanished: Data / Model fields")
    mjdata = set(H.public_fields("mjData"))
    for el in single:
        if el not in cfield:
            raise AnalysisError(f"{SUPPORT_C}: no element pointer for {el}")
        if el not in csize:
            raise AnalysisError(f"{SUPPORT_C}: mj_stateElemSize has no case for {el}")
        if cfield[el] not in mjdata:
            raise AnalysisError(f"{SUPPORT_C}: d->{cfield[el]} is not a member of mjData")
    if len(set(cfield[el] for el in single)) != len(single):
        raise AnalysisError(f"{SUPPORT_C}: two state elements share a data field")

    # --- run the three API functions of io.py: concrete signature, symbolic model / data / state vector
    it = Interp(rel, io, H)
    M, D, S = root("m"), root("d"), root("state")
    roots = {"m": M, "d": D, "state": S}
    for pyf, (_, roles) in STATE_API.items():
        fn = io_funcs.get(pyf)
        if fn is None:
            raise AnalysisError(f"{rel}: anchor vanished: {pyf}")
        a = fn.args
        if len(a.posonlyargs + a.args) != len(roles) + 1 or a.vararg or a.kwarg or a.kwonlyargs:
            raise AnalysisError(f"{rel}:{fn.lineno}: {pyf} signature changed")

    def run(pyf, spec):
        return it.call_function(pyf, [roots[r] for r in STATE_API[pyf][1]] + [spec])

    def spec_of(els):
        return sum(st_enum[e] for e in els)

    def c_lin(el):
        (k, f), _ = csize[el]
        return Lin({T("attr", M, f): k}) if f else Lin({}, k)
    facts = {}
    for el in single:
        f = facts[el] = {}
        kind, v = run("state_size", st_enum[el])
        f["size"] = ("raise", v) if kind == "raise" else ("ok", v)
        kind, v = run("get_state", st_enum[el])
        f["get"] = ("raise", v) if kind == "raise" else ("ok", _state_items(v, D, f"{rel}: get_state({el})"))
        kind, v = run("set_state", st_enum[el])
        f["set"] = ("raise", v) if kind == "raise" else ("ok", _state_updates(v, D, S, f"{rel}: set_state({el})"))
    gline, sline, zline = (io_funcs[f_].lineno for f_ in ("get_state", "set_state", "state_size"))

    # --- element -> field
    good = set()
    for el in single:
        key = f"mjtState.{el}"
        cf = cfield[el]
        g, s = facts[el]["get"], facts[el]["set"]
        raised = [f"{nm} raises {x[1]}" for nm, x in (("get_state", g), ("set_state", s)) if x[0] == "raise"]
        if raised:
            res.bad("R-STATE-MAP", key, rel, gline, f"{el} is a state element of the C API (field {cf}) but MJX has no "
                    f"mapping for it: {' and '.join(raised)} for a signature C accepts")
            continue
        gf, sf = [x[0] for x in g[1]], sorted(s[1])
        if len(gf) != 1 or len(sf) != 1:
            res.bad("R-STATE-MAP", key, rel, gline, f"{el}: C reads/writes exactly d->{cf} ({SUPPORT_C}:"
                    f"{clines['mj_stateElemPtr']}); for this signature get_state reads {gf} and set_state replaces {sf}")
        elif gf[0] != sf[0]:
            res.bad("R-STATE-MAP", key, rel, sline, f"{el}: get_state reads d.{gf[0]} but set_state replaces d.{sf[0]}; C "
                    f"uses d->{cf} in both directions")
        elif gf[0] != cf:
            res.bad("R-STATE-MAP", key, rel, gline, f"{el}: C reads/writes d->{cf} ({SUPPORT_C}:"
                    f"{clines['mj_stateElemPtr']}), MJX maps it to {gf[0]!r}")
        elif cf not in data_fields:
            res.bad("R-STATE-MAP", key, rel, gline, f"{el} -> {cf!r}: types.Data has no field {cf}")
        else:
            good.add(el)
            res.ok("R-STATE-MAP", key, {"field": cf, "c": f"{SUPPORT_C}:{clines['mj_stateElemPtr']}",
                                        "mjx": f"{rel}:{gline}"})
    # tables keyed by mjtState that the API consults must not know elements C does not handle one by one
    for name in sorted(it.greads):
        tab = it.gcache.get(name)
        if isinstance(tab, dict) and tab and all(isinstance(k, Enum) and k.etype == "mjtState" for k in tab):
            line = next((st.lineno for st in io.body if isinstance(st, (ast.Assign, ast.AnnAssign)) and any(
                isinstance(x, ast.Name) and x.id == name for x in ast.walk(st.targets[0] if isinstance(st, ast.Assign)
                                                                            else st.target))), 0)
            for k in tab:
                if k.name not in single:
                    res.bad("R-STATE-MAP", f"mjtState.{k.name}", rel, line, f"{name} has an entry for {k.name}, which is not "
                            f"a single-bit element of mjtState handled by mj_stateElemSize/Ptr")

    # --- sizes
    sized = set()
    for el in single:
        key = f"mjtState.{el}"
        (ck, cf), cline = csize[el]
        ctext = _size_text(ck, cf, "->")
        z, s = facts[el]["size"], facts[el]["set"]
        if z[0] == "raise":
            res.bad("R-STATE-SIZE", key, rel, zline, f"state_size raises {z[1]} for {el}; C returns {ctext}")
            continue
        ps = Lin.of(z[1])
        if ps is None or isinstance(z[1], bool):
            raise AnalysisError(f"{rel}:{zline}: state_size({el}) evaluates to {show(z[1])[:200]}")
        width = None
        if s[0] == "ok" and len(s[1]) == 1:
            lo, hi, _ = next(iter(s[1].values()))
            width = hi.add(lo, -1)
        if ps != c_lin(el):
            res.bad("R-STATE-SIZE", key, rel, zline, f"{el}: MJX size is {show(ps.simp())}, C size is {ctext} "
                    f"({SUPPORT_C}:{cline})")
        elif width is not None and width != c_lin(el):
            res.bad("R-STATE-SIZE", key, rel, sline, f"{el}: set_state consumes {show(width.simp())} values of the state "
                    f"vector, state_size and C ({SUPPORT_C}:{cline}) say {ctext}")
        elif cf is not None and cf not in model_fields:
            res.bad("R-STATE-SIZE", key, rel, zline, f"{el}: size field {cf} is not a field of types.Model")
        else:
            sized.add(el)
            res.ok("R-STATE-SIZE", key, {"size": show(ps.simp()), "c": f"{SUPPORT_C}:{cline}"})

    # --- selection, order, conversions, range check
    nonnum = {}
    for el, f in cfield.items():
        fld = H.field("mjData", f)
        t = cheaders.parse_type(fld["t"])
        while t[0] in ("ptr", "arr"):
            t = t[1]
        if t[1] != "mjtNum":
            nonnum[el] = (f, t[1])
    if set(nonnum) != set(cspecial):
        raise AnalysisError(f"{SUPPORT_C}: elements stored with a non-mjtNum type {sorted(nonnum)} differ from the elements "
                            f"mj_getState/mj_setState special-case {sorted(cspecial)}")
    for f in ("mj_stateSize", "mj_getState", "mj_setState"):
        if not cloops[f]:
            raise AnalysisError(f"{SUPPORT_C}: {f} no longer has the `for i<mjNSTATE; element = 1<<i; if (element & sig)` shape")
    usable = [el for el in single if el in good and el in sized]
    masks = [usable, []] + [[e for e in usable if e != x] for x in usable] + \
        [[a, b] for a, b in zip(usable, usable[1:])] + [usable[::2], usable[1::2]]
    seen_masks, specs = set(), []
    for m_ in masks:
        if spec_of(m_) not in seen_masks:
            seen_masks.add(spec_of(m_))
            specs.append(m_)
    conv1 = {el: (facts[el]["get"][1][0][1], next(iter(facts[el]["set"][1].values()))[2]) for el in usable}
    for pyf, (cfn, _) in STATE_API.items():
        pfn = io_funcs[pyf]
        problem = None
        for els in (specs if len(usable) > 1 else []):
            spec = spec_of(els)
            where = f"{rel}: {pyf}(spec={spec:#x})"
            kind, v = run(pyf, spec)
            if kind == "raise":
                problem = f"{pyf} raises {v} for the signature {spec:#x}, which {cfn} accepts"
            elif pyf == "state_size":
                want = Lin({}, 0)
                for e in els:
                    want = want.add(c_lin(e))
                got = Lin.of(v)
                if got is None:
                    raise AnalysisError(f"{where} evaluates to {show(v)[:200]}")
                if got != want:
                    problem = (f"state_size(spec={spec:#x}) is {show(got.simp())} but the elements selected by "
                               f"`element & spec` have total size {show(want.simp())}")
            elif pyf == "get_state":
                items = _state_items(v, D, where)
                want = [(cfield[e], conv1[e][0]) for e in els]
                if items != want:
                    problem = (f"get_state(spec={spec:#x}) concatenates {[x[0] for x in items]}"
                               + (" (conversions differ)" if [x[0] for x in items] == [x[0] for x in want] else "") +
                               f"; {cfn} writes {[x[0] for x in want]} (ascending bits of `element & spec`)")
            else:
                ups = _state_updates(v, D, S, where)
                if set(ups) != {cfield[e] for e in els}:
                    problem = (f"set_state(spec={spec:#x}) replaces {sorted(ups)}; {cfn} writes "
                               f"{[cfield[e] for e in els]}")
                else:
                    adr = Lin({}, 0)
                    for e in els:
                        lo, hi, cv = ups[cfield[e]]
                        end = adr.add(c_lin(e))
                        if lo != adr or hi != end or cv != conv1[e][1]:
                            problem = (f"set_state(spec={spec:#x}) takes {cfield[e]} from state[{show(lo.simp())}:"
                                       f"{show(hi.simp())}]" + ("" if cv == conv1[e][1] else " (conversion differs)") +
                                       f"; {cfn} reads it at [{show(adr.simp())}:{show(end.simp())}] (elements in ascending "
                                       f"bit order)")
                            break
                        adr = end
            if problem:
                break
        if problem:
            res.bad("R-STATE-ORDER", f"{pyf}:order", rel, pfn.lineno, problem + f" ({SUPPORT_C}:{clines[cfn]})")
        elif len(usable) > 1:
            res.ok("R-STATE-ORDER", f"{pyf}:order", {"c": f"{SUPPORT_C}:{clines[cfn]}", "mjx": f"{rel}:{pfn.lineno}",
                                                     "signatures_evaluated": len(specs) + len(single)})
        if pyf == "state_size":
            continue
        idx = 0 if pyf == "get_state" else 1
        for el, (f, ty) in sorted(nonnum.items()):
            r = facts[el]["get" if idx == 0 else "set"]
            if r[0] == "ok" and len(r[1]) == 1 and (r[1][0][1] if idx == 0 else next(iter(r[1].values()))[2]):
                res.ok("R-STATE-ORDER", f"{pyf}:convert:{el}", {"c_type": ty, "field": f})
            else:
                res.bad("R-STATE-ORDER", f"{pyf}:convert:{el}", rel, pfn.lineno, f"{pyf} does not convert {el} "
                        f"(C stores d->{f} as {ty} and special-cases it in {cfn})")
        # range check on the signature, as in C
        kind, v = run(pyf, 1 << nstate)
        kind2, _ = run(pyf, (1 << nstate) | 1)
        if kind == "raise" and kind2 == "raise":
            res.ok("R-STATE-ORDER", f"{pyf}:bound", {"raises": v})
        else:
            res.bad("R-STATE-ORDER", f"{pyf}:bound", rel, pfn.lineno, f"{pyf} does not reject spec >= 1<<mjNSTATE "
                    f"as {cfn} does")
    res.extra["c_state_table"] = {el: {"field": cfield[el], "size": f"{csize[el][0][0]}" +
                                       (f"*{csize[el][0][1]}" if csize[el][0][1] else "")} for el in single}
    res.extra["state_validation_guards_assumed_not_taken"] = sorted({c for _, c in it.assumed})[:10]


def _impl_branch(io_funcs, api, impl, rel):
    """the module-level function `api` dispatches to under `impl == types.Impl.<impl>`"""
    fn = io_funcs.get(api)
    if fn is None:
        raise AnalysisError(f"{rel}: anchor vanished: {api}")
    for n in ast.walk(fn):
        if isinstance(n, ast.If) and any(r == "types" and p == ["Impl", impl] for r, p, _ in c43.maximal_chains(n.test)):
            for st in n.body:
                for call in ast.walk(st):
                    if isinstance(call, ast.Call) and isinstance(call.func, ast.Name) and call.func.id in io_funcs:
                        return call.func.id
    raise AnalysisError(f"{rel}:{fn.lineno}: {api} has no `if impl == types.Impl.{impl}: return <local function>(...)` branch")


def _is_types_class(f, klass=None):
    if not isinstance(f, Ext):
        return None
    parts = f.name.split(".")
    if len(parts) >= 2 and parts[-2] == "types" and (klass is None or parts[-1] == klass):
        return parts[-1]
    return None


def _zeros_shape(v):
    """dims of `<numpy-like>.zeros(shape, ...)`, else None"""
    if isinstance(v, T) and v.head == "call" and isinstance(v.args[0], Ext) and v.args[0].name.split(".")[-1] == "zeros":
        pos, kws = v.args[1], dict(v.args[2])
        shape = pos[0] if pos else kws.get("shape")
        if isinstance(shape, tuple):
            return shape
        if shape is not None:
            return (shape,)
    return None


def check_make_data(res, H, sources, classes, repo):
    res.rule("R-MAKEDATA", "make_data builds exactly the fields of types.Data/DataJAX, public zero fields with the shape "
             "of the C arrays (MJDATA_POINTERS rows)", floor=110)
    rel = f"{MJX}/io.py"
    io = sources["io.py"]
    io_funcs = c43.functions(io)
    maker = _impl_branch(io_funcs, "make_data", "JAX", rel)
    fn = io_funcs[maker]
    params = fn.args.posonlyargs + fn.args.args
    if not params:
        raise AnalysisError(f"{rel}:{fn.lineno}: {maker} takes no model")
    # run the JAX maker with a symbolic model; constructions of types.* are events of the run
    it = Interp(rel, io, H)
    M = root("m")
    kind, val = it.call_function(maker, [M] + [root(p.arg) for p in params[1:]])
    if kind == "raise":
        raise AnalysisError(f"{rel}:{fn.lineno}: {maker} raises {val} for every model")
    built = {}
    for t, fork, line in it.events:
        klass = _is_types_class(t.args[0]) if t.head == "call" else None
        if klass in ("Data", "DataJAX"):
            if fork:
                raise AnalysisError(f"{rel}:{line}: types.{klass} is constructed under a condition that is not decidable")
            if klass in built:
                raise AnalysisError(f"{rel}:{line}: {maker} constructs types.{klass} twice")
            if t.args[1]:
                raise AnalysisError(f"{rel}:{line}: types.{klass}(...) with positional arguments")
            built[klass] = (t, line)
    for klass in ("Data", "DataJAX"):
        if klass not in built:
            raise AnalysisError(f"{rel}:{fn.lineno}: {maker} does not construct types.{klass}")
    if not any(t == built["Data"][0] for t in terms_in(val)):
        raise AnalysisError(f"{rel}:{fn.lineno}: {maker} does not return the types.Data it constructs")
    if not any(t == built["DataJAX"][0] for _, v in built["Data"][0].args[2] for t in terms_in(v)):
        raise AnalysisError(f"{rel}:{fn.lineno}: the types.DataJAX {maker} constructs is not part of the types.Data it returns")
    for klass in ("Data", "DataJAX"):
        call, line = built[klass]
        keys = [k for k, _ in call.args[2]]
        want = c43.class_fields(classes, klass)
        if want is None:
            raise AnalysisError(f"{MJX}/types.py: cannot resolve the fields of {klass}")
        for k in want:
            key = f"make_data:{klass}.{k}"
            if keys.count(k) == 1:
                res.ok("R-MAKEDATA", key, None)
            elif k not in keys:
                res.bad("R-MAKEDATA", key, rel, line, f"make_data never sets types.{klass}.{k} (put_data does): "
                        f"TypeError / different pytree")
            else:
                res.bad("R-MAKEDATA", key, rel, line, f"make_data sets types.{klass}.{k} twice")
        for k in keys:
            if k not in want:
                res.bad("R-MAKEDATA", f"make_data:{klass}.{k}", rel, line, f"make_data passes {k} to types.{klass}, "
                        f"which has no such field")
    # shapes of the public zero fields
    rows = xmacro_rows(repo, "MJDATA_POINTERS")
    call, cline = built["Data"]
    width = {}
    nzero = 0
    for name, v in call.args[2]:
        dims = _zeros_shape(v)
        if dims is None:
            continue
        nzero += 1
        key = f"shape:{name}"
        row = rows.get(name)
        if row is None:
            fld = H.field("mjData", name)
            if fld is not None and not dims and fld["t"] in ("mjtNum", "double"):
                res.ok("R-MAKEDATA", key, {"scalar": fld["t"]})
            else:
                res.bad("R-MAKEDATA", key, rel, cline, f"zero field {name} with shape rank {len(dims)} has no "
                        f"MJDATA_POINTERS row and is not a scalar mjtNum member of mjData")
            continue
        if not dims:
            res.bad("R-MAKEDATA", key, rel, cline, f"{name} is a scalar in make_data but an array ({row['nr']} x "
                    f"{row['nc']}) in C")
            continue
        lead = _as_size(dims[0], M)
        tail = 1
        ok = True
        for d in dims[1:]:
            if isinstance(d, int) and not isinstance(d, bool):
                tail *= d
            else:
                ok = False
        nc = row["nc"]
        ncv = int(nc) if nc.isdigit() else H.macros.get(nc, H.consts.get(nc))
        if not ok or lead is None or lead[0] != 1 or lead[1] is None:
            raise AnalysisError(f"{rel}:{cline}: shape {show(dims)} of zero field {name} is not (m.<n>, ints...)")
        lead = lead[1]
        if ncv is None:
            raise AnalysisError(f"X-macro extent {nc!r} of {name} is not a known constant")
        same_dim = lead == row["nr"]
        equiv = None
        if not same_dim and DIM_EQUIV.get(row["nr"], (None,))[0] == lead:
            if "holds" not in width:
                width["holds"], width["detail"] = unit_width_argument(repo, H, sources, classes)
                res.extra["unit_width_argument"] = width["detail"]
            if width["holds"]:
                equiv = f"{row['nr']} == {lead} for every accepted model: " + DIM_EQUIV[row["nr"]][1]
        if (not same_dim and equiv is None) or tail != ncv:
            why = ""
            if not same_dim and row["nr"] in DIM_EQUIV and not width.get("holds", True):
                ug = width["detail"]["unguarded"][0]
                why = (f"; the argument that {row['nr']} == {lead} for accepted models no longer holds: "
                       f"{COMPILER_CC}:{ug['line']} sets {ug['var']} = {ug['rhs']} without a guard MJX rejects")
            res.bad("R-MAKEDATA", key, rel, cline, f"make_data shape of {name} is (m.{lead}, ..x{tail}) but the C "
                    f"array is ({row['nr']} x {nc}): put_data of a fresh MjData yields a different shape" + why)
        else:
            smp = {"c_extent": f"{row['nr']} x {nc}", "mjx_shape": show(dims)}
            if equiv:
                smp["dimension_equivalence"] = equiv
            res.ok("R-MAKEDATA", key, smp)
    if nzero == 0:
        raise AnalysisError(f"{rel}:{cline}: no field of types.Data is built as zeros(shape) in {maker}")
    res.extra["make_data_root"] = maker


COPY_CALLS = {("copy", "copy"), ("copy", "deepcopy"), ("np", "array"), ("np", "copy"), ("numpy", "array"), ("numpy", "copy"),
              ("jp", "array"), ("jnp", "array")}


def _is_copy_call(v):
    """`copy.copy(x)`, `np.array(x)`, `x.copy()` ..."""
    import ast
    if not isinstance(v, ast.Call):
        return False
    f = v.func
    if isinstance(f, ast.Attribute):
        if isinstance(f.value, ast.Name) and (f.value.id, f.attr) in COPY_CALLS:
            return True
        if f.attr == "copy" and not v.args:
            return True
    return False


def check_host_copy(res, sources):
    """JAX back end transfer functions (`_put_*_jax`): jax.device_put may alias aligned host memory (zero-copy on CPU) and
    is asynchronous, so the numpy views into the live MjData / MjModel must be copied before they are handed over; otherwise
    the device value changes when the host object is stepped or reset, and put/get no longer round-trips."""
    import ast
    rel = f"{MJX}/io.py"
    res.rule("R-HOSTCOPY", "host arrays splatted into types.Data/Model by the JAX transfer functions are copies", floor=2)
    n = 0

    def reads_host(value, params):
        """the expression takes attributes of a parameter by name: getattr(<param>, ..) (a numpy view into the host object)"""
        return any(isinstance(c, ast.Call) and isinstance(c.func, ast.Name) and c.func.id == "getattr" and c.args and
                   isinstance(c.args[0], ast.Name) and c.args[0].id in params for c in ast.walk(value))
    # module functions that return a dict of host views
    view_fns = set()
    for f_ in sources["io.py"].body:
        if isinstance(f_, ast.FunctionDef):
            ps_ = {a.arg for a in f_.args.args}
            dicts_ = {a.targets[0].id for a in ast.walk(f_) if isinstance(a, ast.Assign) and len(a.targets) == 1 and
                      isinstance(a.targets[0], ast.Name) and isinstance(a.value, (ast.DictComp, ast.Dict)) and reads_host(a.value, ps_)}
            if any(isinstance(r, ast.Return) and isinstance(r.value, ast.Name) and r.value.id in dicts_ for r in ast.walk(f_)):
                view_fns.add(f_.name)
    for fn in ast.walk(sources["io.py"]):
        if not isinstance(fn, ast.FunctionDef) or not (fn.name.startswith("_put_") and fn.name.endswith("_jax")):
            continue
        params = {a.arg for a in fn.args.args}
        host = set()
        for a in ast.walk(fn):
            if isinstance(a, ast.Assign) and len(a.targets) == 1 and isinstance(a.targets[0], ast.Name):
                v_ = a.value
                if isinstance(v_, (ast.DictComp, ast.Dict)) and reads_host(v_, params) and not (isinstance(v_, ast.DictComp) and _is_copy_call(v_.value)):
                    host.add(a.targets[0].id)
                elif isinstance(v_, ast.Call) and isinstance(v_.func, ast.Name) and v_.func.id in view_fns:
                    host.add(a.targets[0].id)
        puts = [c for c in ast.walk(fn) if isinstance(c, ast.Call) and isinstance(c.func, ast.Attribute) and c.func.attr == "device_put"]
        if not puts:
            continue
        # locals bound to a dict of copies
        copied = set()
        for a in ast.walk(fn):
            if isinstance(a, ast.Assign) and len(a.targets) == 1 and isinstance(a.targets[0], ast.Name) and \
                    isinstance(a.value, ast.DictComp) and _is_copy_call(a.value.value):
                copied.add(a.targets[0].id)
        for c in ast.walk(fn):
            if not (isinstance(c, ast.Call) and isinstance(c.func, ast.Attribute) and isinstance(c.func.value, ast.Name)
                    and c.func.value.id == "types"):
                continue
            for kw in c.keywords:
                if kw.arg is not None:
                    continue
                v = kw.value
                names_ = {x.id for x in ast.walk(v) if isinstance(x, ast.Name)}
                if not (names_ & host):
                    continue        # a dict of freshly computed values
                n += 1
                ok = (isinstance(v, ast.DictComp) and _is_copy_call(v.value)) or (isinstance(v, ast.Name) and v.id in copied)
                key = f"{fn.name}:types.{c.func.attr}"
                if ok:
                    res.ok("R-HOSTCOPY", key, {"line": c.lineno})
                else:
                    res.bad("R-HOSTCOPY", key, rel, c.lineno,
                            f"{fn.name} splats `**{ast.unparse(v)[:60]}` into types.{c.func.attr} without copying the values: they are "
                            f"numpy views into the live host object and jax.device_put can alias them (CPU, x64) — the device value "
                            f"then follows later mj_step / mj_resetData of the source")
    if n == 0:
        raise AnalysisError(f"{rel}: no `_put_*_jax` function splatting host fields into types.* found")


def check_static_hash(res, sources):
    """Static numpy fields are pytree metadata; their hash is the jit cache key.  The key must be computed from the array's
    content whenever a wrapper is built (every flatten): every path of the key computation passes a hashlib digest of the
    array, none returns a remembered value."""
    import ast
    rel = f"{MJX}/dataclasses.py"
    res.rule("R-STATIC-HASH", "the hash key of static numpy fields is recomputed from the content on every path", floor=1)
    mod = sources.get("dataclasses.py")
    if mod is None:
        raise AnalysisError(f"anchor vanished: {rel}")
    wrappers = [c for c in ast.walk(mod) if isinstance(c, ast.ClassDef) and
                any(isinstance(f, ast.FunctionDef) and f.name == "__hash__" for f in c.body) and
                any("hashlib" in ast.unparse(f) for f in c.body if isinstance(f, ast.FunctionDef))]
    if len(wrappers) != 1:
        raise AnalysisError(f"{rel}: the numpy hash wrapper class (defines __hash__, uses hashlib) was not identified: "
                            f"{[c.name for c in wrappers]}")
    cls = wrappers[0]
    methods = {f.name: f for f in cls.body if isinstance(f, ast.FunctionDef)}

    def is_digest(node):
        return any(isinstance(c, ast.Call) and "hashlib." in ast.unparse(c.func) for c in ast.walk(node))

    def calls_method(node):
        out = []
        for c in ast.walk(node):
            if isinstance(c, ast.Call) and isinstance(c.func, ast.Attribute) and isinstance(c.func.value, ast.Name) and \
                    c.func.value.id in ("self", "cls", cls.name) and c.func.attr in methods:
                out.append(c.func.attr)
        return out

    def always(stmts, seen):
        """every path through stmts computes a digest before leaving (return) or falling through; returns
        (digest on all fall-through paths, offending return or None)"""
        done = False
        for st in stmts:
            if isinstance(st, ast.Return):
                if not done and not (st.value is not None and (is_digest(st.value) or any(ok_method(m_, seen) for m_ in calls_method(st.value)))):
                    return done, st
                return True, None
            if isinstance(st, ast.If):
                t_done, t_bad = always(st.body, seen)
                e_done, e_bad = always(st.orelse, seen) if st.orelse else (False, None)
                if not done and (t_bad or e_bad):
                    return done, (t_bad or e_bad)
                if t_done and e_done and st.orelse:
                    done = True
                continue
            if isinstance(st, (ast.Try,)):
                b_done, b_bad = always(st.body, seen)
                if not done and b_bad:
                    return done, b_bad
                for h in st.handlers:
                    h_done, h_bad = always(h.body, seen)
                    if not done and not b_done and h_bad:
                        return done, h_bad
                done = done or b_done
                continue
            if isinstance(st, (ast.For, ast.While, ast.With)):
                continue
            if is_digest(st) or any(ok_method(m_, seen) for m_ in calls_method(st)):
                done = True
        return done, None

    def ok_method(name, seen):
        if name in seen:
            return False
        d_, bad_ = always(methods[name].body, seen | {name})
        return d_ and bad_ is None
    init = methods.get("__init__")
    if init is None:
        raise AnalysisError(f"{rel}: {cls.name} has no __init__")
    d_, bad_ = always(init.body, {"__init__"})
    # report the offending return inside a helper, if any
    if not d_ or bad_ is not None:
        off = bad_
        if off is None:
            for m_ in calls_method(init):
                _d, b2 = always(methods[m_].body, {"__init__", m_})
                if b2 is not None:
                    off = b2
        res.bad("R-STATIC-HASH", f"{cls.name}:content-digest", rel, (off or init).lineno,
                f"{cls.name} does not digest the array content on every path of its key computation"
                + (f" (`{ast.unparse(off)[:60]}` returns without hashing)" if off is not None else "") +
                ": an in-place change of a static field keeps the old jit cache key and replays the stale trace")
    else:
        res.ok("R-STATIC-HASH", f"{cls.name}:content-digest", {"line": init.lineno})
    # the wrapper must be BUILT on every flatten: a flatten function (one that, directly or through nested helpers, constructs
    # the wrapper) neither stores anything on the instance it flattens nor reads a remembered value from it, and every path to
    # its return evaluates the construction -- a digest remembered per instance keeps the jit cache key of the old content
    funcs = [f for f in ast.walk(mod) if isinstance(f, (ast.FunctionDef, ast.AsyncFunctionDef))]

    def builds(f, depth=0):
        local = {g.name: g for g in ast.walk(f) if isinstance(g, ast.FunctionDef) and g is not f}
        for c in ast.walk(f):
            if isinstance(c, ast.Call):
                fn_ = c.func
                if isinstance(fn_, ast.Name) and fn_.id == cls.name:
                    return True
        return False
    flatteners = []
    for f in funcs:
        if f in cls.body or f.name in methods and f in methods.values():
            continue
        nested = [g for g in ast.walk(f) if isinstance(g, ast.FunctionDef) and g is not f]
        own_nested_builders = [g for g in nested if builds(g)]
        # outermost function whose nested helper (or itself) constructs the wrapper and that RETURNS (it is the flatten function)
        if own_nested_builders and any(isinstance(r, ast.Return) for r in f.body) :
            flatteners.append((f, own_nested_builders))
        elif builds(f) and not any(f in [g for g in ast.walk(o) if g is not o] for o, _ in flatteners) and \
                not any(isinstance(g, ast.FunctionDef) and builds(g) and f in ast.walk(g) and g is not f for g in funcs):
            if any(isinstance(r, ast.Return) for r in ast.walk(f)) and not any(f in ast.walk(o) and o is not f for o in funcs if builds(o) and o is not f and any(g is f for g in ast.walk(o))):
                flatteners.append((f, [f]))
    flatteners = [(f, b) for f, b in flatteners if len(f.args.args) >= 1]
    if not flatteners:
        raise AnalysisError(f"{rel}: no flatten function constructing {cls.name} found")
    for f, bld in flatteners:
        inst = f.args.args[0].arg
        helper_names = {g.name for g in bld if g is not f}
        problems = []
        for c in ast.walk(f):
            if isinstance(c, ast.Call):
                t = ast.unparse(c.func)
                if t in ("object.__setattr__", "setattr") and c.args and isinstance(c.args[0], ast.Name) and c.args[0].id == inst:
                    problems.append((c.lineno, f"`{ast.unparse(c)[:60]}` stores on the flattened instance"))
                if t in ("getattr",) and len(c.args) == 3 and isinstance(c.args[0], ast.Name) and c.args[0].id == inst:
                    problems.append((c.lineno, f"`{ast.unparse(c)[:60]}` reads an optional (remembered) attribute of the instance"))
            if isinstance(c, ast.Attribute) and c.attr == "__dict__" and isinstance(c.value, ast.Name) and c.value.id == inst:
                problems.append((c.lineno, f"`{inst}.__dict__` is consulted in the flatten function"))
            if isinstance(c, (ast.Assign, ast.AugAssign)):
                for tg in (c.targets if isinstance(c, ast.Assign) else [c.target]):
                    if isinstance(tg, ast.Attribute) and isinstance(tg.value, ast.Name) and tg.value.id == inst:
                        problems.append((c.lineno, f"`{ast.unparse(tg)}` is assigned on the flattened instance"))
        decos = [ast.unparse(d) for d in f.decorator_list] + [ast.unparse(d) for g in bld for d in g.decorator_list]
        if any("cache" in d for d in decos):
            problems.append((f.lineno, f"a caching decorator ({[d for d in decos if 'cache' in d][0]}) remembers the result"))
        key = f"{f.name}:wrapper-built-on-every-flatten"
        if problems:
            ln, why = sorted(problems)[0]
            res.bad("R-STATIC-HASH", key, rel, ln,
                    f"{f.name}: {why}: the content digests of the static fields are then not recomputed on every flatten, so an "
                    f"in-place change of a static numpy field keeps the old jit cache key and replays the stale trace")
        else:
            res.ok("R-STATIC-HASH", key, {"line": f.lineno, "builders": sorted(helper_names) or [f.name]})


# --------------------------------------------------------------------------------------
# self-test (thorough tier): scratch-copy mutants

IO = f"{MJX}/io.py"
DC = f"{MJX}/dataclasses.py"
_GET_LOOP = ("  state = []\n  for i in range(mujoco.mjtState.mjNSTATE.value):\n    element = mujoco.mjtState(1 << i)\n"
             "    if element & spec_int:\n      if element not in _STATE_MAP:\n"
             "        raise ValueError(f'Invalid state element {element}')\n      name = _STATE_MAP[element]\n"
             "      value = getattr(d, name)\n      if element == mujoco.mjtState.mjSTATE_EQ_ACTIVE:\n"
             "        value = value.astype(jp.float32)\n      state.append(value.flatten())\n")
_SET_LOOP = ("  updates = {}\n  offset = 0\n  for i in range(mujoco.mjtState.mjNSTATE.value):\n    element = mujoco.mjtState(1 << i)\n"
             "    if element & spec_int:\n      if element not in _STATE_MAP:\n"
             "        raise ValueError(f'Invalid state element {element}')\n      name = _STATE_MAP[element]\n"
             "      size = _state_elem_size(m, element)\n      value = state[offset : offset + size]\n"
             "      if name == 'time':\n        value = value[0]\n      else:\n        orig_shape = getattr(d, name).shape\n"
             "        value = value.reshape(orig_shape)\n      if element == mujoco.mjtState.mjSTATE_EQ_ACTIVE:\n"
             "        value = value.astype(bool)\n      updates[name] = value\n      offset += size\n\n  return d.replace(**updates)\n")
_SIZE_LOOP = ("  size = 0\n  spec_int = int(spec)\n  for i in range(mujoco.mjtState.mjNSTATE.value):\n"
              "    element = mujoco.mjtState(1 << i)\n    if element & spec_int:\n"
              "      size += _state_elem_size(m, element)\n  return size\n")
_SELECT_HELPER = ("def _selected(spec_int):\n  for i in range(mujoco.mjtState.mjNSTATE.value):\n"
                  "    element = mujoco.mjtState(1 << i)\n    if element & spec_int:\n      yield element\n\n\n")
_SIZE_BODY_OLD_HEAD = "  if name == 'time':\n    return 1\n  if name in (\n"
_ZEROS_PUBLIC = ("  zero_fields = {\n      k: np.zeros(v[:-1], dtype=v[-1]) for k, v in zero_fields.items()\n  }\n"
                 "  return zero_fields\n")
_ZEROS_IMPL = ("  zero_impl_fields = {\n      k: np.zeros(v[:-1], dtype=v[-1]) for k, v in zero_impl_fields.items()\n  }\n")
_COPY_IMPL = "  data_jax = types.DataJAX(**{k: copy.copy(v) for k, v in impl_fields.items()})\n"
MUTANTS = [
    # R-STATE-MAP: an element is bound to another Data field / to none
    {"id": "map-wrong-field", "expect": ("R-STATE-MAP", "mjSTATE_WARMSTART"),
     "edits": [(IO, "    mujoco.mjtState.mjSTATE_WARMSTART: 'qacc_warmstart',", "    mujoco.mjtState.mjSTATE_WARMSTART: 'qacc',")]},
    {"id": "map-swapped-mocap", "expect": ("R-STATE-MAP", "mjSTATE_MOCAP_POS"),
     "edits": [(IO, "    mujoco.mjtState.mjSTATE_MOCAP_POS: 'mocap_pos',\n    mujoco.mjtState.mjSTATE_MOCAP_QUAT: 'mocap_quat',",
                "    mujoco.mjtState.mjSTATE_MOCAP_POS: 'mocap_quat',\n    mujoco.mjtState.mjSTATE_MOCAP_QUAT: 'mocap_pos',")]},
    {"id": "map-missing-element", "expect": ("R-STATE-MAP", "mjSTATE_PLUGIN"),
     "edits": [(IO, "    mujoco.mjtState.mjSTATE_PLUGIN: 'plugin_state',\n", "")]},
    {"id": "map-composite-key", "expect": ("R-STATE-MAP", "mjSTATE_PHYSICS"),
     "edits": [(IO, "    mujoco.mjtState.mjSTATE_PLUGIN: 'plugin_state',\n",
                "    mujoco.mjtState.mjSTATE_PLUGIN: 'plugin_state',\n    mujoco.mjtState.mjSTATE_PHYSICS: 'qpos',\n")]},
    {"id": "set-writes-other-field", "expect": ("R-STATE-MAP", "mjSTATE_CTRL"),
     "edits": [(IO, "      updates[name] = value\n", "      updates['act' if name == 'ctrl' else name] = value\n")]},
    # R-STATE-SIZE: wrong factor / wrong count
    {"id": "size-wrong-factor", "expect": ("R-STATE-SIZE", "mjSTATE_MOCAP_QUAT"),
     "edits": [(IO, "    if name == 'mocap_quat':\n      val *= 4", "    if name == 'mocap_quat':\n      val *= 3")]},
    {"id": "size-wrong-count", "expect": ("R-STATE-SIZE", "mjSTATE_WARMSTART"),
     "edits": [(IO, "            'qacc_warmstart': 'nv',", "            'qacc_warmstart': 'nq',")]},
    {"id": "size-xfrc-per-body-3", "expect": ("R-STATE-SIZE", "mjSTATE_XFRC_APPLIED"),
     "edits": [(IO, "    return 6 * m.nbody", "    return 3 * m.nbody")]},
    {"id": "set-slice-too-short", "expect": ("R-STATE-SIZE", "mjSTATE_QVEL"),
     "edits": [(IO, "      value = state[offset : offset + size]", "      value = state[offset : offset + size - (name == 'qvel')]")]},
    # R-STATE-ORDER: order / selection / conversion / range check
    {"id": "set-reversed-order", "expect": ("R-STATE-ORDER", "set_state:order"),
     "edits": [(IO, "  updates = {}\n  offset = 0\n  for i in range(mujoco.mjtState.mjNSTATE.value):",
                "  updates = {}\n  offset = 0\n  for i in reversed(range(mujoco.mjtState.mjNSTATE.value)):")]},
    {"id": "get-prepends", "expect": ("R-STATE-ORDER", "get_state:order"),
     "edits": [(IO, "      state.append(value.flatten())", "      state.insert(0, value.flatten())")]},
    {"id": "set-offset-not-advanced-for-time", "expect": ("R-STATE-ORDER", "set_state:order"),
     "edits": [(IO, "      updates[name] = value\n      offset += size", "      updates[name] = value\n      if name != 'time':\n        offset += size")]},
    {"id": "size-ignores-mask-for-time", "expect": ("R-STATE-SIZE", "mjSTATE_QPOS"),
     "edits": [(IO, "    if element & spec_int:\n      size += _state_elem_size(m, element)",
                "    if element & spec_int or i == 0:\n      size += _state_elem_size(m, element)")]},
    {"id": "get-mask-off-by-one", "expect": ("R-STATE-ORDER", "get_state:order"),
     "edits": [(IO, "  state = []\n  for i in range(mujoco.mjtState.mjNSTATE.value):\n    element = mujoco.mjtState(1 << i)\n    if element & spec_int:",
                "  state = []\n  for i in range(mujoco.mjtState.mjNSTATE.value):\n    element = mujoco.mjtState(1 << i)\n    if element & spec_int and not (i == 3 and spec_int & 4):")]},
    {"id": "set-drops-bool-conversion", "expect": ("R-STATE-ORDER", "set_state:convert:mjSTATE_EQ_ACTIVE"),
     "edits": [(IO, "      if element == mujoco.mjtState.mjSTATE_EQ_ACTIVE:\n        value = value.astype(bool)\n", "")]},
    {"id": "get-drops-range-check", "expect": ("R-STATE-ORDER", "get_state:bound"),
     "edits": [(IO, "  spec_int = int(spec)\n  if spec_int >= (1 << mujoco.mjtState.mjNSTATE.value):\n    raise ValueError(f'Invalid state spec {spec}')\n\n  state = []",
                "  spec_int = int(spec)\n\n  state = []")]},
    # R-MAKEDATA: field set and shapes
    {"id": "makedata-drops-field", "expect": ("R-MAKEDATA", "make_data:Data.qfrc_fluid"),
     "edits": [(IO, "      'qfrc_fluid': (m.nv, float_),\n", "")]},
    {"id": "makedata-drops-impl-field", "expect": ("R-MAKEDATA", "make_data:DataJAX.cfrc_ext"),
     "edits": [(IO, "      'cfrc_ext': (m.nbody, 6, float_),\n", "")]},
    {"id": "makedata-wrong-width", "expect": ("R-MAKEDATA", "shape:cvel"),
     "edits": [(IO, "      'cvel': (m.nbody, 6, float_),", "      'cvel': (m.nbody, 3, float_),")]},
    {"id": "makedata-wrong-leading-dim", "expect": ("R-MAKEDATA", "shape:xanchor"),
     "edits": [(IO, "      'xanchor': (m.njnt, 3, float_),", "      'xanchor': (m.nbody, 3, float_),")]},
    {"id": "makedata-field-twice", "expect": ("R-MAKEDATA", "make_data:Data.qvel"),
     "edits": [(IO, "      eq_active=m.eq_active0,\n      _impl=impl,", "      eq_active=m.eq_active0,\n      qvel=np.zeros((m.nv,), dtype=float_),\n      _impl=impl,")]},
    # R-HOSTCOPY / R-STATIC-HASH
    {"id": "put-data-no-copy", "expect": ("R-HOSTCOPY", "_put_data_jax:types.DataJAX"),
     "edits": [(IO, _COPY_IMPL, "  data_jax = types.DataJAX(**impl_fields)\n")]},
    {"id": "static-meta-memoised-on-instance", "expect": ("R-STATIC-HASH", "wrapper-built-on-every-flatten"),
     "edits": [(DC, "      meta = tuple(to_meta(f, x) for f in meta_fields)\n      return data, meta",
                "      meta = x.__dict__.get('_static_meta')\n      if meta is None:\n        meta = tuple(to_meta(f, x) for f in meta_fields)\n"
                "        object.__setattr__(x, '_static_meta', meta)\n      return data, meta")]},
    {"id": "ctl-static-meta-list-then-tuple", "expect": None,
     "edits": [(DC, "      meta = tuple(to_meta(f, x) for f in meta_fields)\n      return data, meta",
                "      metas = [to_meta(f, x) for f in meta_fields]\n      meta = tuple(metas)\n      return data, meta")]},
    {"id": "static-digest-memoised", "expect": ("R-STATIC-HASH", "content-digest"),
     "edits": [(DC, "_T = TypeVar('_T')\n", "_T = TypeVar('_T')\n_DIGESTS = {}\n"),
               (DC, "  def __init__(self, arr: np.ndarray):\n    if arr.size == 0:",
                "  def __init__(self, arr: np.ndarray):\n    if id(arr) in _DIGESTS:\n      self._hash_key = _DIGESTS[id(arr)]\n"
                "      self.array = arr\n      return\n    if arr.size == 0:")]},
    # controls: behaviour-preserving shapes
    {"id": "ctl-field-name-helper", "expect": None,
     "edits": [(IO, "def _state_elem_size(m: types.Model, state_enum: mujoco.mjtState) -> int:",
                "def _field_of(element):\n  if element not in _STATE_MAP:\n    raise ValueError(f'Invalid state element {element}')\n"
                "  return _STATE_MAP[element]\n\n\ndef _state_elem_size(m: types.Model, state_enum: mujoco.mjtState) -> int:"),
               (IO, "      if element not in _STATE_MAP:\n        raise ValueError(f'Invalid state element {element}')\n"
                    "      name = _STATE_MAP[element]\n", "      name = _field_of(element)\n", 2)]},
    {"id": "ctl-generator-and-sum", "expect": None,
     "edits": [(IO, "def state_size(m: types.Model, spec: Union[int, mujoco.mjtState]) -> int:",
                _SELECT_HELPER + "def state_size(m: types.Model, spec: Union[int, mujoco.mjtState]) -> int:"),
               (IO, _SIZE_LOOP, "  return sum(_state_elem_size(m, e) for e in _selected(int(spec)))\n"),
               (IO, _GET_LOOP, "  state = []\n  for element in _selected(spec_int):\n    value = getattr(d, _STATE_MAP[element])\n"
                "    if element == mujoco.mjtState.mjSTATE_EQ_ACTIVE:\n      value = value.astype(jp.float32)\n"
                "    state.append(value.flatten())\n")]},
    {"id": "ctl-size-table", "expect": None,
     "edits": [(IO, "def _state_elem_size(m: types.Model, state_enum: mujoco.mjtState) -> int:",
                "_ELEM_DIMS = {'qpos': ('nq', 1), 'qvel': ('nv', 1), 'act': ('na', 1), 'history': ('nhistory', 1),\n"
                "              'qacc_warmstart': ('nv', 1), 'ctrl': ('nu', 1), 'qfrc_applied': ('nv', 1),\n"
                "              'xfrc_applied': ('nbody', 6), 'eq_active': ('neq', 1), 'mocap_pos': ('nmocap', 3),\n"
                "              'mocap_quat': ('nmocap', 4), 'userdata': ('nuserdata', 1),\n"
                "              'plugin_state': ('npluginstate', 1)}\n\n\n"
                "def _state_elem_size(m: types.Model, state_enum: mujoco.mjtState) -> int:"),
               (IO, _SIZE_BODY_OLD_HEAD, "  if name == 'time':\n    return 1\n  if name in _ELEM_DIMS:\n    count_attr, width = _ELEM_DIMS[name]\n"
                "    return getattr(m, count_attr) * width if width != 1 else getattr(m, count_attr)\n  if name in (\n")]},
    {"id": "ctl-get-while-loop", "expect": None,
     "edits": [(IO, _GET_LOOP, "  state = []\n  i = 0\n  while i < mujoco.mjtState.mjNSTATE.value:\n    element = mujoco.mjtState(1 << i)\n    i += 1\n"
                "    if not element & spec_int:\n      continue\n    value = getattr(d, _STATE_MAP[element])\n"
                "    pieces = [value.astype(jp.float32) if element == mujoco.mjtState.mjSTATE_EQ_ACTIVE else value]\n"
                "    state += [p.flatten() for p in pieces]\n")]},
    {"id": "ctl-set-cursor-end", "expect": None,
     "edits": [(IO, "      value = state[offset : offset + size]\n", "      end = offset + size\n      value = state[offset:end]\n"),
               (IO, "      updates[name] = value\n      offset += size", "      updates.update({name: value})\n      offset = end")]},
    {"id": "ctl-zeros-helper", "expect": None,
     "edits": [(IO, "def _make_data_public_fields(m: types.Model) -> Dict[str, Any]:",
                "def _alloc(specs):\n  return {k: np.zeros(v[:-1], dtype=v[-1]) for k, v in specs.items()}\n\n\n"
                "def _make_data_public_fields(m: types.Model) -> Dict[str, Any]:"),
               (IO, _ZEROS_PUBLIC, "  return _alloc(zero_fields)\n"),
               (IO, _ZEROS_IMPL, ""),
               (IO, "      efc_type=efc_type,\n      **zero_impl_fields,\n  )", "      efc_type=efc_type,\n      **_alloc(zero_impl_fields),\n  )")]},
    {"id": "ctl-field-as-keyword", "expect": None,
     "edits": [(IO, "      'ten_length': (m.ntendon, float_),\n  }\n  zero_fields = {", "  }\n  zero_fields = {"),
               (IO, "      eq_active=m.eq_active0,\n      _impl=impl,", "      eq_active=m.eq_active0,\n      ten_length=np.zeros(m.ntendon, dtype=float_),\n      _impl=impl,")]},
    {"id": "ctl-lookup-try-except", "expect": None,
     "edits": [(IO, "      if element not in _STATE_MAP:\n        raise ValueError(f'Invalid state element {element}')\n"
                    "      name = _STATE_MAP[element]\n      value = getattr(d, name)",
                "      try:\n        name = _STATE_MAP[element]\n      except KeyError:\n"
                "        raise ValueError(f'Invalid state element {element}') from None\n      value = getattr(d, name)")]},
    {"id": "ctl-set-two-pass", "expect": None,
     "edits": [(IO, "import copy\n", "import copy\nimport dataclasses\n"),
               (IO, _SET_LOOP,
                "  selected = [e for e in (mujoco.mjtState(1 << i) for i in range(mujoco.mjtState.mjNSTATE.value)) if e & spec_int]\n"
                "  sizes = [_state_elem_size(m, e) for e in selected]\n"
                "  ends = [sum(sizes[: k + 1]) for k in range(len(sizes))]\n"
                "  def _piece(e, lo, hi):\n    name = _STATE_MAP[e]\n    v = state[lo:hi]\n"
                "    v = v[0] if name == 'time' else v.reshape(getattr(d, name).shape)\n"
                "    return name, (v.astype(bool) if e == mujoco.mjtState.mjSTATE_EQ_ACTIVE else v)\n"
                "  updates = dict(_piece(e, hi - n, hi) for e, n, hi in zip(selected, sizes, ends))\n"
                "  return dataclasses.replace(d, **updates)\n")]},
    {"id": "ctl-zeros-built-in-loop", "expect": None,
     "edits": [(IO, _ZEROS_PUBLIC, "  out = {}\n  for name, spec in zero_fields.items():\n    *shape, dtype = spec\n"
                "    out[name] = np.zeros(tuple(shape), dtype=dtype)\n  return out\n")]},
    {"id": "ctl-copy-into-named-dict", "expect": None,
     "edits": [(IO, _COPY_IMPL, "  impl_copies = {k: copy.copy(v) for k, v in impl_fields.items()}\n  data_jax = types.DataJAX(**impl_copies)\n")]},
]


# the parts of the tree the check reads: MJX sources, engine sources + headers, the build flags (cmake) the C front end
# is configured from, and the binding source that names the non-member attributes of the wrapper classes
SELFTEST_PARTS = ("mjx/mujoco", "src", "include", "cmake", "CMakeLists.txt", "python/mujoco")


def selftest(res):
    from .. import r_misc
    r_misc.run_mutants("C44", res, MUTANTS, parts=SELFTEST_PARTS)


def run(res, tier):
    repo = os.path.abspath(REPO)
    H = cheaders.load(repo)
    sources = c43.load_sources(repo)
    classes = c43.types_classes(sources["types.py"])
    check_state(res, H, sources, classes, repo)
    res.rule("R-FIELDS", "every types.Data/Model/Contact field copied by name from the C object in io.py is a member of "
             "mjData/mjModel/mjContact (or derived in the same function when the copy is tolerant)", floor=900)
    _, n_copy, foreign = c43.check_attrs(res, H, sources, classes, copy_structs=("mjData", "mjModel", "mjContact"),
                                         rule="R-FIELDS", explicit=False)
    check_make_data(res, H, sources, classes, repo)
    check_host_copy(res, sources)
    check_static_hash(res, sources)
    res.count("state_elements", len(res.extra.get("c_state_table", {})))
    res.count("copied_fields", n_copy)
    res.extra["copy_loops_over_foreign_classes_not_decided"] = foreign
    res.trusted = ["clang 14 parser/type checker/preprocessor", "CPython ast module (parsing only)"]
    res.explanation = (
        "Structural agreement of MJX's state API and data transfer with C.  The Python side is run in a partial evaluator "
        "(concrete signature, symbolic model/data/state vector; helpers, generators, tables, comprehensions and sum() are "
        "executed, calls into other modules stay opaque terms): for every single-bit element the field get_state reads / "
        "set_state replaces and the sizes state_size returns / set_state consumes are compared with the tables of "
        "mj_stateElemPtr / mj_stateElemSize (clang IR, plus the special cases of mj_getState/mj_setState); for a family of "
        "composite signatures the selection under `element & spec`, the concatenation order of get_state and the slice "
        "offsets of set_state are compared with the ascending-bit layout of the C loops; elements C stores with a "
        "non-mjtNum type must be converted both ways and out-of-range signatures rejected; every Data/Model/Contact field "
        "that io.py copies by name is a C struct member; the JAX make_data path, run with a symbolic model, constructs "
        "exactly the field set of types.Data/DataJAX with C's array extents for the zero-initialised public fields.")
    res.not_decided = ("jax.jit/jax.vmap transparency, numerical put/get round trips and dtype handling (need execution); "
                       "get_data_into's per-field conversions; Warp/C++ back ends; shapes of the JAX-private (DataJAX) "
                       "fields, whose representation deliberately differs from C (dense matrices).  The evaluator covers a "
                       "Python subset: a state API that builds its result other than by one call over the sequence of "
                       "pieces (get_state) / one d.replace(**updates) with slices of the state vector (set_state), stores "
                       "into symbolic arrays, or loops over symbolic iterables are reported as ANALYSIS-ERROR, not as a "
                       "violation; validation branches (`if <undecidable>: raise`) are assumed not taken.")
    res.assumptions = ["dataclass semantics of PyTreeNode: fields() are the annotated class attributes incl. local bases",
                       "the Python bindings expose C struct members under their C names",
                       "mujoco.mjt* enums behave like IntEnum; int() of a symbolic model size is that size",
                       "helper generators are pure (evaluated eagerly); calls into other modules have no effect on "
                       "Python-level containers of io.py"]
