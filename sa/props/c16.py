"""C16 Ray casting returns the nearest intersection.

Decided on src/engine/engine_ray.c (clang AST, nothing is run).  The tracked best distance of a function is the local it
returns; an *update site* is an assignment `best = cand` under a condition that mentions `best`.

  R-FINITE     at every update site (mj_ray, mju_singleRay, the capsule / cylinder / box primitives, mj_rayHfield, mju_rayTree,
               mj_rayFlex, mju_raySkin: 16 sites) the ordering part of the path condition - the conjuncts over {cand, best, literals}
               of the enclosing ifs, up to the statement that computes cand - equals, over every order type of {cand, best, 0}
               including cand = NaN and the -1 sentinel,       update  <=>  cand >= 0 && (best < 0 || cand < best);
               other conjuncts (geometric acceptance tests) are free.  `<` -> `<=`, a dropped `cand >= 0`, a dropped sentinel test
               change the table; `!(cand >= best)`-style rewrites do not.
  R-PAIRWRITE  all update sites of a function write the same companion outputs (geom id, vertex id, normal, face/type tags) in the
               block that updates the distance (null-guarded writes count), and an id output (int* parameter) is written nowhere
               else except its -1 initialisation
  R-INIT       mj_ray / mju_singleRay: on every path into the geom loop the distance is -1 and *geomid is -1 (or geomid is NULL);
               every return returns the tracked distance; the other functions initialise the tracked distance by -1 or by the
               result of another ray routine before the first update site
  R-SIBLING    mj_ray and mju_singleRay send every mjtGeom enumerator below mjNGEOMTYPES to the same routine with the same
               arguments (constant-folded if-chains); types routed to mju_rayGeom reach a primitive in its switch and the default
               returns -1; dispatch happens only after the elimination test for the same geom (ray_eliminate(...) resp. the
               flag array filled by mju_multiRayPrepare from ray_eliminate); mj_ray and mj_multiRay bind ray_eliminate's filter
               parameters (geomgroup, flg_static, bodyexclude) to their own parameters of the same name
  R-MUSTWRITE  mj_multiRay: the ray loop covers [0, nray) and every path of an iteration writes dist[i] and geomid[i] (directly or
               through mju_singleRay, which initialises *geomid on every path)
Instances confirmed by hand on the pinned tree: 16 update sites (mj_ray 1, mju_singleRay 1, ray_capsule 3, ray_cylinder 2, ray_box 1,
mj_rayHfield 3, mju_rayTree 1, mj_rayFlex 3, mju_raySkin 1); 9 functions with sites; 9 geom types.
Not decided: analytic intersection distances; soundness of the bounding-sphere / bounding-angle pruning of mju_singleRay.
"""
from __future__ import annotations

import re

from .. import cir, ctypeinfo, engine, finite, paths, specialise
from ..cfront import AnalysisError
from . import c14 as _c14

RAY = "src/engine/engine_ray.c"
ANCHORS = ("mj_ray", "mj_multiRay", "mju_rayGeom", "mj_rayMesh", "mj_rayHfield")
NAN = finite.NAN
B_DOM = (-1.0, 0.0, 1.0, 2.0)
C_DOM = (-2.0, -1.0, -0.5, 0.0, 0.5, 1.0, 1.5, 2.0, 3.0, NAN)


def reference(b, c):
    return c >= 0 and (b < 0 or c < b)


# ------------------------------------------------------------------------------------------------------------ update sites

def tracked_vars(fn):
    """decl id -> name of float locals returned by the function."""
    out = {}
    for r in cir.walk(fn):
        if r.get("k") == "ReturnStmt":
            e = [x for x in cir.kids(r) if x is not None]
            s = cir.strip(e[0]) if e else None
            if s is not None and s.get("k") == "DeclRefExpr" and (s.get("ref") or {}).get("k") == "VarDecl" and \
                    finite.is_float_type(s.get("t")):
                out[s["ref"].get("id")] = s["ref"].get("n")
    return out


def assignments_to(node, var_id):
    out = []
    for x in cir.walk(node):
        if x.get("k") == "BinaryOperator" and x.get("op") == "=" or x.get("k") == "CompoundAssignOperator":
            t = cir.strip(cir.kids(x)[0])
            if t is not None and t.get("k") == "DeclRefExpr" and (t.get("ref") or {}).get("id") == var_id:
                out.append(x)
        elif x.get("k") == "VarDecl" and x.get("id") == var_id and x.get("init"):
            out.append(x)
    return out


def assigned_ids(node):
    out = {}
    for x in cir.walk(node):
        k = x.get("k")
        if (k == "BinaryOperator" and x.get("op") == "=") or k == "CompoundAssignOperator" or \
                (k == "UnaryOperator" and x.get("op") in ("++", "--")):
            t = cir.strip(cir.kids(x)[0])
            if t is not None and t.get("k") == "DeclRefExpr":
                out.setdefault((t.get("ref") or {}).get("id"), []).append(x)
        elif k == "VarDecl" and x.get("init"):
            out.setdefault(x.get("id"), []).append(x)
    return out


def update_sites(fn):
    """[(var id, var name, assignment, [enclosing (cond, polarity)], update block)]"""
    par = finite.parents(fn)
    out = []
    for vid, vname in tracked_vars(fn).items():
        for a in assignments_to(fn, vid):
            if a.get("k") != "BinaryOperator":
                continue
            cand = cir.kids(a)[1]
            cand_ids = {r.get("id") for r in finite.refs(cand)}
            watch = cand_ids | {vid}
            conds = []
            block = par.get(id(a))
            y = a
            mentions = False
            while id(y) in par:
                p = par[id(y)]
                k = p.get("k")
                if k == "IfStmt":
                    c, t, e = finite.if_parts(p)
                    if y is c:
                        break
                    region = t if finite.contains(t, a) else e
                    others = [n for i, ns in assigned_ids(region).items() if i in watch for n in ns if n is not a]
                    if others:
                        break
                    conds.append((c, region is t))
                    if vid in {r.get("id") for r in finite.refs(c)}:
                        mentions = True
                elif k not in ("CompoundStmt",):
                    break
                y = p
            if mentions:
                out.append((vid, vname, a, conds, block))
    return out


def ordering_table(unit, conds, vname, cand_text):
    """truth table of the ordering conjuncts of a path condition; returns (table, ordering texts, free texts)."""
    atoms = []
    for c, pol in conds:
        if pol:
            atoms += [(x, True) for x in finite.conjuncts(c)]
        else:
            atoms.append((c, False))
    ordering, free = [], []
    for x, pol in atoms:
        try:
            finite.eval_expr(unit, x, terms={cand_text: 1.0, vname: 0.0})
            ordering.append((x, pol))
        except (finite.Unsupported, finite.NeedKey):
            free.append(cir.text(x))
    table = {}
    for b in B_DOM:
        for c in C_DOM:
            v = True
            for x, pol in ordering:
                r = bool(finite.eval_expr(unit, x, terms={cand_text: c, vname: b}))
                if r != pol:
                    v = False
                    break
            table[(b, c)] = v
    return table, [cir.text(x) for x, _p in ordering], free


def check_sites(res, unit):
    all_sites = {}
    for fname, fn in unit.funcs.items():
        sites = update_sites(fn)
        if sites:
            all_sites[fname] = (fn, sites)
    if "mj_ray" not in all_sites:
        raise AnalysisError("mj_ray: nearest-hit update site not found")
    for fname, (fn, sites) in sorted(all_sites.items()):
        for i, (vid, vname, a, conds, block) in enumerate(sorted(sites, key=lambda s: s[2].get("line") or 0)):
            construct = f"{fname}:update" + (f"#{i + 1}" if len(sites) > 1 else "")
            cand_text = cir.text(cir.strip(cir.kids(a)[1]))
            table, ordering, free = ordering_table(unit, conds, vname, cand_text)
            wrong = [(b, c) for (b, c), v in table.items() if v != reference(b, c)]
            if wrong:
                b, c = wrong[0]
                res.bad("R-FINITE", construct, RAY, a.get("line"),
                        f"`{cir.text(a)}` under `{' && '.join(ordering) or '(no ordering test)'}`: with {vname}={'NaN' if b != b else b}, "
                        f"{cand_text}={'NaN' if c != c else c} the distance is {'updated' if table[(b, c)] else 'kept'}; the nearest hit "
                        f"requires update <=> {cand_text} >= 0 && ({vname} < 0 || {cand_text} < {vname}) ({len(wrong)} of {len(table)} "
                        f"order types differ)")
            else:
                res.ok("R-FINITE", construct, {"ordering": ordering, "free": free[:3], "rows": len(table)})
    return all_sites


# ------------------------------------------------------------------------------------------------------------ pair writes

def written_in(node, declared_inside):
    """outer variables written inside a statement: name -> kind ('scalar' | 'mem')."""
    out = {}
    for x in cir.walk(node):
        k = x.get("k")
        if (k == "BinaryOperator" and x.get("op") == "=") or k == "CompoundAssignOperator":
            t = cir.strip(cir.kids(x)[0])
            if t is None:
                continue
            if t.get("k") == "DeclRefExpr":
                r = t.get("ref") or {}
                if r.get("id") not in declared_inside:
                    out[r.get("n")] = "scalar"
            elif t.get("k") == "ArraySubscriptExpr" or (t.get("k") == "UnaryOperator" and t.get("op") == "*"):
                b = cir.strip(cir.kids(t)[0])
                if b is not None and b.get("k") == "DeclRefExpr" and (b.get("ref") or {}).get("id") not in declared_inside:
                    out[b["ref"].get("n")] = "mem"
        elif cir.is_call(x):
            a = cir.args(x)
            if a:
                b = cir.strip(a[0])
                if b is not None and b.get("k") == "DeclRefExpr" and (b.get("ref") or {}).get("k") in ("VarDecl", "ParmVarDecl") \
                        and finite.is_pointer_type(b.get("t")) and "const" not in (b.get("t") or "").split("*")[0] \
                        and (b.get("ref") or {}).get("id") not in declared_inside and first_param_mutable(x):
                    out[b["ref"].get("n")] = "mem"
    return out


def first_param_mutable(call):
    """the callee's first parameter is a pointer to non-const (the callee may write through it)."""
    ce = cir.callee_expr(call)
    t = (ce.get("t") if ce is not None else None) or ((ce.get("ref") or {}).get("t") if ce is not None else None) or ""
    m = re.search(r"\(([^,)]*)", t[t.find("("):]) if "(" in t else None
    if not m:
        return True
    first = m.group(1)
    return "*" in first and "const" not in first.split("*")[0]


def is_param_null_guard(cond):
    c = cir.strip(cond)
    return c is not None and c.get("k") == "DeclRefExpr" and (c.get("ref") or {}).get("k") == "ParmVarDecl" and \
        finite.is_pointer_type(c.get("t"))


def writes_all_paths(st, name):
    """the statement writes `name` on every path (a null guard on the written pointer itself counts)."""
    if st is None:
        return False
    k = st.get("k")
    if k == "CompoundStmt":
        return any(writes_all_paths(c, name) for c in cir.kids(st) if c is not None)
    if k == "IfStmt":
        c, t, e = finite.if_parts(st)
        if is_param_null_guard(c):        # `if (normal) ...`: an output the caller did not ask for
            return writes_all_paths(t, name)
        return e is not None and writes_all_paths(t, name) and writes_all_paths(e, name)
    if k in ("ForStmt", "WhileStmt", "DoStmt"):
        return False
    return name in written_in(st, set())


def check_pairwrite(res, unit, all_sites, required):
    for fname, (fn, sites) in sorted(all_sites.items()):
        blocks = []
        for vid, vname, a, conds, block in sorted(sites, key=lambda s: s[2].get("line") or 0):
            inside = {x.get("id") for x in cir.walk(block) if x.get("k") == "VarDecl"}
            w = written_in(block, inside)
            w.pop(vname, None)
            blocks.append((a, block, w))
        comp = set(required.get(fname, ()))
        for _a, _b, w in blocks:
            comp |= set(w)
        construct = f"{fname}:companions"
        probs = []
        for a, block, w in blocks:
            for c in sorted(comp):
                if not writes_all_paths(block, c):
                    probs.append((a, f"`{cir.text(a)}` updates the distance but not `{c}` on the same path ("
                                     + ("an output initialised before the loop" if c in required.get(fname, ()) else
                                        f"other update sites of {fname} write it together with the distance") + ")"))
        if probs:
            res.bad("R-PAIRWRITE", construct, RAY, probs[0][0].get("line"), probs[0][1])
        else:
            res.ok("R-PAIRWRITE", construct, {"outputs": sorted(comp), "sites": len(blocks)})
        # id outputs: int* parameters among the companions are written only here or by the -1 initialisation
        for p in cir.params(fn):
            if p.get("n") not in comp or not finite.is_pointer_type(p.get("t")) or finite.base_type(p.get("t")).split()[0] != "int":
                continue
            construct = f"{fname}:{p.get('n')}-writers"
            stray = []
            for x in cir.walk(fn):
                if x.get("k") == "BinaryOperator" and x.get("op") == "=":
                    t = cir.strip(cir.kids(x)[0])
                    if t is not None and t.get("k") in ("UnaryOperator", "ArraySubscriptExpr") and \
                            cir.text(cir.strip(cir.kids(t)[0])) == p.get("n"):
                        if any(finite.contains(b, x) for _a, b, _w in blocks):
                            continue
                        if cir.text(cir.kids(x)[1]) == "-1" and not _c14.enclosing_loops(fn, x):
                            continue
                        stray.append(x)
            if stray:
                res.bad("R-PAIRWRITE", construct, RAY, stray[0].get("line"),
                        f"`{cir.text(stray[0])}` writes the id output outside a distance update (and it is not the -1 initialisation): the "
                        f"returned id can disagree with the returned distance")
            else:
                res.ok("R-PAIRWRITE", construct, None)


# ------------------------------------------------------------------------------------------------------------ initialisation

class InitRule(paths.Rule):
    def __init__(self, vname, gname, loops):
        self.v, self.g, self.loops = vname, gname, loops

    def initial(self, fn):
        return frozenset()

    def assign(self, st, node, ctx):
        if node.get("k") == "BinaryOperator" and node.get("op") == "=":
            lhs = cir.strip(cir.kids(node)[0])
            rhs = cir.text(cir.kids(node)[1])
            lt = cir.text(lhs)
            if lt == self.v:
                return (st | {"dist"}) if rhs == "-1" else (st - {"dist"})
            if self.g and lhs.get("k") in ("UnaryOperator", "ArraySubscriptExpr") and cir.text(cir.strip(cir.kids(lhs)[0])) == self.g:
                return (st | {"id"}) if rhs == "-1" else (st - {"id"})
        elif node.get("k") == "VarDecl" and node.get("n") == self.v:
            init = [c for c in cir.kids(node) if c is not None]
            return (st | {"dist"}) if init and cir.text(init[-1]) == "-1" else st
        return st

    def branch(self, st, cond, taken, ctx):
        if self.g and cir.text(cond) == self.g and not taken:
            return st | {"id"}
        return st

    def loop_enter(self, st, node, ctx):
        if any(node is l for l in self.loops):
            ctx.at_loop.append(st)
        return st

    def ret(self, st, node, ctx):
        e = [x for x in cir.kids(node) if x is not None]
        ctx.rets.append((cir.text(e[0]) if e else "", node))


def check_init(res, unit, all_sites, main_fns):
    for fname, (fn, sites) in sorted(all_sites.items()):
        vid, vname = sites[0][0], sites[0][1]
        first = min(sites, key=lambda s: s[2].get("line") or 0)[2]
        construct = f"{fname}:init"
        if fname in main_fns:
            gname = main_fns[fname]
            loops = []
            for s in sites:
                ls = _c14.enclosing_loops(fn, s[2])
                if ls:
                    loops.append(ls[-1])
            ex = paths.Explorer(InitRule(vname, gname, loops), unit, fn)
            ex.ctx.at_loop, ex.ctx.rets = [], []
            ex.run()
            if not ex.ctx.at_loop:
                raise AnalysisError(f"{fname}: geom loop not reached")
            missing = set()
            for st in ex.ctx.at_loop:
                missing |= {"dist", "id"} - st
            badret = [(t, n) for t, n in ex.ctx.rets if t != vname]
            if missing:
                what = {"dist": f"{vname} = -1", "id": f"*{gname} = -1"}
                res.bad("R-INIT", construct, RAY, loops[0].get("line"),
                        f"a path enters the geom loop without {', '.join(what[m] for m in sorted(missing))}: with no hit the function "
                        f"does not return -1 / geom id -1")
            elif badret:
                res.bad("R-INIT", construct, RAY, badret[0][1].get("line"),
                        f"`return {badret[0][0]}` does not return the tracked distance {vname}")
            else:
                res.ok("R-INIT", construct, {"returns": len(ex.ctx.rets)})
            continue
        # other functions: the tracked distance starts at -1 or at the result of another ray routine
        inits = [a for a in assignments_to(fn, vid) if not any(a is s[2] for s in sites)]
        okinit = []
        for a in inits:
            rhs = ([c for c in cir.kids(a) if c is not None][-1]) if a.get("k") == "VarDecl" else cir.kids(a)[1]
            s = cir.strip(rhs)
            if cir.text(s) == "-1" or (cir.is_call(s) and finite.is_float_type(s.get("t"))):
                okinit.append(a)
        before = [a for a in okinit if (a.get("line") or 0) <= (first.get("line") or 0)] if first.get("line") else okinit
        if not okinit or len(okinit) != len(inits):
            res.bad("R-INIT", construct, RAY, fn.get("line"),
                    f"{vname} is not initialised by -1 or by the result of a ray routine before its first update "
                    f"({[cir.text(a)[:60] for a in inits]})")
        else:
            res.ok("R-INIT", construct, {"init": [cir.text(a)[:60] for a in okinit]})


# ------------------------------------------------------------------------------------------------------------ dispatch

def geom_index_var(fn):
    """the variable that subscripts m->geom_type in the dispatch, and the local holding the type."""
    for x in cir.walk(fn):
        if x.get("k") == "VarDecl" and x.get("init"):
            init = cir.strip([c for c in cir.kids(x) if c is not None][-1])
            if init is not None and init.get("k") == "ArraySubscriptExpr" and cir.text(cir.kids(init)[0]).endswith("->geom_type"):
                i = cir.strip(cir.kids(init)[1])
                if i.get("k") == "DeclRefExpr":
                    return i["ref"].get("n"), x.get("n"), x
    return None, None, None


def dispatch_view(unit, fn, cand_name):
    """fn with the geom-type dispatch visible: if the dispatch lives in a same-TU helper whose result is the candidate
    distance, that helper is analysed in place; `continue`-style guards are nested so that the elimination test encloses
    what it guards."""
    from .. import norm
    if geom_index_var(fn)[0] is None:
        helpers = set()
        for x in cir.walk(fn):
            if x.get("k") == "BinaryOperator" and x.get("op") == "=" and cir.text(cir.kids(x)[0]) == cand_name:
                r = cir.strip(cir.kids(x)[1])
                if cir.is_call(r) and cir.callee(r) in unit.funcs:
                    helpers.add(cir.callee(r))
        if helpers:
            fn = norm.Inliner(unit, depth=2, pred=lambda h: h.get("n") in helpers).expand(fn)
    return norm.nest(fn)


def dispatch_map(unit, fn, cand_name, enumerators):
    idx, tvar, tdecl = geom_index_var(fn)
    if idx is None:
        raise AnalysisError(f"{fn.get('n')}: geom type dispatch (local initialised from m->geom_type[..]) not found")
    par = finite.parents(fn)
    blk = par[id(par[id(tdecl)])]         # compound holding the DeclStmt
    pseudo = {"k": "FunctionDecl", "n": fn.get("n") + "@dispatch", "i": [blk]}
    sp = specialise.Specialiser(unit)
    out = {}
    for name, val in enumerators:
        live = sp.live(pseudo, {tvar: val})
        calls = []
        for kind, st in live:
            for x in cir.walk(st):
                if x.get("k") == "BinaryOperator" and x.get("op") == "=" and cir.text(cir.kids(x)[0]) == cand_name:
                    r = cir.strip(cir.kids(x)[1])
                    if cir.is_call(r):
                        calls.append(r)
        sig = []
        for c in calls:
            args = [re.sub(r"\b%s\b" % re.escape(idx), "$g", cir.text(a)) for a in cir.args(c)]
            args = [re.sub(r"\b%s\b" % re.escape(tvar), "$type", a) for a in args]
            sig.append((cir.callee(c), tuple(args)))
        out[name] = sig
    return out, idx, tvar


class ElimRule(_c14.Facts):
    """the dispatch calls are reached only after the elimination test of the same geom failed"""

    def __init__(self, elim_call, flag_param, dispatch, idx):
        self.elim, self.flag, self.dispatch, self.idx = elim_call, flag_param, dispatch, idx

    def branch(self, st, cond, taken, ctx):
        if taken:
            return st
        if cir.is_call(cond) and cir.callee(cond) == self.elim:
            a = cir.args(cond)
            ctx.elim_calls.append(cond)
            return st | {_c14.fact("elim", cir.text(a[2]) if len(a) > 2 else "?")}
        s = cir.strip(cond)
        if self.flag and s.get("k") == "ArraySubscriptExpr" and cir.text(cir.kids(s)[0]) == self.flag:
            return st | {_c14.fact("elim", cir.text(cir.kids(s)[1]))}
        return st

    def call(self, st, node, name, ctx):
        if name in self.dispatch:
            ctx.sites.append(node)
            if not any(f[0] == "elim" and f[1] == self.idx for f in st):
                ctx.report(node, f"{name} is called for geom {self.idx} on a path where the elimination test for that geom "
                                 f"(group / static / body-exclude / transparency filter) was not passed")
        return st


def find_single(unit, all_sites):
    """the per-ray helper of mj_multiRay: the callee whose result is stored into the distance array."""
    mm = unit.funcs["mj_multiRay"]
    single = None
    for x in cir.walk(mm):
        if x.get("k") == "BinaryOperator" and x.get("op") == "=" and cir.strip(cir.kids(x)[0]).get("k") == "ArraySubscriptExpr":
            r = cir.strip(cir.kids(x)[1])
            if cir.is_call(r) and cir.callee(r) in unit.funcs:
                single = cir.callee(r)
    if single is None or single not in all_sites:
        raise AnalysisError("mj_multiRay: per-ray helper (callee stored into dist[i]) not found")
    return single


def reads_through(fn, pname):
    """the function reads memory through the pointer parameter (it is an input array, not a pure output)."""
    stores = set()
    for x in cir.walk(fn):
        if x.get("k") == "BinaryOperator" and x.get("op") == "=":
            stores.add(id(cir.strip(cir.kids(x)[0])))
    for x in cir.walk(fn):
        if x.get("k") in ("ArraySubscriptExpr", "UnaryOperator") and (x.get("k") != "UnaryOperator" or x.get("op") == "*"):
            b = cir.strip(cir.kids(x)[0])
            if b is not None and b.get("k") == "DeclRefExpr" and (b.get("ref") or {}).get("n") == pname and id(x) not in stores:
                return True
    return False


def required_outputs(fn, sites):
    """output pointer parameters initialised (under their own null guard or directly) before the loop of the update sites."""
    loops = []
    for s in sites:
        ls = _c14.enclosing_loops(fn, s[2])
        if ls:
            loops.append(ls[-1])
    out = []
    ps = {p.get("n"): p for p in cir.params(fn)}
    for st in cir.kids(cir.body(fn)):
        if st is None:
            continue
        if any(st is l for l in loops):
            break
        for name in written_in(st, set()):
            p = ps.get(name)
            if p is not None and finite.is_pointer_type(p.get("t")) and "const" not in (p.get("t") or "") and name not in out:
                out.append(name)
    return out


def check_dispatch(res, unit, all_sites, single):
    enum = [(n, v) for n, v in ctypeinfo.enum_values("mjtGeom")]
    limit = dict(enum).get("mjNGEOMTYPES")
    if limit is None:
        raise AnalysisError("mjNGEOMTYPES not found in mjtGeom")
    real = [(n, v) for n, v in enum if v < limit]
    mr = unit.funcs["mj_ray"]
    # the per-ray helper of mj_multiRay: the callee whose result is stored into the distance array
    mm = unit.funcs["mj_multiRay"]
    sr = unit.funcs[single]
    maps = {}
    views = {}
    for fn in (mr, sr):
        cand = cir.text(cir.strip(cir.kids(all_sites[fn.get("n")][1][0][2])[1]))
        views[fn.get("n")] = dispatch_view(unit, fn, cand)
        maps[fn.get("n")] = dispatch_map(unit, views[fn.get("n")], cand, real)
    mr, sr = views["mj_ray"], views[single]
    m1, idx1, t1 = maps["mj_ray"]
    m2, idx2, t2 = maps[single]
    generic = unit.funcs["mju_rayGeom"]
    gp = [p.get("n") for p in cir.params(generic) if finite.base_type(p.get("t")) == "int"]
    if len(gp) != 1:
        raise AnalysisError("mju_rayGeom: geom type parameter not identified")
    sp = specialise.Specialiser(unit)
    for name, val in real:
        construct = f"dispatch:{name}"
        a, b = m1[name], m2[name]
        if len(a) != 1:
            res.bad("R-SIBLING", construct, RAY, mr.get("line"), f"mj_ray sends {name} to {[c for c, _ in a] or 'no routine'}")
            continue
        if a != b:
            res.bad("R-SIBLING", construct, RAY, sr.get("line"),
                    f"{name}: mj_ray calls {a[0][0]}{a[0][1]} but {single} calls {b[0][0] + str(b[0][1]) if b else 'nothing'}: "
                    f"mj_multiRay would not agree with repeated mj_ray calls")
            continue
        callee = a[0][0]
        prim = callee
        if callee == "mju_rayGeom":
            live = sp.live(generic, {gp[0]: val})
            rets = [st for kind, st in live if st.get("k") == "ReturnStmt"]
            calls = [cir.callee(cir.strip(cir.kids(r)[0])) for r in rets if cir.kids(r) and cir.is_call(cir.strip(cir.kids(r)[0]))]
            fatal = any(paths.is_noreturn_call(c, paths.error_msg_vars(generic)) for kind, st in live for c in cir.calls(st))
            if len(calls) != 1 or fatal:
                res.bad("R-SIBLING", construct, RAY, generic.get("line"),
                        f"{name} is routed to mju_rayGeom, whose switch has no case for it (falls into the error default)")
                continue
            prim = calls[0]
            if "$type" not in a[0][1]:
                res.bad("R-SIBLING", construct, RAY, mr.get("line"), f"{name}: mju_rayGeom is not called with the geom's own type")
                continue
        res.ok("R-SIBLING", construct, {"routine": prim, "via": callee})
    # default of the generic switch returns -1
    construct = "mju_rayGeom:default"
    live = sp.live(generic, {gp[0]: 99999})
    rets = [cir.text(cir.kids(st)[0]) for kind, st in live if st.get("k") == "ReturnStmt" and cir.kids(st)]
    sw = [x for x in cir.walk(generic) if x.get("k") == "SwitchStmt"]
    has_default = any(x.get("k") == "DefaultStmt" for x in cir.walk(generic))
    if not sw or not has_default or rets != ["-1"]:
        res.bad("R-SIBLING", construct, RAY, generic.get("line"),
                f"for a geom type outside its cases mju_rayGeom must return -1 (default); it returns {rets or 'nothing'}")
    else:
        res.ok("R-SIBLING", construct, None)
    # elimination precedes dispatch
    elim = None
    for st in cir.walk(mr):
        if st.get("k") == "IfStmt":
            c = finite.if_parts(st)[0]
            cs = [x for x in cir.calls(c) if cir.callee(x) in unit.funcs and cir.callee(x) not in {k[0][0] for k in m1.values() if k}]
            if cs and any(cir.calls(st, k[0][0]) for k in m1.values() if k):
                elim = cir.callee(cs[0])
                break
    if elim is None:
        raise AnalysisError("mj_ray: elimination test guarding the dispatch not found")
    ef = unit.funcs[elim]
    eformals = [p.get("n") for p in cir.params(ef)]
    dispatch_names = {k[0][0] for k in m1.values() if k}
    # flag array of the helper: the int* parameter subscripted by the geom index in a condition
    flag = None
    for st in cir.walk(sr):
        if st.get("k") == "IfStmt":
            c = cir.strip(finite.if_parts(st)[0])
            if c.get("k") == "ArraySubscriptExpr" and cir.text(cir.kids(c)[1]) == idx2:
                b = cir.strip(cir.kids(c)[0])
                if b.get("k") == "DeclRefExpr" and (b.get("ref") or {}).get("k") == "ParmVarDecl":
                    flag = b["ref"].get("n")
    for fn, idx, fl in ((mr, idx1, None), (sr, idx2, flag)):
        _i, tvar, tdecl = geom_index_var(fn)
        loop = _c14.enclosing_loops(fn, tdecl)[0]
        pf = _c14.pseudo_iteration(fn, loop, fn.get("n") + "@geom-loop")
        ex = paths.Explorer(ElimRule(elim, fl, dispatch_names, idx), unit, pf)
        ex.ctx.sites, ex.ctx.elim_calls = [], []
        ex.run()
        construct = f"{fn.get('n')}:eliminate-before-dispatch"
        if not ex.ctx.sites:
            raise AnalysisError(f"{fn.get('n')}: dispatch calls not found in the geom loop")
        if ex.ctx.reports:
            res.bad("R-SIBLING", construct, RAY, ex.ctx.reports[0]["line"], ex.ctx.reports[0]["msg"])
        else:
            res.ok("R-SIBLING", construct, {"test": elim if fl is None else f"{fl}[{idx}]"})
    # filter parameter binding
    def binding(fn, call):
        ps = {p.get("n"): p.get("t") for p in cir.params(fn)}
        out = {}
        for f, a in zip(eformals, cir.args(call)):
            s = cir.strip(a)
            if s is not None and s.get("k") == "DeclRefExpr" and s["ref"].get("n") in ps and s["ref"].get("k") == "ParmVarDecl":
                out[f] = (s["ref"].get("n"), ps[s["ref"].get("n")])
        return out
    b1 = None
    for c in cir.calls(mr, elim):
        b1 = binding(mr, c)
    filt = {f for f, (n, t) in (b1 or {}).items() if n not in ("m", "d")}
    construct = "mj_ray:filter-binding"
    if not b1 or len(filt) < 3 or any(b1[f][0] != f for f in filt):
        res.bad("R-SIBLING", construct, RAY, mr.get("line"),
                f"mj_ray passes {dict((f, b1[f][0]) for f in filt) if b1 else '?'} as {elim}'s filter parameters; each filter argument "
                f"must be the parameter of the same name")
    else:
        res.ok("R-SIBLING", construct, {"filters": sorted(filt)})
    # mj_multiRay -> prepare -> ray_eliminate
    construct = "mj_multiRay:filter-binding"
    b2 = None
    prep = None
    for c in cir.calls(mm):
        q = unit.funcs.get(cir.callee(c))
        if q is None or cir.callee(c) == single:
            continue
        for ec in cir.calls(q, elim):
            inner = binding(q, ec)
            qformals = [p.get("n") for p in cir.params(q)]
            outer = {}
            ps = {p.get("n"): p.get("t") for p in cir.params(mm)}
            for f, a in zip(qformals, cir.args(c)):
                s = cir.strip(a)
                if s is not None and s.get("k") == "DeclRefExpr" and s["ref"].get("k") == "ParmVarDecl":
                    outer[f] = (s["ref"].get("n"), ps.get(s["ref"].get("n")))
            b2 = {f: outer.get(n) for f, (n, t) in inner.items()}
            prep = (q, c, ec)
    if b2 is None:
        res.bad("R-SIBLING", construct, RAY, mm.get("line"), f"mj_multiRay never reaches {elim}: its rays are not filtered like mj_ray's")
    else:
        diff = [f for f in sorted(filt) if b2.get(f) != b1.get(f)]
        if diff:
            res.bad("R-SIBLING", construct, RAY, prep[1].get("line"),
                    f"{elim}'s `{diff[0]}` receives mj_ray's `{b1[diff[0]][0]}` but mj_multiRay's `{(b2.get(diff[0]) or ('nothing',))[0]}`: "
                    f"the two entry points filter geoms differently")
        else:
            res.ok("R-SIBLING", construct, {"via": prep[0].get("n"), "filters": sorted(filt)})
        # the flags tested by the helper are the ones prepare filled, for every geom
        q, c, ec = prep
        construct = "mj_multiRay:flag-array"
        store = None
        for x in cir.walk(q):
            if x.get("k") == "BinaryOperator" and x.get("op") == "=" and cir.strip(cir.kids(x)[1]) is ec:
                store = x
        probs = []
        if store is None:
            probs.append(f"{q.get('n')} does not store the result of {elim}")
        else:
            lhs = cir.strip(cir.kids(store)[0])
            qflag = cir.text(cir.kids(lhs)[0]) if lhs.get("k") == "ArraySubscriptExpr" else None
            qidx = cir.text(cir.kids(lhs)[1]) if lhs.get("k") == "ArraySubscriptExpr" else None
            if qidx != cir.text(cir.args(ec)[2]):
                probs.append(f"`{cir.text(store)[:80]}` stores the flag of geom {cir.text(cir.args(ec)[2])} at index {qidx}")
            loops = _c14.enclosing_loops(q, store)
            if not loops:
                probs.append("the elimination flags are not computed in a loop over the geoms")
            else:
                from . import c22 as _c22
                li, lc, linc, _lb = _c22.loop_parts(loops[0])
                vd = _c22.decl_of(li)
                okr = vd is not None and _c22.ev(unit, _c22.init_expr(vd), {}) == 0 and "ngeom" in cir.text(lc) and \
                    cir.strip(lc).get("op") == "<" and vd.get("n") == qidx
                if not okr:
                    probs.append(f"the flag loop `{cir.text(lc)}` does not cover every geom in [0, ngeom)")
            qformals = [p.get("n") for p in cir.params(q)]
            actual = cir.text(cir.args(c)[qformals.index(qflag)]) if qflag in qformals else None
            sformals = [p.get("n") for p in cir.params(sr)]
            passed = None
            for sc in cir.calls(mm, single):
                if flag in sformals:
                    passed = cir.text(cir.args(sc)[sformals.index(flag)])
            if actual is None or actual != passed:
                probs.append(f"{single} tests `{passed}` but {q.get('n')} fills `{actual}`")
        if probs:
            res.bad("R-SIBLING", construct, RAY, (store or q).get("line"), probs[0])
        else:
            res.ok("R-SIBLING", construct, None)
    return single


# ------------------------------------------------------------------------------------------------------------ mj_multiRay

class MultiRule(paths.Rule):
    def __init__(self, dname, gname, nname, idx, single, spos, aliases=None):
        self.d, self.g, self.n, self.idx, self.single, self.spos = dname, gname, nname, idx, single, spos
        self.aliases = aliases or {}      # local pointer -> "g" / "n": it is <that array> + offset(idx), or NULL with the array

    def initial(self, fn):
        return frozenset()

    def _through(self, node, ctx, st):
        add = set()
        for c in cir.calls(node, self.single):
            a = cir.args(c)
            for out, pos in self.spos.items():
                if pos is None or pos >= len(a):
                    continue
                texts = [cir.text(r) for r in _c14.resolve(ctx.defs, a[pos], set())]
                name = {"g": self.g, "n": self.n}[out]
                if any(re.search(r"\b%s\b" % re.escape(name), t) and re.search(r"\b%s\b" % re.escape(self.idx), t) for t in texts):
                    add.add(out)
        return add

    def assign(self, st, node, ctx):
        if node.get("k") in ("BinaryOperator",) and node.get("op") == "=":
            lhs = cir.strip(cir.kids(node)[0])
            if lhs.get("k") == "ArraySubscriptExpr":
                base, idx = cir.text(cir.kids(lhs)[0]), cir.text(cir.kids(lhs)[1])
                if base == self.d and idx == self.idx:
                    st = st | {"d"} | self._through(cir.kids(node)[1], ctx, st)
                elif base == self.g and idx == self.idx:
                    st = st | {"g"}
                elif self.aliases.get(base) == "g" and idx == "0":
                    st = st | {"g"}
            elif lhs.get("k") == "UnaryOperator" and lhs.get("op") == "*" and self.aliases.get(cir.text(cir.kids(lhs)[0])) == "g":
                st = st | {"g"}
        return st

    def call(self, st, node, name, ctx):
        a = cir.args(node)
        if a and self.n and re.match(r"\b%s\b" % re.escape(self.n), cir.text(a[0])) and self.idx in cir.text(a[0]):
            return st | {"n"}
        if a and self.aliases.get(cir.text(a[0])) == "n" and name != self.single:
            return st | {"n"}
        return st

    def branch(self, st, cond, taken, ctx):
        if not taken and cir.text(cond) == self.g:
            return st | {"g"}
        if not taken and self.n and cir.text(cond) == self.n:
            return st | {"n"}
        if not taken and cir.text(cond) in self.aliases:
            return st | {self.aliases[cir.text(cond)]}
        return st

    def fallthrough(self, st, ctx):
        ctx.ends.append(st)


def check_multiray(res, unit, single, main_fns, required):
    mm = unit.funcs["mj_multiRay"]
    sr = unit.funcs[single]
    from . import c22 as _c22
    store = None
    for x in cir.walk(mm):
        if x.get("k") == "BinaryOperator" and x.get("op") == "=" and cir.strip(cir.kids(x)[0]).get("k") == "ArraySubscriptExpr":
            r = cir.strip(cir.kids(x)[1])
            if cir.is_call(r) and cir.callee(r) == single:
                store = x
    lhs = cir.strip(cir.kids(store)[0])
    dname, idx = cir.text(cir.kids(lhs)[0]), cir.text(cir.kids(lhs)[1])
    loop = _c14.enclosing_loops(mm, store)[0]
    sformals = [p.get("n") for p in cir.params(sr)]
    gformal = main_fns.get(single)
    nformal = next((p.get("n") for p in cir.params(sr) if p.get("n") in required.get(single, ()) and p.get("n") != gformal
                    and finite.is_float_type(finite.base_type(p.get("t")).rstrip("*").strip())), None)
    # the geom-id / normal parameters of mj_multiRay: the ones forwarded to the helper's id / normal parameters
    call = [c for c in cir.calls(mm, single)][0]
    d = _c14.defs_of(mm)
    ps = {p.get("n") for p in cir.params(mm)}

    def outer_param(formal):
        if formal is None or formal not in sformals:
            return None
        texts = " ".join(cir.text(r) for r in _c14.resolve(d, cir.args(call)[sformals.index(formal)], set()))
        c = [p for p in ps if re.search(r"\b%s\b" % re.escape(p), texts) and p not in ("m", "d")]
        return c[0] if len(c) >= 1 else None
    gname, nname = outer_param(gformal), outer_param(nformal)
    if gname is None:
        raise AnalysisError(f"mj_multiRay: the geom id array forwarded to {single} was not identified")
    # range
    construct = "mj_multiRay:ray-range"
    li, lc, linc, _lb = _c22.loop_parts(loop)
    vd = _c22.decl_of(li)
    nray = [p.get("n") for p in cir.params(mm) if finite.base_type(p.get("t")) == "int" and p.get("n") in cir.vars_in(lc)]
    okr = vd is not None and vd.get("n") == idx and _c22.ev(unit, _c22.init_expr(vd), {}) == 0 and len(nray) == 1 and \
        all(bool(_c22.ev(unit, lc, {nray[0]: 3}, frame={vd.get("id"): v})) == (v < 3) for v in (2, 3, 4))
    if okr:
        it = _c22.run_stmts(unit, [linc], {}, frame={vd.get("id"): 5})
        okr = it.frames[0][vd.get("id")] == 6
    if okr:
        res.ok("R-MUSTWRITE", construct, {"loop": cir.text(lc)})
    else:
        res.bad("R-MUSTWRITE", construct, RAY, loop.get("line"), f"the ray loop `{cir.text(lc)}` does not visit every ray in [0, nray)")
    pf = _c14.pseudo_iteration(mm, loop, "mj_multiRay@ray-loop")
    spos = {"g": sformals.index(gformal) if gformal in sformals else None,
            "n": sformals.index(nformal) if nformal in sformals else None}
    aliases = {}
    for x in cir.walk(mm):
        if x.get("k") == "VarDecl" and x.get("init") and finite.is_pointer_type(x.get("t")):
            init = [c for c in cir.kids(x) if c is not None][-1]
            texts = [cir.text(r) for r in _c14.resolve(d, init, set())] + [cir.text(init)]
            for key_, nm in (("g", gname), ("n", nname)):
                if nm and any(re.search(r"\b%s\b" % re.escape(nm), t) and re.search(r"\b%s\b" % re.escape(idx), t) for t in texts):
                    aliases[x.get("n")] = key_
    ex = paths.Explorer(MultiRule(dname, gname, nname, idx, single, spos, aliases), unit, pf)
    ex.ctx.ends = []
    ex.ctx.defs = d
    ex.run()
    if not ex.ctx.ends:
        raise AnalysisError("mj_multiRay: no path through the ray loop")
    for key, name, what in (("d", dname, "distance"), ("g", gname, "geom id")):
        construct = f"mj_multiRay:{name}"
        missing = [st for st in ex.ctx.ends if key not in st]
        if missing:
            also = ""
            if key == "g" and nname and any("n" not in st for st in missing):
                also = f" (nor {nname}[3*{idx}..])"
            wrote = sorted({"d": dname, "g": gname, "n": nname or "normal"}[k] for k in missing[0])
            res.bad("R-MUSTWRITE", construct, RAY, loop.get("line"),
                    f"a path of the ray loop writes {wrote or 'nothing'} but leaves {name}[{idx}]{also} untouched: for that ray the caller "
                    f"reads a stale {what} (mj_ray returns -1 / geom id -1 when nothing is hit)")
        else:
            res.ok("R-MUSTWRITE", construct, {"paths": len(ex.ctx.ends)})


# ------------------------------------------------------------------------------------------------------------ run

def run(res, tier):
    unit = engine.unit(RAY)
    for a in ANCHORS:
        if a not in unit.funcs:
            raise AnalysisError(f"anchor {a} missing in {RAY}")
    res.count("functions", len(unit.funcs))
    res.rule("R-FINITE", "nearest-hit update predicate over all order types of {cand, best, 0} incl. NaN and the -1 sentinel", floor=14)
    all_sites = check_sites(res, unit)
    res.count("update_sites", sum(len(s) for _f, s in all_sites.values()))
    single = find_single(unit, all_sites)
    # outputs of the two geom loops: pointer parameters initialised before the loop; the id output is the int* one
    main_fns, required = {}, {}
    for fname in ("mj_ray", single):
        fn = unit.funcs[fname]
        ids = [p.get("n") for p in cir.params(fn) if finite.is_pointer_type(p.get("t")) and
               finite.base_type(p.get("t")).split()[0] == "int" and "const" not in (p.get("t") or "")
               and not reads_through(fn, p.get("n"))]
        if len(ids) > 1:
            stored = [i for i in ids if any(x.get("k") == "BinaryOperator" and x.get("op") == "=" and
                                            cir.strip(cir.kids(x)[0]).get("k") in ("UnaryOperator", "ArraySubscriptExpr") and
                                            cir.text(cir.strip(cir.kids(cir.strip(cir.kids(x)[0]))[0])) == i for x in cir.walk(fn))]
            ids = stored if len(stored) == 1 else ids
        if len(ids) != 1:
            raise AnalysisError(f"{fname}: geom id output not identified ({ids})")
        main_fns[fname] = ids[0]
        required[fname] = sorted(set(required_outputs(fn, all_sites[fname][1])) | {ids[0]})
    res.rule("R-PAIRWRITE", "distance and its companion outputs are written together", floor=10)
    check_pairwrite(res, unit, all_sites, required)
    res.rule("R-SIBLING", "mj_ray / mju_singleRay dispatch and filter agreement; mju_rayGeom coverage", floor=14)
    check_dispatch(res, unit, all_sites, single)
    res.rule("R-INIT", "-1 / -1 initialisation dominates the loop; the tracked distance is what is returned", floor=8)
    check_init(res, unit, all_sites, main_fns)
    res.rule("R-MUSTWRITE", "mj_multiRay writes dist[i] and geomid[i] on every path for every ray", floor=3)
    check_multiray(res, unit, single, main_fns, required)
    res.explanation = (
        "Truth table of the ordering part of the path condition of every nearest-hit update (40 order types incl. NaN and the -1 "
        "sentinel) against update <=> cand >= 0 && (best < 0 || cand < best); companion outputs written with the distance at every "
        "update site; -1/-1 initialisation on all paths into the geom loops; constant-folded dispatch of every mjtGeom enumerator in "
        "mj_ray and mju_singleRay with identical callees and arguments, mju_rayGeom switch coverage and -1 default; elimination test "
        "dominates dispatch; filter parameter binding of both entry points; per-iteration all-paths writes of mj_multiRay.")
    res.not_decided = "analytic intersection distances; pruning soundness of bounding spheres / angles; mj_raySdf marching."
    res.assumptions = ["error handlers do not return", "the tracked distance is never NaN (it is -1 or a candidate that passed cand >= 0)"]
