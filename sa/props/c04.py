"""C04 Staged and split pipeline calls equal the monolithic call.

Decided:
  R-SIBLING-SEQ    for each of the Euler / implicit / implicitfast integrators, the guarded stage sequence of mj_step
                   (mj_forward and the other orchestration functions inlined, constants propagated) equals the sequence of
                   mj_step1 followed by mj_step2 (fatal-assertion events excluded)
  R-SIBLING-GUARD  the sensor / energy / lazy-flag events of mj_forwardSkip and mj_inverseSkip carry the same stage guards
  R-MODSET         nothing in the closure of mj_forward writes a field of the integration state (mj_forward never changes
                   the state it reads); external callbacks and plugins are outside the closure
  R-LAZY           in the full pipelines (mj_forward, mj_inverse, step1;step2) every lazy flag is cleared before the first
                   event that can read it, so a second call recomputes instead of reusing stale derived data
Not decided: numerical equality; idempotence under warm start.
"""
from __future__ import annotations

from .. import callgraph, cir, ctypeinfo, engine, pipeline
from ..cfront import AnalysisError
from . import c26

FWD = "src/engine/engine_forward.c"
INV = "src/engine/engine_inverse.c"


def _seq(F, fn, env):
    return [e for e in F.flatten(fn, env) if e[0] != "assert"]


def state_fields():
    u = engine.unit("src/engine/engine_support.c")
    out = {}
    for name, node in c26._switch_cases(u.funcs["mj_stateElemPtr"]).items():
        if name == "<default>":
            continue
        p = cir.strip(node)
        if p is not None and p.get("k") == "UnaryOperator":
            p = cir.strip(cir.kids(p)[0])
        out[p.get("n")] = name
    # special-cased elements (no pointer case): found as `element == mjSTATE_X` branches writing d->field
    fn = u.funcs["mj_setState"]
    import re
    for n in cir.walk(fn):
        if n.get("k") == "IfStmt":
            m = re.fullmatch(r"\w+ == (mjSTATE_\w+)", cir.text(cir.kids(n)[0]))
            if m:
                for x in cir.walk(cir.kids(n)[1]):
                    if x.get("k") == "BinaryOperator" and x.get("op") == "=":
                        lhs = cir.strip(cir.kids(x)[0])
                        while lhs is not None and lhs.get("k") == "ArraySubscriptExpr":
                            lhs = cir.strip(cir.kids(lhs)[0])
                        if lhs is not None and lhs.get("k") == "MemberExpr" and lhs.get("arrow"):
                            out[lhs.get("n")] = m.group(1)
    return out



def _alias_written(key, var):
    """the local pointer `var` of function `key` is stored through or passed to a non-const pointer parameter"""
    from .. import modref as _mr
    try:
        u = engine.unit(key[0])
    except Exception:
        return True
    fn = u.funcs.get(key[1])
    if fn is None:
        for tu in engine.engine_tus():
            fn = engine.unit(tu).funcs.get(key[1])
            if fn is not None:
                break
    if fn is None:
        return True
    ids = {x.get("id") for x in cir.walk(fn) if x.get("k") == "VarDecl" and x.get("n") == var}

    def rooted(e):
        e = cir.strip(e)
        while e is not None and e.get("k") in ("ArraySubscriptExpr", "UnaryOperator", "BinaryOperator", "MemberExpr"):
            e = cir.strip(cir.kids(e)[0])
        return e is not None and e.get("k") == "DeclRefExpr" and (e.get("ref") or {}).get("id") in ids
    for x in cir.walk(fn):
        k = x.get("k")
        if (k == "BinaryOperator" and x.get("op") == "=") or k == "CompoundAssignOperator" or (k == "UnaryOperator" and x.get("op") in ("++", "--")):
            l = cir.strip(cir.kids(x)[0])
            if l is not None and l.get("k") in ("ArraySubscriptExpr", "UnaryOperator") and l.get("op", "*") == "*" and rooted(l):
                return True
        if cir.is_call(x):
            ce = cir.callee_expr(x)
            pt = _mr._param_types((ce.get("ref") or {}).get("t") if ce is not None and ce.get("k") == "DeclRefExpr" else None)
            for j, a in enumerate(cir.args(x)):
                if rooted(a) and "*" in (cir.strip(a).get("t") or "*"):
                    if j >= len(pt) or not _mr._const_pointee(pt[j]):
                        return True
    return False


def run(res, tier):
    uf = engine.unit(FWD)
    ui = engine.unit(INV)
    for f in ("mj_step", "mj_step1", "mj_step2", "mj_forward", "mj_forwardSkip"):
        if f not in uf.funcs:
            raise AnalysisError(f"anchor {f} missing in {FWD}")
    for f in ("mj_inverseSkip", "mj_inverse"):
        if f not in ui.funcs:
            raise AnalysisError(f"anchor {f} missing in {INV}")
    enum = ctypeinfo.load()["enumerators"]
    F = pipeline.Flattener(uf, stop=pipeline.STAGES[uf.tu])
    FI = pipeline.Flattener(ui, stop=pipeline.STAGES[ui.tu])

    # ------------------------------------------------------------- R-SIBLING-SEQ
    res.rule("R-SIBLING-SEQ", "mj_step == mj_step1;mj_step2 as guarded stage sequences, per integrator", floor=90)
    for integ in ("mjINT_EULER", "mjINT_IMPLICIT", "mjINT_IMPLICITFAST"):
        if integ not in enum:
            raise AnalysisError(f"{integ} not found")
        env = {"m->opt.integrator": enum[integ]}
        a = _seq(F, uf.funcs["mj_step"], env)
        b = _seq(F, uf.funcs["mj_step1"], env) + _seq(F, uf.funcs["mj_step2"], env)
        res.count("events_compared", len(a))
        if len(a) < 25:
            raise AnalysisError(f"mj_step flattened to only {len(a)} events: inlining lost")
        n = max(len(a), len(b))
        i = j = 0
        while i < len(a) or j < len(b):
            ea = a[i] if i < len(a) else None
            eb = b[j] if j < len(b) else None
            if ea == eb:
                res.ok("R-SIBLING-SEQ", f"{integ}:{ea[1]}", {"event": pipeline.fmt(ea)} if i < 2 else None)
                i += 1
                j += 1
                continue
            if ea is not None and eb is not None and ea[:2] == eb[:2]:
                construct = f"{ea[1]}:guard"
                res.bad("R-SIBLING-SEQ", construct, FWD, uf.funcs["mj_step1"].get("line"),
                        f"[{integ}] same stage, different guards: mj_step has `{pipeline.fmt(ea)}`, mj_step1;mj_step2 has "
                        f"`{pipeline.fmt(eb)}`")
                i += 1
                j += 1
                continue
            # resynchronise: which side has an extra event
            if ea is not None and ea not in b[j:]:
                res.bad("R-SIBLING-SEQ", f"{ea[1]}:only-in-step", FWD, uf.funcs["mj_step"].get("line"),
                        f"[{integ}] mj_step performs `{pipeline.fmt(ea)}` which mj_step1;mj_step2 does not")
                i += 1
            elif eb is not None and eb not in a[i:]:
                res.bad("R-SIBLING-SEQ", f"{eb[1]}:only-in-split", FWD, uf.funcs["mj_step2"].get("line"),
                        f"[{integ}] mj_step1;mj_step2 performs `{pipeline.fmt(eb)}` which mj_step does not")
                j += 1
            else:
                res.bad("R-SIBLING-SEQ", f"{(ea or eb)[1]}:order", FWD, uf.funcs["mj_step"].get("line"),
                        f"[{integ}] stage order differs at `{pipeline.fmt(ea) if ea else None}` vs `{pipeline.fmt(eb) if eb else None}`")
                i += 1
                j += 1

    # ------------------------------------------------------------- R-SIBLING-GUARD
    res.rule("R-SIBLING-GUARD", "forwardSkip and inverseSkip guard the shared sensor/energy/flag events identically", floor=5)
    fa = F.flatten(uf.funcs["mj_forwardSkip"], {})
    ia = FI.flatten(ui.funcs["mj_inverseSkip"], {})

    def guard_map(evs):
        out = {}
        for e in evs:
            if e[0] == "call" and (e[1].startswith("mj_sensor") or e[1].startswith("mj_energy")):
                out.setdefault(("call", e[1]), set()).add(e[-1])
            if e[0] == "set" and e[1].startswith("d->flg_"):
                out.setdefault(("set", e[1] + "=" + e[2]), set()).add(e[-1])
        return out
    gf, gi = guard_map(fa), guard_map(ia)
    shared = sorted(set(gf) & set(gi))
    for k in shared:
        # energy: the forward variant also zeroes the energy when disabled; compare the guards of the shared event only
        a_, b_ = gf[k], gi[k]
        if a_ == b_:
            res.ok("R-SIBLING-GUARD", k[1], {"guards": [list(map(list, g)) for g in sorted(a_)][:1]})
        else:
            res.bad("R-SIBLING-GUARD", k[1], INV, ui.funcs["mj_inverseSkip"].get("line"),
                    f"`{k[1]}` is guarded by {sorted(a_)} in mj_forwardSkip but by {sorted(b_)} in mj_inverseSkip")
    for k in sorted(set(gf) ^ set(gi)):
        if k[0] == "call" and k[1].startswith("mj_sensor"):
            res.bad("R-SIBLING-GUARD", k[1], INV, ui.funcs["mj_inverseSkip"].get("line"),
                    f"`{k[1]}` is called by only one of mj_forwardSkip / mj_inverseSkip")

    # ------------------------------------------------------------- R-MODSET
    g = callgraph.build()
    res.rule("R-MODSET", "no function in the closure of mj_forward writes an integration-state field", floor=100)
    sf = state_fields()
    if len(sf) < 13:
        raise AnalysisError(f"only {len(sf)} state fields derived from the state tables")
    root = g.find("mj_forward")
    clo = g.closure([root])
    res.count("forward_closure_functions", len(clo))
    # reset-on-bad-state is documented behaviour of the check functions, which are not in mj_forward's closure; the
    # sleep module may zero qvel of trees it puts to sleep only from mj_advance (not in the closure either)
    for k in sorted(clo):
        f = g.funcs[k]
        hits = [e for e in f["events"] if e["struct"] == "mjData" and e["field"] in sf and e["kind"] in ("assign", "elem", "pass", "addr")]
        # a non-const local pointer into a state array that the function then writes through (store, or handed to a non-const
        # parameter) is a write of that array
        for e in f["events"]:
            if e["struct"] == "mjData" and e["field"] in sf and e["kind"] == "alias" and e.get("var") and _alias_written(k, e["var"]):
                hits.append(dict(e, kind=f"alias `{e['var']}` written through"))
        if not hits:
            res.ok("R-MODSET", k[1], None)
            continue
        for e in hits:
            res.bad("R-MODSET", f"{k[1]}:{e['field']}", f["file"], e["line"],
                    f"{k[1]} (reachable from mj_forward) may modify state field d->{e['field']} ({sf[e['field']]}) via {e['kind']}"
                    + (f" to {e.get('callee')}()" if e.get("callee") else ""))
    # ------------------------------------------------------------- R-STAGE-INPUT
    # the split API lets the user set controls between mj_step1 and mj_step2: nothing computed by the position / velocity stages
    # (everything mj_step1 runs before the control callback) may read d->ctrl, or the staged and the monolithic step disagree
    # whenever the control changes in between
    res.rule("R-STAGE-INPUT", "no function in the closure of the position and velocity stages reads d->ctrl", floor=2)
    gr = callgraph.build(reads=True)
    for stage in ("mj_fwdPosition", "mj_fwdVelocity"):
        ks = gr.find(stage)
        if ks is None:
            raise AnalysisError(f"anchor {stage} not found")
        offenders = []
        for k2 in sorted(gr.closure([ks])):
            for e in gr.funcs[k2]["events"]:
                if e["struct"] == "mjData" and e["field"] == "ctrl" and e["kind"] in ("read", "pass", "addr", "alias", "elem", "assign"):
                    offenders.append((k2, e))
        if offenders:
            k2, e = offenders[0]
            res.bad("R-STAGE-INPUT", f"{stage}:ctrl", gr.funcs[k2]["file"], e["line"],
                    f"{k2[1]} (in the closure of {stage}, which mj_step1 runs before the user sets controls) reads d->ctrl: its result is "
                    f"stale when the control changes between mj_step1 and mj_step2, so the staged step differs from mj_step")
        else:
            res.ok("R-STAGE-INPUT", f"{stage}:ctrl", {"closure_functions": len(gr.closure([ks]))})
    ext = g.external_calls(clo)
    res.extra["external_callees_of_forward_closure"] = sorted(ext)[:60]

    # ------------------------------------------------------------- R-LAZY
    res.rule("R-LAZY", "every lazy flag of mjData is cleared in each full pipeline, before the same sensor stage in all of them",
             floor=8)
    acc = {}
    for tu, fs in engine.map_tus("sa.r_lazy", "flag_access", engine.engine_tus()).items():
        for name, s in fs.items():
            acc[(tu, name)] = s
    flags = sorted(f["name"] for f in ctypeinfo.fields("mjData_") if f["name"].startswith("flg_"))
    res.extra["lazy_flags"] = flags
    if len(flags) < 4:
        raise AnalysisError(f"lazy flags found: {flags}")

    def top_clears(name):
        k = g.find(name)
        s = acc.get(k) if k else None
        return set(s["top_clears"]) if s else set()

    pipes = {
        "mj_forward": F.flatten(uf.funcs["mj_forward"], {}),
        "mj_inverse": FI.flatten(ui.funcs["mj_inverseSkip"], {"skipstage": enum["mjSTAGE_NONE"], "skipsensor": 0}),
        "mj_step1;mj_step2": F.flatten(uf.funcs["mj_step1"], {}) + F.flatten(uf.funcs["mj_step2"], {}),
    }
    stage_of = {}
    for pname, evs in pipes.items():
        pending = {}
        mapping = {}
        for e in evs:
            if e[0] == "set" and e[1].startswith("d->flg_") and e[2] == "0":
                pending[e[1][3:]] = True
            elif e[0] == "call":
                for f in top_clears(e[1]):
                    pending[f] = True
                if e[1].startswith("mj_sensor"):
                    for f in list(pending):
                        mapping.setdefault(f, e[1])
                    pending.clear()
        stage_of[pname] = mapping
    ref = stage_of["mj_forward"]
    for f in flags:
        if f not in ref:
            res.bad("R-LAZY", f"mj_forward:{f}", FWD, uf.funcs["mj_forwardSkip"].get("line"),
                    f"lazy flag d->{f} is never cleared before a sensor stage in mj_forward: derived data of the previous call "
                    f"would be reused")
            continue
        for pname, mp in stage_of.items():
            if mp.get(f) == ref[f]:
                res.ok("R-LAZY", f"{pname}:{f}", {"cleared_before": ref[f]})
            else:
                res.bad("R-LAZY", f"{pname}:{f}", FWD if pname != "mj_inverse" else INV, 0,
                        f"d->{f} is cleared before {ref[f]} in mj_forward but before {mp.get(f)} in {pname}")

    # ------------------------------------------------------------- R-LAZY-SKIP
    # In every skip variant, a sensor stage that can test a flag must see it cleared within the same call: the flag of a
    # producer whose inputs are recomputed in that variant must not survive from the previous call.  Reader stage of a flag =
    # the sensor stage functions (mj_sensorPos/Vel/Acc) whose own stage-specific code tests it (functions of engine_sensor.c
    # whose name ends in that stage suffix) plus the energy guards of the orchestration functions themselves.
    res.rule("R-LAZY-SKIP", "in every skipstage variant each lazy flag is cleared before the sensor stage that tests it", floor=8)
    readers = {}
    for (tu, name), s_ in acc.items():
        if not tu.endswith("engine_sensor.c"):
            continue
        for suf in ("Pos", "Vel", "Acc"):
            if name.endswith(suf):
                for f in s_["reads"]:
                    readers.setdefault(f, set()).add("mj_sensor" + suf)
    res.extra["lazy_flag_reader_stages"] = {f: sorted(v) for f, v in readers.items()}
    variants = {}
    for sk in ("mjSTAGE_NONE", "mjSTAGE_POS", "mjSTAGE_VEL"):
        variants[f"mj_forwardSkip({sk})"] = F.flatten(uf.funcs["mj_forwardSkip"], {"skipstage": enum[sk], "skipsensor": 0})
        variants[f"mj_inverseSkip({sk})"] = FI.flatten(ui.funcs["mj_inverseSkip"], {"skipstage": enum[sk], "skipsensor": 0})
    variants["mj_step1;mj_step2"] = pipes["mj_step1;mj_step2"]
    for vname, evs in variants.items():
        cleared = set()
        for e in evs:
            if e[0] == "set" and e[1].startswith("d->flg_") and e[2] == "0":
                cleared.add(e[1][3:])
            elif e[0] == "call":
                cleared |= top_clears(e[1])
                if e[1].startswith("mj_sensor"):
                    for f in flags:
                        if e[1] in readers.get(f, ()):
                            if f in cleared:
                                res.ok("R-LAZY-SKIP", f"{vname}:{f}", None)
                            else:
                                res.bad("R-LAZY-SKIP", f"{vname}:{f}", INV if "inverse" in vname else FWD, 0,
                                        f"in {vname}, {e[1]} tests d->{f} but nothing cleared it earlier in this call: data derived "
                                        f"by the previous call (with other inputs) is reused")
            # energy guards in the orchestration code
            for a, _pol in e[-1]:
                for f in flags:
                    if f"d->{f}" == a or f"d->{f}" in a.split(" "):
                        if f in cleared:
                            res.ok("R-LAZY-SKIP", f"{vname}:{f}:guard", None)
                        else:
                            res.bad("R-LAZY-SKIP", f"{vname}:{f}:guard", INV if "inverse" in vname else FWD, 0,
                                    f"in {vname}, a guard tests d->{f} before any clear in this call")

    # ------------------------------------------------------------- R-FRESH on the stepping pipelines
    from .. import r_fresh
    res.rule("R-FRESH", "no stage reads a derived field whose producer in the same pipeline is more conditional than the reader", floor=20)
    for integ in ("mjINT_EULER", "mjINT_IMPLICIT", "mjINT_IMPLICITFAST", "mjINT_RK4"):
        r_fresh.check(res, "R-FRESH", f"mj_step[{integ}]", F.flatten(uf.funcs["mj_step"], {"m->opt.integrator": enum[integ]}), FWD)

    res.explanation = (
        "Sibling agreement of the monolithic and split pipelines after inlining orchestration functions and constant "
        "propagation (3 integrators), guard agreement of forward/inverse skip stages, mod-set of mj_forward's closure "
        "over the whole-engine call graph against the state-element table, and clear-before-read of the lazy flags.")
    res.not_decided = "numerical equality of results; idempotence under warm start; behaviour of user callbacks/plugins."
    res.assumptions = ["callbacks (mjcb_*) and plugin function pointers are external", "error handlers do not return"]
