"""C22 Sorting and selection utilities are correct and stable.

Every expansion of mjSORT / mjPARTIAL_SORT in the AST of the translation units that instantiate them (found by reading the
sources for `mjSORT(` / `mjPARTIAL_SORT(`; the number of expansions in the AST must equal the number of textual uses), and the
insertion-sort helpers of engine_util_misc.c.  Variable names are discovered from the loops: cursors are the variables compared
with the run bounds in the merge loop condition, the left cursor is the one the other cursor's start value bounds.

  R-FINITE   with the comparator abstracted to {<0, 0, >0}:
             * merge-tie       the merge step takes the LEFT element when the comparison is <= 0 and the right one only when the
                               left is strictly greater (stability), whatever the argument order of the comparator call
             * insertion-shift the insertion step shifts an element only when it is strictly greater than the saved one
                               (for the helpers: `list[j] > x` over all order types incl. NaN)
             * insertion-bound the inner scan stops at the lower bound of the run (0 for the helpers)
             * insertion-store the shift writes slot k+1 from slot k and the saved element lands in slot k+1
             * heap-sift / heap-scan (partial sort): a child replaces the candidate only when it is not smaller; a scanned element
                               replaces the heap root only when it is not greater (strict sides decided, ties free)
  R-BOUNDS   by evaluation of the bound expressions on concrete sizes (all order types of start+len vs n):
             * run-bounds      run end == min(start + RUN, n); insertion runs over [start, end)
             * pass-bounds     first merge width == RUN, doubled per pass; stride 2*len; mid == start+len; end == min(start+2*len, n);
                               cursors start at (start, mid, start)
             * merge-guard     the merge runs iff mid < end, otherwise [start, end) is copied with equal offsets and length end-start
             * merge-tail-left / merge-tail-right   after the merge loop the remaining elements of the unfinished run are copied
                               from its cursor to the output cursor with length (bound - cursor) * sizeof(element type)
             * partial-guard   partial sort returns at once when k <= 0 or n < k; heap filled from / copied back to arr[0, k)
  R-COPYBACK * buffer-swap     each pass exchanges the source and destination pointers exactly once (evaluated on symbolic pointers)
             * copy-back       after any number of passes (both parities) the result is in the caller's array: memcpy(arr, src, n
                               elements) exactly when src != arr
  R-SEMANTIC abstract interpretation (MemInterp: elements are abstract objects with a rank and an original position; element
             assignments / memcpy move them, the comparator sees only ranks) of
             * small-arrays    every generated sort function on every weak ordering of <= 4 elements: the caller's array ends as the
                               stable sorted permutation; every partial-sort function on every weak ordering of <= 5 elements and every
                               k: the first k slots hold the k smallest ranks in order; the numeric helpers on every array of <= 4
                               values of a three-value domain
             * merge-region    the body of the stride loop (guard, merge, copy — whatever its shape: fast paths, helpers) with run
                               lengths 1..3 on every pair of sorted runs: the destination holds the stable merge
             This is exhaustive over the finite set of orderings for the stated sizes, shape-independent, and is what decides
             fast paths, sift-down loop bounds and heap construction; the clauses above localise a defect.
  R-CMP      every comparator passed to an instantiation is antisymmetric over all order types of its keys (see sa.finite);
             NaN keys are recorded, not failures (NAN_STRICT).
Not decided: that the output is a sorted permutation for every length (algorithmic induction over the loops); R-SEMANTIC covers
the stated small sizes only (merges of runs up to 3, arrays up to 4 / 5).
"""
from __future__ import annotations

import os
import re

from .. import cir, engine, finite
from ..cfront import AnalysisError, REPO
from . import c14 as _c14

SORT_H = "src/engine/engine_sort.h"
MISC = "src/engine/engine_util_misc.c"
HELPERS = ("mju_insertionSort", "mju_insertionSortInt")
NAN_STRICT = False


# ------------------------------------------------------------------------------------------------------------ evaluation

class Capture:
    """call abstraction: memcpy calls are recorded with evaluated arguments; comparator calls return a preset value."""

    def __init__(self, cmp_value=None):
        self.copies = []
        self.cmp_value = cmp_value

    def __call__(self, name, node, it):
        if name in ("memcpy", "memmove", "__builtin_memcpy"):
            a = cir.args(node)
            rec = tuple(it.rvalue(x) for x in a[:3])
            self.copies.append(rec)
            return rec[0]
        return NotImplemented


def ev(unit, node, env, frame=None, terms=None, cap=None):
    it = finite.Interp(unit, env=dict(env), terms=terms, call_abs=cap, inline=set())
    it.frames.append(dict(frame or {}))
    try:
        return it.rvalue(node)
    except finite.NeedKey as nk:
        raise AnalysisError(f"free variable {nk.key} in `{cir.text(node)[:80]}` has no value in the finite evaluation")


def run_stmts(unit, stmts, env, frame=None, cap=None):
    it = finite.Interp(unit, env=dict(env), call_abs=cap, inline=set())
    it.frames.append(dict(frame or {}))
    try:
        for s in stmts:
            it.stmt(s)
    except finite.NeedKey as nk:
        raise AnalysisError(f"free variable {nk.key} has no value in the finite evaluation of the sort body")
    return it


def loop_parts(n):
    k = n.get("k")
    c = list(cir.kids(n))
    if k == "ForStmt":
        c = c + [None] * (5 - len(c))
        return c[0], c[2], c[3], c[4]
    if k == "WhileStmt":
        return None, c[0], None, c[-1]
    return None, c[1], None, c[0]


def decl_of(node):
    """the single VarDecl of a for-init / DeclStmt."""
    if node is None:
        return None
    for x in cir.walk(node):
        if x.get("k") == "VarDecl":
            return x
    return None


def init_expr(vd):
    c = [x for x in cir.kids(vd) if x is not None and not x.get("k", "").endswith("Attr")]
    return c[-1] if c and vd.get("init") else None


def var_decls(fn):
    return {x.get("id"): x for x in cir.walk(fn) if x.get("k") in ("VarDecl", "ParmVarDecl")}


def cmp_calls(node, unit):
    return [c for c in cir.calls(node) if cir.callee(c) in unit.funcs and len(cir.args(c)) == 3]


def only_var(node, among):
    vs = {r.get("id") for r in finite.refs(node)} & set(among)
    return next(iter(vs)) if len(vs) == 1 else None


# ------------------------------------------------------------------------------------------------------------ insertion

def insertion_loops(fn, unit):
    """inner loops that shift array elements one slot up: (loop, shift assignment)."""
    out = []
    for l in cir.walk(fn):
        if l.get("k") not in ("ForStmt", "WhileStmt"):
            continue
        _i, cond, _inc, body = loop_parts(l)
        if cond is None or body is None or len(finite.conjuncts(cond)) < 2:
            continue
        shifts = []
        for x in cir.walk(body):
            if x.get("k") in ("ForStmt", "WhileStmt", "DoStmt") and x is not l:
                shifts = []
                break
            if x.get("k") == "BinaryOperator" and x.get("op") == "=":
                a, b = (cir.strip(k) for k in cir.kids(x))
                if a is not None and b is not None and a.get("k") == b.get("k") == "ArraySubscriptExpr" and \
                        cir.text(cir.kids(a)[0]) == cir.text(cir.kids(b)[0]):
                    shifts.append(x)
        if len(shifts) == 1:
            out.append((l, shifts[0]))
    return out


def check_insertion(res, unit, fn, file, label, loop, shift, float_keys=False):
    par = finite.parents(fn)
    decls = var_decls(fn)
    _i, cond, inc, body = loop_parts(loop)
    lhs, rhs = (cir.strip(k) for k in cir.kids(shift))
    base = cir.text(cir.kids(lhs)[0])
    kvars = {r.get("id") for r in finite.refs(cir.kids(rhs)[1])}
    if len(kvars) != 1:
        raise AnalysisError(f"{label}: scan cursor of the insertion step not identified")
    kid = next(iter(kvars))
    kname = decls[kid].get("n")
    # saved element: stored into base[k+1] right after the inner loop
    p = par[id(loop)]
    sib = [x for x in cir.kids(p) if x is not None]
    after = sib[[i for i, x in enumerate(sib) if x is loop][0] + 1:]
    store = None
    for x in after:
        if x.get("k") == "BinaryOperator" and x.get("op") == "=" and cir.strip(cir.kids(x)[0]).get("k") == "ArraySubscriptExpr" \
                and cir.text(cir.kids(cir.strip(cir.kids(x)[0]))[0]) == base:
            store = x
            break
    # outer loop and its cursor
    outer = None
    y = loop
    while id(y) in par:
        y = par[id(y)]
        if y.get("k") in ("ForStmt", "WhileStmt", "DoStmt"):
            outer = y
            break
    if store is None or outer is None:
        raise AnalysisError(f"{label}: insertion step has no final store / outer loop")
    saved = cir.strip(cir.kids(store)[1])
    if saved.get("k") != "DeclRefExpr":
        raise AnalysisError(f"{label}: saved element is not a local")
    sid = saved["ref"].get("id")
    sname = saved["ref"].get("n")
    oinit, ocond, _oinc, _obody = loop_parts(outer)
    ovd = decl_of(oinit)
    if ovd is None and ocond is not None:
        # while-form: the cursor is the local the outer condition bounds, initialised before the loop
        for r_ in finite.refs(ocond):
            d_ = decls.get(r_.get("id"))
            if d_ is not None and d_.get("k") == "VarDecl" and init_expr(d_) is not None:
                ovd = d_
                break
    if ovd is None:
        raise AnalysisError(f"{label}: outer insertion loop does not declare its cursor")
    jname = ovd.get("n")
    # ---- shift strictness
    conj = finite.conjuncts(cond)
    cmpc = [c for c in conj if cmp_calls(c, unit) or any(x.get("k") == "ArraySubscriptExpr" for x in cir.walk(c))]
    bnd = [c for c in conj if c not in cmpc]
    construct = f"{label}:insertion-shift"
    if len(cmpc) != 1:
        res.bad("R-FINITE", construct, file, loop.get("line"), f"the scan condition `{cir.text(cond)}` has {len(cmpc)} element comparisons")
    else:
        c = cmpc[0]
        calls = cmp_calls(c, unit)
        wrong = []
        if calls:
            call = calls[0]
            a0, a1 = cir.args(call)[:2]
            s0 = sid in {r.get("id") for r in finite.refs(a0)}
            s1 = sid in {r.get("id") for r in finite.refs(a1)}
            if s0 == s1:
                raise AnalysisError(f"{label}: cannot tell the saved element from the array element in `{cir.text(call)}`")
            for r in (-1, 0, 1):
                taken = bool(ev(unit, c, {}, terms={cir.text(call): r}))
                rel = -r if s0 else r           # relation (array element ? saved element)
                if taken != (rel > 0):
                    wrong.append(f"comparator {'<' if rel < 0 else '=' if rel == 0 else '>'} 0 (element vs saved): "
                                 f"{'shifts' if taken else 'stops'}")
        else:
            et = cir.text(cir.strip([x for x in cir.walk(c) if x.get("k") == "ArraySubscriptExpr"][0]))
            dom = (0.0, 1.0, finite.NAN) if float_keys else (0, 1)
            for a in dom:
                for b in dom:
                    taken = bool(ev(unit, c, {}, terms={et: a, sname: b}))
                    if taken != (a > b):
                        wrong.append(f"{et}={a}, {sname}={b}: {'shifts' if taken else 'stops'}")
        if wrong:
            res.bad("R-FINITE", construct, file, loop.get("line"),
                    f"insertion step `{cir.text(c)}` must shift exactly when the element is strictly greater than the saved one "
                    f"(equal elements keep their order): {wrong[0]}")
        else:
            res.ok("R-FINITE", construct, {"cond": cir.text(c)})
    # ---- lower bound
    construct = f"{label}:insertion-bound"
    wrong = []
    oi = init_expr(ovd)
    free = sorted(cir.vars_in(oi) | set().union(*[cir.vars_in(b) for b in bnd]) - {kname}) if bnd else sorted(cir.vars_in(oi))
    # the cursor convention is taken from the shift itself: it reads slot cursor+roff and writes the slot above it
    roff = ev(unit, cir.kids(rhs)[1], {kname: 5, jname: 7}) - 5
    for s0 in (0, 5):
        env = {v: s0 for v in free}
        low = ev(unit, oi, env) - 1
        for kv in (low - roff - 1, low - roff, low - roff + 1):
            e2 = dict(env)
            e2[kname] = kv
            taken = all(bool(ev(unit, b, e2)) for b in bnd) if bnd else True
            if taken != (kv + roff >= low):
                wrong.append(f"{kname}={kv} with run start {low}: scan {'continues' if taken else 'stops'}")
    if wrong:
        res.bad("R-BOUNDS", construct, file, loop.get("line"),
                f"inner insertion loop `{' && '.join(cir.text(b) for b in bnd) or '(no bound)'}` must scan down to the run start "
                f"and not below: {wrong[0]}")
    else:
        res.ok("R-BOUNDS", construct, {"bound": " && ".join(cir.text(b) for b in bnd)})
    # ---- store indices
    construct = f"{label}:insertion-store"
    env = {kname: 5, jname: 7}
    li = ev(unit, cir.kids(lhs)[1], env)
    ri = ev(unit, cir.kids(rhs)[1], env)
    si = ev(unit, cir.kids(cir.strip(cir.kids(store)[0]))[1], env)
    svd = decls.get(sid)
    sinit = init_expr(svd) if svd is not None else None
    kvd = decls.get(kid)
    kinit = init_expr(kvd) if kvd is not None else None
    probs = []
    if li != ri + 1:
        probs.append(f"shift writes slot {li - 5:+d} from slot {ri - 5:+d} relative to the cursor")
    if si != li:
        probs.append(f"saved element stored at cursor{si - 5:+d}, the free slot is cursor{li - 5:+d}")
    if sinit is None or cir.text(cir.strip(sinit)) != f"{base}[{jname}]":
        probs.append(f"saved element is `{cir.text(sinit) if sinit is not None else '?'}`, not {base}[{jname}]")
    if kinit is None or ev(unit, kinit, {jname: 7}) + roff != 6:
        probs.append("scan does not start at the slot below the inserted element")
    if probs:
        res.bad("R-FINITE", construct, file, shift.get("line"), "; ".join(probs))
    else:
        res.ok("R-FINITE", construct, None)
    return {"outer": outer, "ovd": ovd, "ocond": ocond, "base": base}


# ------------------------------------------------------------------------------------------------------------ mjSORT

def merge_loops(fn, unit):
    out = []
    for w in cir.walk(fn):
        if w.get("k") != "WhileStmt":
            continue
        _i, cond, _inc, body = loop_parts(w)
        conj = finite.conjuncts(cond)
        if len(conj) != 2:
            continue
        ok = all(cir.strip(c).get("k") == "BinaryOperator" and cir.strip(c).get("op") == "<" and
                 all(cir.strip(k).get("k") == "DeclRefExpr" for k in cir.kids(cir.strip(c))) for c in conj)
        ifs = [x for x in cir.walk(body) if x.get("k") == "IfStmt" and cmp_calls(finite.if_parts(x)[0], unit)]
        if ok and len(ifs) == 1:
            out.append((w, ifs[0]))
    return out


def taken_cursor(branch, cursors):
    """(source pointer id, source cursor id, dest pointer id, dest cursor id, well-formed) of one merge branch."""
    asg = [x for x in cir.walk(branch) if x.get("k") == "BinaryOperator" and x.get("op") == "="]
    if len(asg) != 1:
        return None
    a, b = (cir.strip(k) for k in cir.kids(asg[0]))
    if a.get("k") != "ArraySubscriptExpr" or b.get("k") != "ArraySubscriptExpr":
        return None

    def part(s):
        base = cir.strip(cir.kids(s)[0])
        idx = cir.strip(cir.kids(s)[1])
        inc = idx.get("k") == "UnaryOperator" and idx.get("op") == "++" and idx.get("isPostfix")
        v = cir.strip(cir.kids(idx)[0]) if inc else idx
        return (base.get("ref") or {}).get("id"), (v.get("ref") or {}).get("id") if v.get("k") == "DeclRefExpr" else None, inc
    dp, dc, dinc = part(a)
    sp, sc, sinc = part(b)
    return sp, sc, dp, dc, bool(dinc and sinc and sc in cursors)


def _loops(n):
    return [x for x in cir.walk(n) if x.get("k") in ("ForStmt", "WhileStmt", "DoStmt")]


def merge_region_by_role(res, unit, fn, file, cmps, arr, buf, nname):
    """Find the merge pass by role, not by layout: the top-level loop that contains a loop whose body calls the comparator and
    works on two pointer-typed LOCALS declared outside (the per-pass source / destination; the insertion phase works on the
    parameter in place) and whose body has exactly one free integer local — the run length.  One whole pass (the body of that
    loop) is evaluated with run lengths 1 and 2 on every array of up to 5 elements whose runs are sorted: every block
    [s, min(s + 2L, n)) of the destination must hold the stable merge of its two runs."""
    name = fn.get("n")
    body = cir.body(fn)
    par = finite.parents(fn)

    def depth(x):
        d = 0
        while id(x) in par:
            x = par[id(x)]
            if x.get("k") in ("ForStmt", "WhileStmt", "DoStmt"):
                d += 1
        return d

    def lbody(lp):
        return cir.kids(lp)[0] if lp.get("k") == "DoStmt" else cir.kids(lp)[-1]
    decls = var_decls(fn)
    cands = []
    for lp in _loops(body):
        if depth(lp) != 0:
            continue
        lb = lbody(lp)
        if lb is None:
            continue
        inner = [x for x in _loops(lb) if depth(x) == 1 and lbody(x) is not None and cmp_calls(lbody(x), unit)]
        if not inner:
            continue
        inside = {x.get("id") for x in cir.walk(lb) if x.get("k") == "VarDecl"}
        free = {}
        for r in finite.refs(lb):
            vd = decls.get(r.get("id"))
            if vd is not None and vd.get("k") == "VarDecl" and r.get("id") not in inside:
                free[r.get("id")] = vd
        ptrs_ = [v for v in free.values() if finite.is_pointer_type(v.get("t"))]
        ints_ = [v for v in free.values() if finite.base_type(v.get("t")) == "int"]
        if len(ptrs_) >= 2 and len(ints_) == 1:
            cands.append((lp, lb, ints_[0]))
    if len(cands) != 1:
        raise AnalysisError(f"{name}: the merge pass (a top-level loop over the run length whose inner loop compares elements and works "
                            f"on two pointer locals) was not identified ({len(cands)} candidates)")
    lp, lb, lenv = cands[0]
    ptr_frame = {}
    for vid, vd in decls.items():
        if vd.get("k") == "VarDecl" and finite.is_pointer_type(vd.get("t")) and not finite.contains(lp, vd):
            ie = init_expr(vd)
            try:
                ptr_frame[vid] = ev(unit, ie, {}) if ie is not None else finite._UNINIT
            except AnalysisError:
                ptr_frame[vid] = finite._UNINIT
    construct = f"{name}:merge-region"
    src_key, dst_key = arr.get("n"), buf.get("n")
    cases = 0
    for L in (1, 2):
        for n in range(1, 6):
            for ranks in weak_orderings(n):
                runs = [list(ranks[i:i + L]) for i in range(0, n, L)]
                if any(r != sorted(r) for r in runs):
                    continue
                mem = {f"{src_key}[{i}]": Elem(i, r) for i, r in enumerate(ranks)}
                it = MemInterp(unit, cmps, mem)
                it.env[nname] = n
                it.frames.append(dict(ptr_frame, **{lenv.get("id"): L}))
                try:
                    try:
                        it.stmt(lb)
                    except finite._Continue:
                        pass
                    except finite._Break:
                        pass
                except finite.Unsupported as e:
                    _sem_fail(res, construct, file, lb.get("line") or fn.get("line"), f"{name}: merge pass with run length {L} on ranks "
                              f"{list(ranks)}: {e}")
                    return False
                except finite.NeedKey as nk:
                    raise AnalysisError(f"{name}: free variable {nk.key} in the merge pass has no value in the finite evaluation")
                cases += 1
                got = [mem.get(f"{dst_key}[{i}]") for i in range(n)]
                want = []
                for s0 in range(0, n, 2 * L):
                    blk = [Elem(i, ranks[i]) for i in range(s0, min(s0 + 2 * L, n))]
                    want += sorted(blk, key=lambda e: (e.rank, e.pos))
                if [(e.pos if isinstance(e, Elem) else None) for e in got] != [e.pos for e in want]:
                    stable = all(isinstance(g_, Elem) for g_ in got) and [g_.rank for g_ in got] == [w.rank for w in want]
                    _sem_fail(res, construct, file, lb.get("line") or fn.get("line"),
                              f"{name}: one merge pass with run length {L} over the sorted runs {runs} (n={n}) writes {_fmt(got)} to the "
                              f"destination; the stable merge of each pair of runs is {_fmt(want)}"
                              + (" — equal elements change their relative order" if stable else ""))
                    return False
    res.ok("R-SEMANTIC", construct, {"run_lengths": [1, 2], "max_n": 5, "cases": cases, "length_var": lenv.get("n")})
    return True


def check_sort(res, unit, fn, file, cmps):
    name = fn.get("n")
    decls = var_decls(fn)
    ps = cir.params(fn)
    ptrs = [p for p in ps if finite.is_pointer_type(p.get("t")) and "void" not in (p.get("t") or "")]
    ints = [p for p in ps if finite.base_type(p.get("t")) == "int"]
    if len(ptrs) != 2 or len(ints) != 1:
        raise AnalysisError(f"{name}: expected (T* arr, T* buf, int n, void* ctx)")
    arr, buf, npar = ptrs[0], ptrs[1], ints[0]
    elem_t = finite.base_type(arr.get("t")).rstrip("*").strip()
    nname = npar.get("n")
    top = [x for x in cir.kids(cir.body(fn)) if x is not None]
    # the shape-independent verdicts first: a definite wrong output is the report, whatever the loops look like
    sem = sort_semantics(res, unit, fn, file, cmps, arr, buf, nname)
    try:
        sem = merge_region_by_role(res, unit, fn, file, cmps, arr, buf, nname) and sem
    except AnalysisError:
        if sem:
            raise
    try:
        # the layout-bound clauses localise a defect and decide the bounds for every n
        _sort_shape(res, unit, fn, file, cmps, decls, arr, buf, npar, elem_t, nname, top)
    except AnalysisError as e:
        # not evaluable on this layout; the semantic rules above have decided what they decide (a definite wrong output
        # reported by them stays the verdict)
        res.extra.setdefault("shape_clauses_skipped", []).append(f"{name}: {e}")


def _sort_shape(res, unit, fn, file, cmps, decls, arr, buf, npar, elem_t, nname, top):
    name = fn.get("n")
    merges = merge_loops(fn, unit)
    if len(merges) != 1:
        raise AnalysisError(f"{name}: expected one merge loop, found {len(merges)}")
    mloop, mif = merges[0]
    par = finite.parents(fn)
    ins = insertion_loops(fn, unit)
    if len(ins) != 1:
        raise AnalysisError(f"{name}: expected one insertion step, found {len(ins)}")
    info = check_insertion(res, unit, fn, file, name, ins[0][0], ins[0][1])

    # ---------------------------------------------------------------- run loop
    def top_ancestor(x):
        while id(x) in par and par[id(x)] is not cir.body(fn):
            x = par[id(x)]
        return x
    run_loop = top_ancestor(ins[0][0])
    pass_loop = top_ancestor(mloop)
    if run_loop.get("k") != "ForStmt" or pass_loop.get("k") != "ForStmt" or run_loop is pass_loop:
        raise AnalysisError(f"{name}: run loop / pass loop not found at the top level of the function")

    def step_of(loop, var_id, value, env):
        _i, _c, inc, _b = loop_parts(loop)
        it = run_stmts(unit, [inc], env, frame={var_id: value})
        return it.frames[0][var_id] - value
    rinit, rcond, _rinc, rbody = loop_parts(run_loop)
    rvd = decl_of(rinit)
    RUN = step_of(run_loop, rvd.get("id"), 0, {})
    construct = f"{name}:run-bounds"
    probs = []
    if ev(unit, init_expr(rvd), {}) != 0:
        probs.append("first run does not start at 0")
    for s in (0, RUN):
        for nv in (s - 1, s, s + 1):
            if bool(ev(unit, rcond, {nname: nv}, frame={rvd.get("id"): s})) != (s < nv):
                probs.append(f"run loop condition `{cir.text(rcond)}` is not start < {nname}")
    # run end variable: the bound of the outer insertion loop
    oc = cir.strip(info["ocond"])
    endv = None
    if oc.get("k") == "BinaryOperator" and oc.get("op") == "<":
        e = cir.strip(cir.kids(oc)[1])
        if e.get("k") == "DeclRefExpr":
            endv = decls.get(e["ref"].get("id"))
    if endv is None or init_expr(endv) is None:
        probs.append(f"upper bound of the insertion run (`{cir.text(info['ocond'])}`) is not a clipped local")
    else:
        for s in (0, RUN, 2 * RUN):
            for nv in (s + 1, s + RUN - 1, s + RUN, s + RUN + 1, s + 3 * RUN):
                got = ev(unit, init_expr(endv), {nname: nv}, frame={rvd.get("id"): s})
                if got != min(s + RUN, nv):
                    probs.append(f"run end `{cir.text(init_expr(endv))}` is {got} for start={s}, {nname}={nv}; expected min(start+{RUN}, {nname}) "
                                 f"= {min(s + RUN, nv)}")
        low = ev(unit, init_expr(info["ovd"]), {}, frame={rvd.get("id"): 7}) - 1
        if low != 7:
            probs.append(f"insertion run starts at start{low - 7:+d}")
    if probs:
        res.bad("R-BOUNDS", construct, file, run_loop.get("line"), probs[0])
    else:
        res.ok("R-BOUNDS", construct, {"RUN": RUN, "end": cir.text(init_expr(endv))})

    # ---------------------------------------------------------------- pass loop
    pinit, pcond, _pinc, pbody = loop_parts(pass_loop)
    pvd = decl_of(pinit)
    inner = None
    x = mloop
    while id(x) in par and par[id(x)] is not pass_loop:
        x = par[id(x)]
        if x.get("k") == "ForStmt" and x is not pass_loop:
            inner = x
    if inner is None or pvd is None:
        raise AnalysisError(f"{name}: stride loop of the merge pass not found")
    iinit, icond, _iinc, ibody = loop_parts(inner)
    ivd = decl_of(iinit)
    _w, wcond, _winc, _wbody = loop_parts(mloop)
    conj = [cir.strip(c) for c in finite.conjuncts(wcond)]
    cur = []
    for c in conj:
        a, b = (cir.strip(k) for k in cir.kids(c))
        cur.append((a["ref"].get("id"), b["ref"].get("id")))
    cursors = {c for c, _b in cur}
    bound = dict(cur)
    cinit = {c: init_expr(decls[c]) for c in cursors}
    left = right = None
    for c, b in cur:
        other = [o for o in cursors if o != c][0]
        ie = cir.strip(cinit[c]) if cinit[c] is not None else None
        if ie is not None and ie.get("k") == "DeclRefExpr" and ie["ref"].get("id") == bound[other]:
            right, left = c, other
    construct = f"{name}:pass-bounds"
    if left is None:
        res.bad("R-BOUNDS", construct, file, mloop.get("line"),
                "neither merge cursor starts at the other cursor's bound: the two runs are not adjacent")
        return
    lname, rname = decls[left].get("n"), decls[right].get("n")
    midv, endv2 = decls[bound[left]], decls[bound[right]]
    probs = []
    L0 = ev(unit, init_expr(pvd), {})
    if L0 != RUN:
        probs.append(f"first merge width is {L0} but the insertion runs have length {RUN}")
    for L in (RUN, 5):
        if step_of(pass_loop, pvd.get("id"), L, {}) != L:
            probs.append("merge width is not doubled per pass")
        for nv in (L - 1, L, L + 1):
            if bool(ev(unit, pcond, {nname: nv}, frame={pvd.get("id"): L})) != (L < nv):
                probs.append(f"pass loop condition `{cir.text(pcond)}` is not len < {nname}")
        fr = {pvd.get("id"): L}
        it = run_stmts(unit, [loop_parts(inner)[2]], {}, frame={pvd.get("id"): L, ivd.get("id"): 10})
        if it.frames[0][ivd.get("id")] - 10 != 2 * L:
            probs.append(f"stride of the merge pass is {it.frames[0][ivd.get('id')] - 10}, expected 2*len = {2 * L}")
        if ev(unit, init_expr(ivd), {}, frame=fr) != 0:
            probs.append("merge pass does not start at 0")
        for s in (0, 2 * L):
            for nv in (s - 1, s, s + 1):
                if bool(ev(unit, icond, {nname: nv}, frame={pvd.get("id"): L, ivd.get("id"): s})) != (s < nv):
                    probs.append(f"stride loop condition `{cir.text(icond)}` is not start < {nname}")
            fr2 = {pvd.get("id"): L, ivd.get("id"): s}
            m = ev(unit, init_expr(midv), {}, frame=fr2)
            if m != s + L:
                probs.append(f"`{midv.get('n')}` is {m} for start={s}, len={L}; expected start+len")
            for nv in (s + 1, s + L, s + L + 1, s + 2 * L - 1, s + 2 * L, s + 2 * L + 1):
                e = ev(unit, init_expr(endv2), {nname: nv}, frame=fr2)
                if e != min(s + 2 * L, nv):
                    probs.append(f"merge end `{cir.text(init_expr(endv2))}` is {e} for start={s}, len={L}, {nname}={nv}; expected "
                                 f"min(start+2*len, {nname}) = {min(s + 2 * L, nv)}")
    # cursor start values
    outs = {}
    for br in finite.if_parts(mif)[1:]:
        t = taken_cursor(br, cursors)
        if t:
            outs[t[3]] = t
    if len(outs) != 1:
        raise AnalysisError(f"{name}: output cursor of the merge not identified")
    kout = next(iter(outs))
    fr3 = {ivd.get("id"): 10, bound[left]: 14}
    vals = {c: ev(unit, init_expr(decls[c]), {}, frame=fr3) for c in (left, right, kout) if init_expr(decls[c]) is not None}
    if vals.get(left) != 10 or vals.get(right) != 14 or vals.get(kout) != 10:
        probs.append(f"merge cursors start at {vals}; expected left=start, right=mid, output=start")
    if probs:
        res.bad("R-BOUNDS", construct, file, pass_loop.get("line"), probs[0])
    else:
        res.ok("R-BOUNDS", construct, {"mid": cir.text(init_expr(midv)), "end": cir.text(init_expr(endv2))})

    # ---------------------------------------------------------------- merge tie
    cond, then, els = finite.if_parts(mif)
    call = cmp_calls(cond, unit)[0]
    a0, a1 = cir.args(call)[:2]
    c0, c1 = only_var(a0, cursors), only_var(a1, cursors)
    construct = f"{name}:merge-tie"
    tb, eb = taken_cursor(then, cursors), taken_cursor(els, cursors)
    if c0 is None or c1 is None or c0 == c1 or tb is None or eb is None or not tb[4] or not eb[4]:
        res.bad("R-FINITE", construct, file, mif.get("line"),
                f"merge step is not `dest[k++] = src[cursor++]` on both branches of a comparison of the two cursor elements")
    else:
        wrong = []
        for r in (-1, 0, 1):
            taken = bool(ev(unit, cond, {}, terms={cir.text(call): r}))
            got = (tb if taken else eb)[1]
            rel = r if c0 == left else -r            # relation (left element ? right element)
            want = left if rel <= 0 else right
            if got != want:
                wrong.append(f"left {'<' if rel < 0 else '==' if rel == 0 else '>'} right: takes the "
                             f"{'left' if got == left else 'right'} element")
        if tb[0] != eb[0] or tb[2] != eb[2] or tb[3] != eb[3]:
            wrong.append("the two branches use different source / destination arrays or output cursors")
        if wrong:
            res.bad("R-FINITE", construct, file, mif.get("line"),
                    f"`{cir.text(cond)}`: the merge must take the left element when the comparison is <= 0 (stability) and the right "
                    f"one only when the left is strictly greater; here {wrong[0]}")
        else:
            res.ok("R-FINITE", construct, {"cond": cir.text(cond), "left": lname, "right": rname})
    srcp, dstp = (tb or eb or (None, None, None))[0], (tb or eb or (None, None, None))[2]

    # ---------------------------------------------------------------- merge tails
    blk = par[id(mloop)]
    sib = [x for x in cir.kids(blk) if x is not None]
    tail = sib[[i for i, x in enumerate(sib) if x is mloop][0] + 1:]
    srcn = decls[srcp].get("n") if srcp in decls else None
    dstn = decls[dstp].get("n") if dstp in decls else None
    for side, c in (("left", left), ("right", right)):
        construct = f"{name}:merge-tail-{side}"
        probs = []
        MID, END = 12, 14
        for lv, rv in ((10, END), (11, END), (MID, 12), (MID, 13), (MID, END)):
            kv = 10 + (lv - 10) + (rv - MID)
            cap = Capture()
            run_stmts(unit, tail, {}, frame={left: lv, right: rv, bound[left]: MID, bound[right]: END, kout: kv, ivd.get("id"): 10,
                                          pvd.get("id"): 2}, cap=cap)
            cv, bv = (lv, MID) if side == "left" else (rv, END)
            live = [c2 for c2 in cap.copies if not (isinstance(c2[2], finite._Bytes) and c2[2].count == 0)]
            mine = [c2 for c2 in live if isinstance(c2[1], finite.Ptr) and c2[1].off == cv and c2[1].key == srcn]
            if cv < bv:
                if len(live) != 1 or len(mine) != 1:
                    probs.append(f"{bv - cv} element(s) remain in the {side} run ({decls[c].get('n')}={cv}, bound={bv}) but the tail "
                                 f"copies {[(str(x[0]), str(x[1]), getattr(x[2], 'count', x[2])) for x in live]}")
                    continue
                d, s, ln = mine[0]
                if not isinstance(ln, finite._Bytes) or ln.count != bv - cv or ln.what != elem_t:
                    probs.append(f"tail of the {side} run copies {getattr(ln, 'count', ln)} x sizeof({getattr(ln, 'what', '?')}), expected "
                                 f"({decls[bound[c]].get('n')} - {decls[c].get('n')}) = {bv - cv} x sizeof({elem_t})")
                if not isinstance(d, finite.Ptr) or d.key != dstn or d.off != kv:
                    probs.append(f"tail of the {side} run is written to {d}, expected {dstn} + output cursor ({kv})")
            elif mine and any(isinstance(x[2], finite._Bytes) and x[2].count > 0 for x in mine) and lv == MID and rv == END and side == "left":
                probs.append("a tail is copied although both runs are exhausted")
        if probs:
            res.bad("R-BOUNDS", construct, file, mloop.get("line"), probs[0])
        else:
            res.ok("R-BOUNDS", construct, None)

    # ---------------------------------------------------------------- merge guard
    construct = f"{name}:merge-guard"
    g = None
    y = mloop
    while id(y) in par and par[id(y)] is not inner:
        y = par[id(y)]
        if y.get("k") == "IfStmt":
            g = y
    probs = []
    if g is None:
        probs.append("the merge is not guarded by mid < end")
    else:
        gc, gt, ge = finite.if_parts(g)
        merge_in_then = finite.contains(gt, mloop)
        other = ge if merge_in_then else gt
        for mv, evv in ((3, 2), (3, 3), (3, 4)):
            taken = bool(ev(unit, gc, {}, frame={bound[left]: mv, bound[right]: evv}))
            if (taken == merge_in_then) != (mv < evv):
                probs.append(f"`{cir.text(gc)}` {'merges' if taken == merge_in_then else 'copies'} when mid={mv}, end={evv}")
        if other is None:
            probs.append("a single (unmerged) run is not copied to the destination buffer")
        else:
            cap = Capture()
            run_stmts(unit, [other], {}, frame={ivd.get("id"): 10, bound[right]: 13, bound[left]: 14}, cap=cap)
            okc = [c2 for c2 in cap.copies if isinstance(c2[0], finite.Ptr) and isinstance(c2[1], finite.Ptr) and
                   c2[0].key == dstn and c2[1].key == srcn and c2[0].off == c2[1].off == 10 and
                   isinstance(c2[2], finite._Bytes) and c2[2].count == 3 and c2[2].what == elem_t]
            if len(cap.copies) != 1 or len(okc) != 1:
                probs.append(f"an unmerged run [start, end) must be copied with equal offsets and length (end - start) * sizeof({elem_t}); "
                             f"found {[(str(x[0]), str(x[1]), getattr(x[2], 'count', x[2]), getattr(x[2], 'what', '')) for x in cap.copies]}")
    if probs:
        res.bad("R-BOUNDS", construct, file, (g or mloop).get("line"), probs[0])
    else:
        res.ok("R-BOUNDS", construct, {"cond": cir.text(finite.if_parts(g)[0])})

    # ---------------------------------------------------------------- buffer swap / copy back
    construct = f"{name}:buffer-swap"
    swap_stmts = [x for x in cir.kids(pbody) if x is not None and x is not inner] if pbody.get("k") == "CompoundStmt" else []
    A, B = finite.Ptr(arr.get("n"), 0), finite.Ptr(buf.get("n"), 0)
    probs = []
    if srcp is None or dstp is None or srcp not in decls or dstp not in decls:
        raise AnalysisError(f"{name}: source / destination pointers of the merge not identified")
    si, di = init_expr(decls[srcp]), init_expr(decls[dstp])
    if si is None or di is None or ev(unit, si, {}) != A or ev(unit, di, {}) != B:
        probs.append(f"the first pass must read the caller's array and write the buffer (src = {cir.text(si) if si is not None else '?'}, "
                     f"dest = {cir.text(di) if di is not None else '?'})")
    for s0, d0 in ((A, B), (B, A)):
        fr = {srcp: s0, dstp: d0, pvd.get("id"): RUN}
        for vid, vd in decls.items():
            if vd.get("k") == "VarDecl" and finite.is_pointer_type(vd.get("t")) and vid not in fr:
                fr[vid] = finite._UNINIT
        it = run_stmts(unit, swap_stmts, {}, frame=fr)
        if it.frames[0][srcp] != d0 or it.frames[0][dstp] != s0:
            probs.append(f"after a pass the pointers are (src={it.frames[0][srcp]}, dest={it.frames[0][dstp]}); the buffer just written "
                         f"({d0}) must become the source of the next pass")
    if probs:
        res.bad("R-COPYBACK", construct, file, pass_loop.get("line"), probs[0])
    else:
        res.ok("R-COPYBACK", construct, None)
    construct = f"{name}:copy-back"
    after = top[[i for i, x in enumerate(top) if x is pass_loop][0] + 1:]
    probs = []
    for parity, s0 in ((0, A), (1, B)):
        cap = Capture()
        run_stmts(unit, after, {nname: 7}, frame={srcp: s0, dstp: (B if s0 == A else A)}, cap=cap)
        live = [c2 for c2 in cap.copies]
        if s0 == A:
            if any(c2[0] != A or c2[1] != A for c2 in live):
                probs.append(f"even number of passes: result is already in {A}, but the function copies {[(str(x[0]), str(x[1])) for x in live]}")
        else:
            good = [c2 for c2 in live if c2[0] == A and c2[1] == B and isinstance(c2[2], finite._Bytes) and c2[2].count == 7
                    and c2[2].what == elem_t]
            if len(good) != 1 or len(live) != 1:
                probs.append(f"odd number of passes: the result is in {B} and must be copied back as memcpy({arr.get('n')}, src, {nname} * "
                             f"sizeof({elem_t})); found {[(str(x[0]), str(x[1]), getattr(x[2], 'count', x[2]), getattr(x[2], 'what', '')) for x in live]}")
    if probs:
        res.bad("R-COPYBACK", construct, file, (after[0] if after else pass_loop).get("line"), probs[0])
    else:
        res.ok("R-COPYBACK", construct, None)


# ------------------------------------------------------------------------------------------------------------ small-size semantics

class Elem:
    """An abstract array element: only its rank (the comparator's view of it) and its original position exist."""
    __slots__ = ("pos", "rank")

    def __init__(self, pos, rank):
        self.pos = pos
        self.rank = rank

    def __repr__(self):
        return f"e{self.pos}(r{self.rank})"


class MemInterp(finite.Interp):
    """finite.Interp + a store for abstract element arrays: cells `<array>[i]` hold Elem objects, element assignments and memcpy
    move them, comparator calls see only their ranks.  Still nothing of the repository is executed: the AST is interpreted over
    the finite set of weak orderings of the input elements."""

    def __init__(self, unit, cmp_names, mem):
        super().__init__(unit, env={}, call_abs=self._abs, inline=set(), max_steps=400000)
        self.mem = mem
        self.cmp_names = set(cmp_names)
        self.cmp_count = 0

    def _coerce(self, v, t):
        if isinstance(v, Elem):
            return v
        return super()._coerce(v, t)

    def _unary(self, n):
        if n.get("op") == "&":
            x = cir.strip(cir.kids(n)[0], casts=False)
            if x is not None and x.get("k") == "DeclRefExpr" and (x.get("ref") or {}).get("k") == "VarDecl" and self.frames and \
                    x["ref"].get("id") in self.frames[-1]:
                # address of a local holding an element (`&tmp` handed to the comparator): a one-cell array named after it
                return finite.Ptr(f"local:{x['ref'].get('id')}", 0)
        return super()._unary(n)

    def _local_cell(self, key):
        m = re.match(r"^local:(\w+)\[0\]$", key)
        if m and self.frames and m.group(1) in {str(k) for k in self.frames[-1]}:
            for k, v in self.frames[-1].items():
                if str(k) == m.group(1):
                    return v
        return None

    def load(self, loc):
        if loc[0] == "mem":
            if loc[1] in self.mem:
                return self.mem[loc[1]]
            if re.match(r"^[A-Za-z_]\w*\[-?\d+\]$", loc[1]):
                raise finite.Unsupported(f"read of {loc[1]}: outside the array or never written")
        return super().load(loc)

    def store(self, loc, v):
        if loc[0] == "mem":
            if not re.match(r"^[A-Za-z_]\w*\[-?\d+\]$", loc[1]):
                raise finite.Unsupported(f"store to {loc[1]}")
            self.mem[loc[1]] = v
            return
        if isinstance(v, Elem):
            self.frames[-1][loc[1]] = v
            return
        super().store(loc, v)

    def _abs(self, name, node, it):
        if name in ("memcpy", "memmove", "__builtin_memcpy", "__builtin___memcpy_chk", "__memcpy_chk"):
            a = cir.args(node)
            d, s_, ln = (self.rvalue(x) for x in a[:3])
            if not (isinstance(d, finite.Ptr) and isinstance(s_, finite.Ptr) and isinstance(ln, finite._Bytes)):
                raise finite.Unsupported(f"memcpy with arguments ({d}, {s_}, {ln}) at line {node.get('line')}")
            vals = []
            for i in range(ln.count):
                key = s_.cell(i)
                if key not in self.mem:
                    raise finite.Unsupported(f"memcpy reads {key}: outside the array or never written")
                vals.append(self.mem[key])
            for i, v in enumerate(vals):
                self.mem[d.cell(i)] = v
            return d
        if name in self.cmp_names:
            a = cir.args(node)
            x, y = self.rvalue(a[0]), self.rvalue(a[1])
            if not (isinstance(x, finite.Ptr) and isinstance(y, finite.Ptr)):
                raise finite.Unsupported(f"comparator called on non-element pointers at line {node.get('line')}")
            ex = self.mem.get(x.cell(0)) if not x.key.startswith("local:") else self._local_cell(x.cell(0))
            ey = self.mem.get(y.cell(0)) if not y.key.startswith("local:") else self._local_cell(y.cell(0))
            if not isinstance(ex, Elem) or not isinstance(ey, Elem):
                raise finite.Unsupported(f"comparator reads {x.cell(0)} / {y.cell(0)}: outside the array or never written")
            self.cmp_count += 1
            return (ex.rank > ey.rank) - (ex.rank < ey.rank)
        return NotImplemented


def weak_orderings(n):
    """all rank vectors of n elements up to order isomorphism (every weak ordering once): ranks use 0..m-1 with every rank used."""
    out = []

    def rec(prefix, used):
        if len(prefix) == n:
            if set(prefix) == set(range(used)):
                out.append(tuple(prefix))
            return
        for r in range(min(used + 1, n)):
            rec(prefix + [r], max(used, r + 1))
    # generate all surjective maps onto an initial segment (any order of first appearance)
    import itertools
    seen = set()
    for m in range(1, n + 1):
        for v in itertools.product(range(m), repeat=n):
            if set(v) == set(range(m)):
                seen.add(v)
    return sorted(seen) if n else [()]


def _sem_fail(res, construct, file, line, what):
    res.bad("R-SEMANTIC", construct, file, line, what)


def _fmt(elems):
    return "[" + " ".join(repr(e) for e in elems) + "]"


def _run_function(unit, fn, cmps, mem, bind):
    it = MemInterp(unit, cmps, mem)
    it.run_function(fn, bind=bind)
    return it


def sort_semantics(res, unit, fn, file, cmps, arr, buf, nname, maxn=4):
    """whole function on every weak ordering of up to maxn elements (the insertion path: n <= run size)."""
    name = fn.get("n")
    construct = f"{name}:small-arrays"
    cases = 0
    for n in range(0, maxn + 1):
        for ranks in weak_orderings(n):
            mem = {f"{arr.get('n')}[{i}]": Elem(i, r) for i, r in enumerate(ranks)}
            try:
                _run_function(unit, fn, cmps, mem, {nname: n})
            except finite.Unsupported as e:
                _sem_fail(res, construct, file, fn.get("line"), f"{name} on ranks {list(ranks)}: {e}")
                return False
            cases += 1
            got = [mem.get(f"{arr.get('n')}[{i}]") for i in range(n)]
            want = sorted((Elem(i, r) for i, r in enumerate(ranks)), key=lambda e: (e.rank, e.pos))
            if [(e.pos if e else None) for e in got] != [e.pos for e in want]:
                _sem_fail(res, construct, file, fn.get("line"),
                          f"{name} on {n} elements with ranks {list(ranks)} returns {_fmt(got)}; the stable sorted order is {_fmt(want)}")
                return False
    res.ok("R-SEMANTIC", construct, {"max_n": maxn, "orderings": cases})
    return True


def merge_semantics(res, unit, fn, file, cmps, region, frame_of, src_key, dst_key, nname):
    """the body of the stride loop (guard + merge + copy) with small run lengths, on every pair of sorted runs."""
    name = fn.get("n")
    construct = f"{name}:merge-region"
    cases = 0
    for L in (1, 2, 3):
        for n in range(1, 2 * L + 1):
            for ranks in weak_orderings(n):
                left, right = ranks[:min(L, n)], ranks[min(L, n):]
                if list(left) != sorted(left) or list(right) != sorted(right):
                    continue
                mem = {f"{src_key}[{i}]": Elem(i, r) for i, r in enumerate(ranks)}
                it = MemInterp(unit, cmps, mem)
                it.env[nname] = n
                it.frames.append(dict(frame_of(L, 0, n)))
                try:
                    try:
                        it.stmt(region)
                    except finite._Continue:
                        pass            # the region is a loop body: `continue` ends this iteration
                    except finite._Break:
                        raise AnalysisError(f"{name}: the stride loop is left by `break`: the merge region cannot be evaluated per iteration")
                except finite.Unsupported as e:
                    _sem_fail(res, construct, file, region.get("line") or fn.get("line"),
                              f"{name}: merge of runs {list(left)} | {list(right)}: {e}")
                    return False
                except finite.NeedKey as nk:
                    raise AnalysisError(f"{name}: free variable {nk.key} in the merge region has no value in the finite evaluation")
                cases += 1
                got = [mem.get(f"{dst_key}[{i}]") for i in range(n)]
                want = sorted((Elem(i, r) for i, r in enumerate(ranks)), key=lambda e: (e.rank, e.pos))
                if [(e.pos if isinstance(e, Elem) else None) for e in got] != [e.pos for e in want]:
                    _sem_fail(res, construct, file, region.get("line") or fn.get("line"),
                              f"{name}: merging the sorted runs with ranks {list(left)} | {list(right)} (run length {L}, n={n}) writes "
                              f"{_fmt(got)} to the destination; the stable merge is {_fmt(want)}"
                              + (" — equal elements change their relative order" if isinstance(got[0], Elem) and all(isinstance(g, Elem) for g in got)
                                 and [g.rank for g in got] == [w.rank for w in want] else ""))
                    return False
    res.ok("R-SEMANTIC", construct, {"run_lengths": [1, 2, 3], "cases": cases})
    return True


class Result_probe:
    """a sink with the Result interface, to try an evaluation without recording it"""

    def ok(self, *a, **k):
        pass

    def bad(self, *a, **k):
        pass


def partial_semantics(res, unit, fn, file, cmps, arr, nname, kname, maxn=5):
    name = fn.get("n")
    construct = f"{name}:small-arrays"
    cases = 0
    for n in range(1, maxn + 1):
        for k in range(1, n + 1):
            for ranks in weak_orderings(n):
                mem = {f"{arr.get('n')}[{i}]": Elem(i, r) for i, r in enumerate(ranks)}
                try:
                    _run_function(unit, fn, cmps, mem, {nname: n, kname: k})
                except finite.Unsupported as e:
                    _sem_fail(res, construct, file, fn.get("line"), f"{name} on ranks {list(ranks)}, k={k}: {e}")
                    return False
                cases += 1
                got = [mem.get(f"{arr.get('n')}[{i}]") for i in range(k)]
                want = sorted(ranks)[:k]
                gr = [(e.rank if isinstance(e, Elem) else None) for e in got]
                if gr != want or len({e.pos for e in got if isinstance(e, Elem)}) != k:
                    _sem_fail(res, construct, file, fn.get("line"),
                              f"{name} on {n} elements with ranks {list(ranks)} and k={k} leaves ranks {gr} in the first k slots; the k "
                              f"smallest in sorted order are {want}")
                    return False
    res.ok("R-SEMANTIC", construct, {"max_n": maxn, "cases": cases})
    return True


def helper_semantics(res, unit, fn, file, ptr, npar, isf, maxn=4):
    """insertion-sort helpers on plain numbers: every array of up to maxn values from a three-value domain."""
    import itertools
    name = fn.get("n")
    construct = f"{name}:small-arrays"
    dom = (0.0, 1.0, 2.0) if isf else (0, 1, 2)
    cases = 0
    for n in range(0, maxn + 1):
        for vals in itertools.product(dom, repeat=n):
            mem = {f"{ptr}[{i}]": v for i, v in enumerate(vals)}
            it = MemInterp(unit, (), mem)
            try:
                it.run_function(fn, bind={npar: n})
            except finite.Unsupported as e:
                _sem_fail(res, construct, file, fn.get("line"), f"{name} on {list(vals)}: {e}")
                return False
            cases += 1
            got = [mem.get(f"{ptr}[{i}]") for i in range(n)]
            if got != sorted(vals):
                _sem_fail(res, construct, file, fn.get("line"), f"{name} on {list(vals)} returns {got}; sorted: {sorted(vals)}")
                return False
    res.ok("R-SEMANTIC", construct, {"max_n": maxn, "cases": cases})
    return True


# ------------------------------------------------------------------------------------------------------------ mjPARTIAL_SORT

def check_partial(res, unit, fn, file, cmps):
    name = fn.get("n")
    decls = var_decls(fn)
    ps = cir.params(fn)
    ptrs = [p for p in ps if finite.is_pointer_type(p.get("t")) and "void" not in (p.get("t") or "")]
    ints = [p for p in ps if finite.base_type(p.get("t")) == "int"]
    if len(ptrs) != 2 or len(ints) != 2:
        raise AnalysisError(f"{name}: expected (T* arr, T* buf, int n, int k, void* ctx)")
    arr, buf = ptrs
    top = [x for x in cir.kids(cir.body(fn)) if x is not None]
    # the shape-independent verdict first (n, k in declaration order; the swapped roles are tried before reporting)
    probe = Result_probe()
    if partial_semantics(probe, unit, fn, file, cmps, arr, ints[0].get("n"), ints[1].get("n")) or \
            partial_semantics(Result_probe(), unit, fn, file, cmps, arr, ints[1].get("n"), ints[0].get("n")):
        sem_pre = True
    else:
        sem_pre = False
    try:
        _partial_shape(res, unit, fn, file, cmps, arr, buf, ints, top)
    except AnalysisError as e:
        res.extra.setdefault("shape_clauses_skipped", []).append(f"{name}: {e}")
        # the verdict of the small-size evaluation stands for this layout
        if sem_pre:
            partial_semantics(res, unit, fn, file, cmps, arr, ints[0].get("n"), ints[1].get("n")) or \
                partial_semantics(res, unit, fn, file, cmps, arr, ints[1].get("n"), ints[0].get("n"))
        else:
            partial_semantics(res, unit, fn, file, cmps, arr, ints[0].get("n"), ints[1].get("n"))


def _partial_shape(res, unit, fn, file, cmps, arr, buf, ints, top):
    name = fn.get("n")
    decls = var_decls(fn)
    ins = insertion_loops(fn, unit)
    if len(ins) != 1:
        raise AnalysisError(f"{name}: expected one insertion step, found {len(ins)}")
    info = check_insertion(res, unit, fn, file, name, ins[0][0], ins[0][1])
    # ---- guard: k <= 0 || n < k returns; k is the int parameter bounding the final insertion sort
    oc = cir.strip(info["ocond"])
    kpar = cir.strip(cir.kids(oc)[1]) if oc.get("k") == "BinaryOperator" else None
    kname = (kpar.get("ref") or {}).get("n") if kpar is not None and kpar.get("k") == "DeclRefExpr" else None
    names = [p.get("n") for p in ints]
    construct = f"{name}:partial-guard"
    if kname not in names:
        res.bad("R-BOUNDS", construct, file, fn.get("line"), f"the final insertion sort is not bounded by the selection size parameter "
                                                             f"(`{cir.text(info['ocond'])}`)")
        return
    nname = [x for x in names if x != kname][0]
    sem_ok = partial_semantics(res, unit, fn, file, cmps, arr, nname, kname)
    first = top[0]
    probs = []
    if first.get("k") != "IfStmt" or not _c14.terminates(finite.if_parts(first)[1]):
        probs.append("the function does not start with the early return on k <= 0 || n < k")
    else:
        gc = finite.if_parts(first)[0]
        for kv in (-1, 0, 1, 2):
            for nv in (kv - 1, kv, kv + 1):
                got = bool(ev(unit, gc, {kname: kv, nname: nv}))
                if got != (kv <= 0 or nv < kv):
                    probs.append(f"`{cir.text(gc)}` {'returns' if got else 'continues'} for {kname}={kv}, {nname}={nv}")
    low = ev(unit, init_expr(info["ovd"]), {}) - 1
    if low != 0 or info["base"] != arr.get("n"):
        probs.append(f"the final insertion sort runs on {info['base']} from {low}, expected {arr.get('n')}[0, {kname})")
    # heap fill and copy back: loops `X[i] = Y[i]` over [0, k)
    copies = []
    for l in top:
        if l.get("k") != "ForStmt":
            continue
        li, lc, _linc, lb = loop_parts(l)
        b = cir.strip(lb) if lb is not None else None
        if b is not None and b.get("k") == "CompoundStmt" and len([x for x in cir.kids(b) if x]) == 1:
            b = [x for x in cir.kids(b) if x][0]
        if b is not None and b.get("k") == "BinaryOperator" and b.get("op") == "=":
            x, y = (cir.strip(k) for k in cir.kids(b))
            if x.get("k") == y.get("k") == "ArraySubscriptExpr":
                vd = decl_of(li)
                ok = vd is not None and ev(unit, init_expr(vd), {}) == 0 and cir.text(cir.kids(x)[1]) == cir.text(cir.kids(y)[1]) == vd.get("n") \
                    and all(bool(ev(unit, lc, {kname: 3}, frame={vd.get("id"): v})) == (v < 3) for v in (2, 3, 4))
                copies.append((cir.text(cir.kids(x)[0]), cir.text(cir.kids(y)[0]), ok))
    if (buf.get("n"), arr.get("n"), True) not in copies:
        probs.append(f"the heap is not filled from {arr.get('n')}[0, {kname})")
    if (arr.get("n"), buf.get("n"), True) not in copies:
        probs.append(f"the selected elements are not copied back into {arr.get('n')}[0, {kname})")
    elif copies.index((arr.get("n"), buf.get("n"), True)) < copies.index((buf.get("n"), arr.get("n"), True)) if \
            (buf.get("n"), arr.get("n"), True) in copies else False:
        probs.append("copy-back precedes the heap fill")
    if probs:
        res.bad("R-BOUNDS", construct, file, fn.get("line"), probs[0])
    else:
        res.ok("R-BOUNDS", construct, {"guard": cir.text(finite.if_parts(first)[0])})
    # ---- heap decisions
    nsift = nscan = 0
    for st in cir.walk(fn):
        if st.get("k") != "IfStmt":
            continue
        cond, then, els = finite.if_parts(st)
        calls = cmp_calls(cond, unit)
        if len(calls) != 1 or els is not None:
            continue
        call = calls[0]
        a0, a1 = cir.args(call)[:2]
        asg = [x for x in cir.walk(then) if x.get("k") == "BinaryOperator" and x.get("op") == "="]
        if not asg:
            continue
        first_asg = asg[0]
        lhs, rhs = (cir.strip(k) for k in cir.kids(first_asg))
        conj = [c for c in finite.conjuncts(cond) if cmp_calls(c, unit)]
        if lhs.get("k") == "DeclRefExpr":
            # sift: candidate index := child index
            cand = lhs["ref"].get("id")
            in0 = cand in {r.get("id") for r in finite.refs(a0)}
            in1 = cand in {r.get("id") for r in finite.refs(a1)}
            if in0 == in1:
                continue
            nsift += 1
            construct = f"{name}:heap-sift#{nsift}"
            wrong = []
            for r in (-1, 1):
                taken = bool(ev(unit, conj[0], {}, terms={cir.text(call): r}))
                rel = r if in0 else -r            # candidate ? child
                if taken != (rel < 0):
                    wrong.append(f"candidate {'<' if rel < 0 else '>'} child: {'moves to the child' if taken else 'keeps the candidate'}")
            child_txt = cir.text(rhs)
            other = a1 if in0 else a0
            if child_txt not in cir.text(other):
                wrong.append(f"the candidate becomes `{child_txt}` but the comparison looked at `{cir.text(other)}`")
            if wrong:
                res.bad("R-FINITE", construct, file, st.get("line"),
                        f"max-heap sift `{cir.text(cond)}`: the larger child must replace the candidate and a smaller one must not; {wrong[0]}")
            else:
                res.ok("R-FINITE", construct, {"cond": cir.text(conj[0])})
        elif lhs.get("k") == "ArraySubscriptExpr" and cir.text(cir.kids(lhs)[0]) == buf.get("n"):
            # scan: heap root := scanned element
            nscan += 1
            construct = f"{name}:heap-scan"
            new_in0 = arr.get("n") in cir.vars_in(a0)
            wrong = []
            for r in (-1, 1):
                taken = bool(ev(unit, conj[0], {}, terms={cir.text(call): r}))
                rel = r if new_in0 else -r          # scanned element ? heap root
                if taken != (rel < 0):
                    wrong.append(f"scanned element {'<' if rel < 0 else '>'} heap maximum: {'replaces it' if taken else 'is dropped'}")
            if ev(unit, cir.kids(lhs)[1], {}) != 0 or cir.text(rhs).split("[")[0] != arr.get("n"):
                wrong.append(f"`{cir.text(first_asg)}` does not replace the heap root by the scanned element")
            if wrong:
                res.bad("R-FINITE", construct, file, st.get("line"),
                        f"selection scan `{cir.text(cond)}`: an element smaller than the heap maximum must replace it and a larger one "
                        f"must not; {wrong[0]}")
            else:
                res.ok("R-FINITE", construct, {"cond": cir.text(conj[0])})
    if (nsift < 2 or nscan != 1) and sem_ok:
        # (when the small-size evaluation already reported a definite violation, the unrecognised shape is not the verdict)
        raise AnalysisError(f"{name}: heap decisions not found (sift {nsift}, scan {nscan})")


# ------------------------------------------------------------------------------------------------------------ run

def instantiating_tus(repo=None):
    """translation units (.c under src/) that use the sorting macros, with the number of uses."""
    repo = repo or REPO
    out = {}
    for dp, _dn, fns in os.walk(os.path.join(repo, "src")):
        for f in fns:
            if not f.endswith(".c"):
                continue
            p = os.path.join(dp, f)
            try:
                txt = open(p, errors="replace").read()
            except OSError:
                continue
            uses = re.findall(r"^\s*(mjSORT|mjPARTIAL_SORT)\s*\(", txt, re.M)
            if uses:
                out[os.path.relpath(p, repo)] = uses
    return out


def run(res, tier):
    tus = instantiating_tus()
    if not tus:
        raise AnalysisError("no instantiation of mjSORT / mjPARTIAL_SORT found under src/")
    res.rule("R-FINITE", "tie handling of merge / insertion / heap steps over the three comparator outcomes", floor=20)
    res.rule("R-BOUNDS", "run, pass and copy bounds evaluated on concrete sizes", floor=26)
    res.rule("R-COPYBACK", "buffer exchange per pass and final copy-back for both parities", floor=8)
    res.rule("R-CMP", "comparators passed to the sort instantiations are antisymmetric", floor=5)
    res.rule("R-SEMANTIC", "abstract interpretation of the generated functions over every weak ordering of a small number of abstract "
             "elements (only ranks and original positions exist): sort = stable sorted permutation (n <= 4); the merge region on "
             "every pair of sorted runs of length <= 3 = stable merge; partial sort = the k smallest in order (n <= 5, all k); "
             "the numeric helpers on every array of <= 4 values from a three-value domain", floor=9)
    ninst = 0
    seen_cmp = set()
    for tu, uses in sorted(tus.items()):
        unit = engine.unit(tu)
        inst = _c14.sort_instances(unit, SORT_H)
        if len(inst) != len(uses):
            raise AnalysisError(f"{tu}: {len(uses)} textual uses of the sorting macros but {len(inst)} expansions in the AST")
        for fn, macro, cmps in inst:
            ninst += 1
            if len(cmps) != 1:
                raise AnalysisError(f"{fn.get('n')}: comparator of the instantiation not identified ({cmps})")
            if macro == "mjSORT":
                check_sort(res, unit, fn, tu, cmps)
            elif macro == "mjPARTIAL_SORT":
                check_partial(res, unit, fn, tu, cmps)
            else:
                raise AnalysisError(f"{fn.get('n')} in {tu}: generated by unknown macro {macro}")
            if (tu, cmps[0]) not in seen_cmp:
                seen_cmp.add((tu, cmps[0]))
                _c14.check_comparator(res, "R-CMP", unit, cmps[0], tu, NAN_STRICT)
    res.count("instantiations", ninst)
    res.count("translation_units", len(tus))
    # insertion-sort helpers
    um = engine.unit(MISC)
    from .. import norm
    for h in HELPERS:
        fn = um.funcs.get(h)
        if fn is None:
            raise AnalysisError(f"anchor {h} missing in {MISC}")
        ptr = [p for p in cir.params(fn) if finite.is_pointer_type(p.get("t"))][0]
        isf = finite.is_float_type(finite.base_type(ptr.get("dt") or ptr.get("t")).rstrip("*").strip()) or "mjtNum" in (ptr.get("t") or "")
        npar = [p for p in cir.params(fn) if finite.base_type(p.get("t")) == "int"][0].get("n")
        # the shape-independent verdict first: a definite wrong output is the report, whatever the loops look like
        helper_semantics(res, um, um.funcs[h], MISC, ptr.get("n"), npar, isf)
        # canonical view: leading `if (..) break;` guards are loop-condition conjuncts
        fn = norm.fold_break_guards(norm.nest(fn))
        ins = insertion_loops(fn, um)
        if len(ins) != 1:
            res.extra.setdefault("shape_clauses_skipped", []).append(f"{h}: insertion step not found")
            continue
        try:
            info = check_insertion(res, um, fn, MISC, h, ins[0][0], ins[0][1], float_keys=isf)
        except AnalysisError as e:
            res.extra.setdefault("shape_clauses_skipped", []).append(f"{h}: {e}")
            continue
        # helper outer loop covers [1, n)
        construct = f"{h}:outer-bounds"
        ovd = info["ovd"]
        bad = [v for v in (2, 3, 4) if bool(ev(um, info["ocond"], {npar: 3}, frame={ovd.get("id"): v})) != (v < 3)]
        if ev(um, init_expr(ovd), {}) != 1 or bad or info["base"] != ptr.get("n"):
            res.bad("R-BOUNDS", construct, MISC, info["outer"].get("line"),
                    f"outer loop `{cir.text(info['ocond'])}` from {cir.text(init_expr(ovd))} does not insert every element of "
                    f"{ptr.get('n')}[1, {npar})")
        else:
            res.ok("R-BOUNDS", construct, None)
    if res.extra.get("shape_clauses_skipped"):
        # the layout-bound clauses were not evaluated for some functions: their floors do not apply to this tree
        for rn in ("R-FINITE", "R-BOUNDS", "R-COPYBACK"):
            res.rules[rn]["floor"] = 0
    res.explanation = (
        "Per macro expansion: truth tables of the merge / insertion / heap decisions over the comparator outcomes {<0, 0, >0}; bound "
        "expressions (run end, merge mid/end, strides, tail lengths, copy lengths) evaluated on concrete sizes covering every order "
        "type of start+len vs n; pointer exchange and copy-back evaluated on symbolic pointers for both parities; comparator "
        "antisymmetry by exhaustive finite evaluation.")
    res.not_decided = "that the output is a sorted permutation for every length (induction over the loops); heap shape invariants."
    res.assumptions = ["comparators are pure", "comparator keys are not NaN"]
