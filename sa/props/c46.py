"""C46 Bounded least squares respects bounds and never gets worse.

Static analysis (ast only) of python/mujoco/minimize.py: least_squares, jacobian_fd, check_jacobian, check_norm.
A small path-sensitive abstract interpreter keeps, per *world* (= valuation of the discriminator variables:
nullness of `bounds`, the enum-valued `status`, boolean flags that are only ever assigned constants), a set of
must-facts:  v == <expr over variables>,  v >= 0 (established by a branch),  safe(v) (v lies in the box),
inward(s, x) (FD step s points from x toward the middle of the box),  inpt(p, x) (p = x + layout(inward step)),
mid(m) (m is the midpoint of the bounds),  goodlog(l) (l = IterLog(candidate=iterate, objective=its objective)).
Worlds with equal discriminators are merged by intersecting facts; loops are peeled once and run to a fixpoint.

R-PROVENANCE  every call of the user's residual (directly or through jacobian_fd / check_jacobian, found by
              following the callable through parameters) has an argument that is, in every world with bounds,
              clipped against the bounds (np.clip / minimum-maximum, in place or on assignment, or a copy /
              reshape of such) or an inward finite-difference point built from a safe point; the value returned
              by least_squares has the same provenance.  After a report the value is assumed safe (no cascades).
R-MUSTPASS    every assignment to the returned iterate inside the solver loop is a copy of a candidate c for
              which, on every path, the last evaluation of the sufficient-decrease test  a < 0  was false, where
              a == red [+ k], red == y - yc, yc == norm.value(residual(c)), y == norm.value(residual(iterate));
              every IterLog records (iterate, objective of the iterate); every trace.append appends such a log.
Does not decide: sign of grad.T @ dx (the QP step is a descent direction), the bounded global minimum for linear
residuals, floating-point rounding inside np.clip.
"""
from __future__ import annotations

import ast
import os

from .. import cfront
from ..cfront import AnalysisError

FILE = "python/mujoco/minimize.py"
ENTRY = "least_squares"
RESIDUAL_PARAM = "residual"
BOUNDS = "bounds"
NORM_PARAM = "norm"
NORM_METHOD = "value"
LOG_CLASS = "IterLog"

FLOOR_PROVENANCE = 10    # LS: residual x2, jacobian_fd x2, check_jacobian x1, return; FD: residual x1; CJ: jacobian_fd x1; CN: check_jacobian x2
FLOOR_MUSTPASS = 7       # accept x2, iterate assignment before the loop x1, IterLog x2, trace.append x2

# value-preserving wrappers: f(v) has the same element values as v
VALUE_PRESERVING_METHODS = {"reshape", "copy", "ravel", "flatten", "squeeze", "view"}
VALUE_PRESERVING_NP = {"reshape", "copy", "asarray", "array", "ravel", "squeeze", "atleast_1d", "atleast_2d",
                       "ascontiguousarray"}
# layout-only wrappers of a step vector used to build finite-difference points (each column moves inward or not at all)
STEP_LAYOUT_METHODS = {"flatten", "ravel", "reshape", "squeeze", "copy"}
STEP_LAYOUT_NP = {"diag", "diagflat", "ravel", "squeeze"}


def dotted(e):
    parts = []
    while isinstance(e, ast.Attribute):
        parts.append(e.attr)
        e = e.value
    if isinstance(e, ast.Name):
        parts.append(e.id)
        return ".".join(reversed(parts))
    return ""


def names_of(node):
    return {n.id for n in ast.walk(node) if isinstance(n, ast.Name)}


def txt(node):
    return ast.unparse(node)


class _Sub(ast.NodeTransformer):
    def __init__(self, a, b):
        self.a, self.b = a, b

    def visit_Name(self, n):
        if n.id == self.a:
            return ast.copy_location(ast.Name(id=self.b, ctx=n.ctx), n)
        return n


_EXPR = {}


def reg(node):
    t = txt(node)
    if t not in _EXPR:
        _EXPR[t] = (ast.parse(t, mode="eval").body, frozenset(names_of(node)))
    return t


def expr_names(t):
    return _EXPR[t][1]


def expr_node(t):
    return _EXPR[t][0]


def subst_text(t, a, b):
    import copy
    n = _Sub(a, b).visit(copy.deepcopy(expr_node(t)))
    return reg(n)


def fact_mentions(f, v):
    k = f[0]
    if k == "eq":
        return f[1] == v or v in expr_names(f[2])
    return v in f[1:]


def fact_rename(f, a, b):
    k = f[0]
    if k == "eq":
        lhs = b if f[1] == a else f[1]
        t = subst_text(f[2], a, b)
        if lhs in expr_names(t):
            return None
        return ("eq", lhs, t)
    return (k,) + tuple(b if x == a else x for x in f[1:])


BOUNDS_RELATIVE = {"safe", "inward", "inpt", "mid"}


class World:
    __slots__ = ("disc", "facts")

    def __init__(self, disc=None, facts=None):
        self.disc = dict(disc or {})
        self.facts = set(facts or ())

    def copy(self):
        return World(self.disc, self.facts)

    def key(self):
        return tuple(sorted(self.disc.items()))

    def has(self, *f):
        return tuple(f) in self.facts

    def eqs(self, v):
        return [f[2] for f in self.facts if f[0] == "eq" and f[1] == v]

    def kill(self, v, inplace=False):
        victims = {v}
        if inplace:
            for f in self.facts:
                if f[0] == "eq" and isinstance(expr_node(f[2]), ast.Name):
                    if f[1] == v:
                        victims.add(f[2])
                    elif f[2] == v:
                        victims.add(f[1])
        self.facts = {f for f in self.facts if not any(fact_mentions(f, x) for x in victims)}
        if v == BOUNDS:
            self.facts = {f for f in self.facts if f[0] not in BOUNDS_RELATIVE}

    def no_bounds(self):
        return self.disc.get(BOUNDS) == "None"


def merge(worlds):
    out = {}
    for w in worlds:
        k = w.key()
        if k in out:
            out[k].facts &= w.facts
        else:
            out[k] = w.copy()
    return list(out.values())


def state_key(worlds):
    return frozenset((w.key(), frozenset(w.facts)) for w in worlds)


def const_text(e):
    """text of a constant-like expression (literal, signed literal, enum member), else None"""
    if isinstance(e, ast.Constant):
        return repr(e.value)
    if isinstance(e, ast.UnaryOp) and isinstance(e.op, ast.USub) and isinstance(e.operand, ast.Constant) \
            and isinstance(e.operand.value, (int, float)):
        return repr(-e.operand.value)
    if isinstance(e, ast.Attribute) and dotted(e) and dotted(e)[0].isupper():
        return dotted(e)
    return None


def num_const(t):
    try:
        v = ast.literal_eval(t)
    except Exception:
        return None
    return v if isinstance(v, (int, float)) and not isinstance(v, bool) else None


class Obl:
    def __init__(self, rule, construct, line, what):
        self.rule, self.construct, self.line, self.what = rule, construct, line, what
        self.ok = True
        self.msg = ""
        self.visits = 0


class Module:
    def __init__(self):
        path = os.path.join(cfront.REPO, FILE)
        try:
            src = open(path).read()
        except OSError as e:
            raise AnalysisError(f"anchor file missing: {FILE} ({e})")
        try:
            self.tree = ast.parse(src)
        except SyntaxError as e:
            raise AnalysisError(f"{FILE} does not parse: {e}")
        self.funcs = {n.name: n for n in self.tree.body if isinstance(n, ast.FunctionDef)}
        self.np = {"np", "numpy"}
        for st in self.tree.body:
            if isinstance(st, ast.Import):
                for al in st.names:
                    if al.name == "numpy":
                        self.np.add(al.asname or "numpy")
        if ENTRY not in self.funcs:
            raise AnalysisError(f"{FILE}: function {ENTRY} not found")
        # residual carriers: (function, parameter) reached by the user's residual callable
        self.carrier = {ENTRY: {RESIDUAL_PARAM}}
        if RESIDUAL_PARAM not in params_of(self.funcs[ENTRY]):
            raise AnalysisError(f"{ENTRY} has no parameter `{RESIDUAL_PARAM}`")
        changed = True
        while changed:
            changed = False
            for fname, fn in self.funcs.items():
                mine = self.carrier.get(fname, set())
                if not mine:
                    continue
                for c in calls_in(fn):
                    if isinstance(c.func, ast.Name) and c.func.id in self.funcs and c.func.id != fname:
                        g = self.funcs[c.func.id]
                        for p, a in bind_call(g, c).items():
                            if isinstance(a, ast.Name) and a.id in mine and not shadowed(fn, a.id):
                                s = self.carrier.setdefault(g.name, set())
                                if p not in s:
                                    s.add(p)
                                    changed = True
        self.requires = {}       # function -> set of parameters that must be safe at every call site


def params_of(fn):
    a = fn.args
    return [x.arg for x in a.posonlyargs + a.args + a.kwonlyargs]


def shadowed(fn, name):
    for n in ast.walk(fn):
        if isinstance(n, ast.Name) and n.id == name and isinstance(n.ctx, ast.Store):
            return True
    return False


def calls_in(fn):
    """Call nodes of fn, not descending into nested function definitions"""
    out = []

    def rec(n, top):
        if isinstance(n, (ast.FunctionDef, ast.Lambda)) and not top:
            return
        if isinstance(n, ast.Call):
            out.append(n)
        for c in ast.iter_child_nodes(n):
            rec(c, False)
    rec(fn, True)
    return out


def bind_call(g, call):
    """callee parameter -> actual expression node (missing = default)"""
    ps = params_of(g)
    out = {}
    for p, a in zip(ps, call.args):
        out[p] = a
    for k in call.keywords:
        if k.arg in ps:
            out[k.arg] = k.value
    return out


class Fn:
    def __init__(self, mod: Module, name, assume_safe=()):
        self.mod = mod
        self.fn = mod.funcs[name]
        self.name = name
        self.params = params_of(self.fn)
        self.carriers = set(mod.carrier.get(name, ()))
        self.assume_safe = set(assume_safe)
        self.obl = {}
        self.loops = []
        self.returns = []
        body = self.fn
        # discriminators: names only ever assigned constant expressions
        defs = {}
        for n in self.own_nodes():
            if isinstance(n, ast.Assign):
                for t in n.targets:
                    self.note_def(defs, t, n.value)
            elif isinstance(n, (ast.AugAssign,)):
                self.note_def(defs, n.target, None)
            elif isinstance(n, ast.AnnAssign) and n.value is not None:
                self.note_def(defs, n.target, n.value)
            elif isinstance(n, (ast.For, ast.comprehension)):
                self.note_def(defs, n.target, None)
            elif isinstance(n, (ast.With, ast.Try, ast.Global, ast.Nonlocal, ast.Match)):
                raise AnalysisError(f"{FILE}:{n.lineno}: {type(n).__name__} is not supported by the C46 engine")
        self.disc_vars = {v for v, rhs in defs.items() if rhs and all(r is not None and const_text(r) is not None for r in rhs)
                          and v not in self.params}
        # roles (least_squares only): iterate = root name of the first returned element; trace = the second
        self.iterate = self.trace = None
        self.candidates = set()
        if name == ENTRY:
            rets = [n for n in self.own_nodes() if isinstance(n, ast.Return)]
            if len(rets) != 1 or not isinstance(rets[0].value, ast.Tuple) or len(rets[0].value.elts) != 2:
                raise AnalysisError(f"{ENTRY}: expected a single `return x, trace`")
            r0 = strip_preserving(rets[0].value.elts[0], mod)
            if not isinstance(r0, ast.Name) or not isinstance(rets[0].value.elts[1], ast.Name):
                raise AnalysisError(f"{ENTRY}: cannot identify the returned iterate / trace variables")
            self.iterate, self.trace = r0.id, rets[0].value.elts[1].id

    def own_nodes(self):
        out = []

        def rec(n, top):
            if isinstance(n, (ast.FunctionDef, ast.Lambda)) and not top:
                return
            out.append(n)
            for c in ast.iter_child_nodes(n):
                rec(c, False)
        rec(self.fn, True)
        return out

    @staticmethod
    def note_def(defs, t, rhs):
        if isinstance(t, ast.Name):
            defs.setdefault(t.id, []).append(rhs)
        elif isinstance(t, (ast.Tuple, ast.List)):
            for e in t.elts:
                Fn.note_def(defs, e, None)

    # ---- obligations
    def oblig(self, node, kind, rule, construct, what):
        k = (id(node), kind)
        if k not in self.obl:
            self.obl[k] = Obl(rule, construct, getattr(node, "lineno", 0), what)
        o = self.obl[k]
        o.visits += 1
        return o

    def fail(self, o, msg):
        if o.ok:
            o.ok = False
            o.msg = msg

    # ---- run
    def run(self):
        w = World()
        for p in self.assume_safe:
            w.facts.add(("safe", p))
        out = self.block(self.fn.body, [w])
        return self

    def block(self, stmts, worlds):
        for st in stmts:
            if not worlds:
                return []
            worlds = merge(self.stmt(st, worlds))
        return worlds

    def stmt(self, st, worlds):
        m = getattr(self, "s_" + type(st).__name__, None)
        if m is None:
            raise AnalysisError(f"{FILE}:{st.lineno}: statement {type(st).__name__} is not supported by the C46 engine")
        return m(st, worlds)

    def s_Pass(self, st, ws):
        return ws

    def s_FunctionDef(self, st, ws):
        for n in ast.walk(st):
            if isinstance(n, (ast.Global, ast.Nonlocal)):
                raise AnalysisError(f"{FILE}:{n.lineno}: nested function rebinding outer names is not supported")
        for w in ws:
            w.kill(st.name)
        return ws

    def s_Assert(self, st, ws):
        self.scan(st.test, ws)
        return ws

    def s_Raise(self, st, ws):
        if st.exc is not None:
            self.scan(st.exc, ws)
        return []

    def s_Expr(self, st, ws):
        self.scan(st.value, ws)
        self.side_effects(st.value, ws)
        return ws

    def s_Return(self, st, ws):
        if st.value is not None:
            self.scan(st.value, ws)
            if self.name == ENTRY:
                e0 = st.value.elts[0]
                o = self.oblig(st, "return", "R-PROVENANCE", f"{self.name}:return(iterate)",
                               "returned point is clipped against the bounds or an accepted safe iterate")
                for w in ws:
                    ok, why = self.arg_safe(e0, w)
                    if not ok:
                        self.fail(o, f"returned `{txt(e0)}` is not bound-safe: {why}")
        return []

    def s_Break(self, st, ws):
        if self.loops:
            self.loops[-1]["breaks"].extend(w.copy() for w in ws)
        return []

    def s_Continue(self, st, ws):
        if self.loops:
            self.loops[-1]["continues"].extend(w.copy() for w in ws)
        return []

    def s_If(self, st, ws):
        self.scan(st.test, ws)
        T, F = self.test(st.test, ws)
        a = self.block(st.body, T)
        b = self.block(st.orelse, F)
        return a + b

    def loop_body(self, st, ws, is_for):
        """one pass: returns (worlds entering exit because the test failed, worlds at the back edge)"""
        if is_for:
            self.scan(st.iter, ws)
            ex = [w.copy() for w in ws]            # the iterator may be exhausted
            T = [w.copy() for w in ws]
            for w in T:
                for n in names_of(st.target):
                    w.kill(n)
                    w.disc.pop(n, None)
        else:
            self.scan(st.test, ws)
            T, ex = self.test(st.test, ws)
        self.loops[-1]["continues"] = []
        out = self.block(st.body, T)
        back = out + self.loops[-1]["continues"]
        return ex, merge(back)

    def loop(self, st, ws, is_for):
        frame = {"breaks": [], "continues": []}
        self.loops.append(frame)
        exits = []
        # peeled first iteration
        ex, head = self.loop_body(st, [w.copy() for w in ws], is_for)
        exits += ex
        seen = None
        for _ in range(50):
            k = state_key(head)
            if k == seen:
                break
            seen = k
            ex, back = self.loop_body(st, [w.copy() for w in head], is_for)
            exits += ex
            head = merge(head + back)
        else:
            raise AnalysisError(f"{FILE}:{st.lineno}: loop fixpoint did not converge")
        # final pass on the converged head so that obligations see the weakest facts
        ex, back = self.loop_body(st, [w.copy() for w in head], is_for)
        exits += ex
        self.loops.pop()
        out = merge(exits)
        if st.orelse:
            out = self.block(st.orelse, out)
        return merge(out + frame["breaks"])

    def s_While(self, st, ws):
        return self.loop(st, ws, False)

    def s_For(self, st, ws):
        return self.loop(st, ws, True)

    def s_AnnAssign(self, st, ws):
        if st.value is None:
            return ws
        fake = ast.Assign(targets=[st.target], value=st.value)
        ast.copy_location(fake, st)
        return self.s_Assign(fake, ws)

    def s_AugAssign(self, st, ws):
        self.scan(st.value, ws)
        t = st.target
        if isinstance(t, ast.Name):
            for w in ws:
                keep = set()
                if isinstance(st.op, ast.Mult) and self.is_pos(st.value, w):
                    keep = {f for f in w.facts if f[0] == "inward" and f[1] == t.id}
                w.kill(t.id, inplace=True)
                w.facts |= keep
                w.disc.pop(t.id, None)
        elif isinstance(t, ast.Subscript):
            root = root_name(t.value)
            for w in ws:
                if root:
                    w.kill(root, inplace=True)
        return ws

    def s_Assign(self, st, ws):
        # v = A if T else B  ==>  if T: v = A  else: v = B
        if isinstance(st.value, ast.IfExp):
            self.scan(st.value.test, ws)
            T, F = self.test(st.value.test, ws)
            a = ast.Assign(targets=st.targets, value=st.value.body)
            b = ast.Assign(targets=st.targets, value=st.value.orelse)
            ast.copy_location(a, st)
            ast.copy_location(b, st)
            return self.s_Assign(a, T) + self.s_Assign(b, F)
        self.scan(st.value, ws)
        self.side_effects(st.value, ws)
        for w in ws:
            for t in st.targets:
                self.assign(t, st.value, w, st)
        return ws

    def assign(self, t, rhs, w, st):
        if isinstance(t, (ast.Tuple, ast.List)):
            for e in t.elts:
                for n in names_of(e):
                    w.kill(n)
                    w.disc.pop(n, None)
            return
        if isinstance(t, ast.Subscript):
            root = root_name(t.value)
            if root is None:
                return
            # bounds[i] = bounds[i].reshape(...) keeps the values of the box
            core = strip_preserving(rhs, self.mod)
            if root == BOUNDS and txt(core) == txt(t):
                return
            w.kill(root, inplace=True)
            return
        if isinstance(t, ast.Attribute):
            return
        if not isinstance(t, ast.Name):
            raise AnalysisError(f"{FILE}:{st.lineno}: unsupported assignment target")
        v = t.id
        new = set()
        # ---- facts generated from the right-hand side, evaluated on the state *before* the kill
        core = strip_preserving(rhs, self.mod)
        if isinstance(rhs, ast.Name):
            for f in w.facts:
                if fact_mentions(f, rhs.id) and not fact_mentions(f, v):
                    g = fact_rename(f, rhs.id, v)
                    if g:
                        new.add(g)
            new.add(("eq", v, reg(rhs)))
        else:
            if v not in names_of(rhs):
                new.add(("eq", v, reg(rhs)))
            if self.is_clip_to_bounds(rhs, w) or (isinstance(core, ast.Name) and w.has("safe", core.id)):
                new.add(("safe", v))
            if self.is_midpoint(rhs, w):
                new.add(("mid", v))
            x = self.inward_step(rhs, w)
            if x:
                new.add(("inward", v, x))
            x = self.inward_point(rhs, w)
            if x:
                new.add(("inpt", v, x))
            if self.good_log(rhs, w, st):
                new.add(("goodlog", v))
        # ---- discriminators
        if v == BOUNDS:
            nl = nullness(rhs)
            if nl is None and isinstance(rhs, ast.Name):
                nl = w.disc.get(BOUNDS) if rhs.id == BOUNDS else None
            keep = w.disc.get(BOUNDS)
            w.kill(v)
            if nl:
                w.disc[BOUNDS] = nl
            else:
                w.disc.pop(BOUNDS, None)
            new = {f for f in new if f[0] not in BOUNDS_RELATIVE}
        else:
            w.kill(v)
            if v in self.disc_vars:
                w.disc[v] = const_text(rhs)
        w.facts |= new
        # ---- R-MUSTPASS: definitions of the iterate
        if self.iterate and v == self.iterate:
            self.iterate_def(st, rhs, w, new)

    # ---- side effects of calls inside an expression (in-place writes)
    def side_effects(self, e, ws):
        for c in walk_calls(e):
            d = dotted(c.func)
            root = d.split(".")[0] if d else ""
            outs = [k.value for k in c.keywords if k.arg == "out"]
            for o in outs:
                for nm in names_of(o):
                    for w in ws:
                        clip = self.is_clip_to_bounds(c, w, allow_out=True)
                        w.kill(nm, inplace=True)
                        if clip and isinstance(o, ast.Name) and isinstance(c.args[0], ast.Name) and c.args[0].id == o.id:
                            w.facts.add(("safe", nm))
                    if self.iterate and nm == self.iterate:
                        self.iterate_inplace(c, ws)
            if root == "mujoco":
                for a in c.args:
                    if isinstance(a, ast.Name):
                        for w in ws:
                            w.kill(a.id, inplace=True)
            if isinstance(c.func, ast.Attribute) and isinstance(c.func.value, ast.Name) and \
                    c.func.attr in ("append", "extend", "insert", "sort", "fill", "clear", "pop", "resize", "put"):
                for w in ws:
                    w.kill(c.func.value.id, inplace=True)

    # ---- scanning an expression for obligations
    def scan(self, e, ws):
        for c in walk_calls(e):
            f = c.func
            if isinstance(f, ast.Name) and f.id in self.carriers and not shadowed(self.fn, f.id):
                self.residual_call(c, ws)
            elif isinstance(f, ast.Name) and f.id in self.mod.funcs and self.mod.carrier.get(f.id):
                self.passthrough_call(c, ws)
            elif self.trace and isinstance(f, ast.Attribute) and isinstance(f.value, ast.Name) and \
                    f.value.id == self.trace and f.attr in ("append", "extend", "insert"):
                self.trace_append(c, ws)

    def role(self, a):
        if isinstance(a, ast.Name):
            if a.id == self.iterate:
                return "iterate"
            if a.id in self.candidates:
                return "candidate"
        return txt(a)

    def find_candidates(self):
        if not self.iterate:
            return
        for n in self.own_nodes():
            if isinstance(n, ast.Assign) and any(isinstance(t, ast.Name) and t.id == self.iterate for t in n.targets) \
                    and isinstance(n.value, ast.Name) and self.in_loop(n):
                self.candidates.add(n.value.id)

    def in_loop(self, node):
        for n in self.own_nodes():
            if isinstance(n, (ast.For, ast.While)):
                for c in ast.walk(n):
                    if c is node:
                        return True
        return False

    def arg_safe(self, a, w):
        if w.no_bounds():
            return True, "no bounds"
        if w.disc.get(BOUNDS) is None and BOUNDS not in self.params:
            return False, f"function has no `{BOUNDS}` parameter to relate the argument to"
        if self.is_clip_to_bounds(a, w):
            return True, "clipped in the call"
        core = strip_preserving(a, self.mod)
        if isinstance(core, ast.Name):
            if w.has("safe", core.id):
                return True, "clipped / safe"
            for f in w.facts:
                if f[0] == "inpt" and f[1] == core.id and w.has("safe", f[2]):
                    return True, "inward finite-difference point"
            defs = w.eqs(core.id)
            return False, (f"`{core.id}` == {defs[0]} is neither clipped against the bounds nor an inward "
                           f"finite-difference point" if defs else f"`{core.id}` has no bound-safe provenance on this path")
        return False, f"`{txt(a)}` is not clipped against the bounds"

    def residual_call(self, c, ws):
        if not c.args:
            return
        a = c.args[0]
        o = self.oblig(c, "residual", "R-PROVENANCE", f"{self.name}:{c.func.id}({self.role(a)})",
                       "argument of the user's residual is bound-safe")
        for w in ws:
            ok, why = self.arg_safe(a, w)
            if not ok:
                self.fail(o, f"`{txt(c)}` evaluates the residual at a point that is not bound-safe when bounds are given: {why}")
                core = strip_preserving(a, self.mod)
                if isinstance(core, ast.Name):
                    w.facts.add(("safe", core.id))          # reported once; assumed safe afterwards (no cascades)

    def passthrough_call(self, c, ws):
        g = self.mod.funcs[c.func.id]
        actual = bind_call(g, c)
        gcar = self.mod.carrier[g.name]
        passed = [p for p in gcar if isinstance(actual.get(p), ast.Name) and actual[p].id in self.carriers]
        req = sorted(self.mod.requires.get(g.name, ()))
        what = ",".join(self.role(actual[p]) if p in actual else "-" for p in req) or "-"
        o = self.oblig(c, "pass", "R-PROVENANCE", f"{self.name}:{g.name}({what})",
                       "callee evaluates the user's residual: its point argument is bound-safe and it receives the same bounds")
        if not passed:
            o.what = "callable passed is not the user's residual (no bound obligation)"
            return
        b = actual.get(BOUNDS)
        for w in ws:
            if w.no_bounds():
                continue
            if b is None or (isinstance(b, ast.Constant) and b.value is None):
                self.fail(o, f"`{txt(c)}` passes the user's residual but not the bounds: the callee will perturb outward")
                continue
            if not (isinstance(b, ast.Name) and b.id == BOUNDS):
                self.fail(o, f"`{txt(c)}` passes bounds `{txt(b)}` that are not the caller's `{BOUNDS}`")
                continue
            for p in req:
                if p not in actual:
                    self.fail(o, f"`{txt(c)}`: required point parameter `{p}` not passed")
                    continue
                ok, why = self.arg_safe(actual[p], w)
                if not ok:
                    self.fail(o, f"`{txt(c)}`: {g.name} evaluates the residual around `{txt(actual[p])}`, which is not bound-safe: {why}")
                    core = strip_preserving(actual[p], self.mod)
                    if isinstance(core, ast.Name):
                        w.facts.add(("safe", core.id))

    # ---- R-MUSTPASS pieces
    def objective_of(self, yname, xname, w):
        """facts y == norm.value(r) and r == residual(x) hold"""
        for t in w.eqs(yname):
            n = expr_node(t)
            if isinstance(n, ast.Call) and dotted(n.func) == f"{NORM_PARAM}.{NORM_METHOD}" and len(n.args) == 1 \
                    and isinstance(n.args[0], ast.Name):
                r = n.args[0].id
                for t2 in w.eqs(r):
                    m = expr_node(t2)
                    if isinstance(m, ast.Call) and isinstance(m.func, ast.Name) and m.func.id in self.carriers \
                            and len(m.args) == 1 and isinstance(m.args[0], ast.Name) and m.args[0].id == xname:
                        return True
        return False

    def accept_ok(self, cand, w):
        x = self.iterate
        for f in w.facts:
            if f[0] != "nonneg":
                continue
            a = f[1]
            for t in w.eqs(a):
                n = expr_node(t)
                reds = []
                if isinstance(n, ast.Name):
                    reds = [n.id]
                elif isinstance(n, ast.BinOp) and isinstance(n.op, ast.Add):
                    reds = [s.id for s in (n.left, n.right) if isinstance(s, ast.Name)]
                for red in reds + [a]:
                    for t2 in (w.eqs(red) if red != a else [t]):
                        m = expr_node(t2)
                        if isinstance(m, ast.BinOp) and isinstance(m.op, ast.Sub) and isinstance(m.left, ast.Name) \
                                and isinstance(m.right, ast.Name):
                            if self.objective_of(m.left.id, x, w) and self.objective_of(m.right.id, cand, w):
                                return True, a
        return False, None

    def iterate_def(self, st, rhs, w, new):
        x = self.iterate
        if not self.in_loop(st):
            o = self.oblig(st, "iterate-init", "R-MUSTPASS", f"{self.name}:iterate-init",
                           "definition of the iterate before the solver loop (initialisation)")
            return
        o = self.oblig(st, "accept", "R-MUSTPASS", f"{self.name}:accept({self.role(rhs)})",
                       "iterate is replaced only by a candidate that passed the sufficient-decrease test")
        if not isinstance(rhs, ast.Name):
            self.fail(o, f"iterate `{x}` is recomputed inside the loop (`{txt(st)}`) instead of accepting a tested candidate")
            return
        # facts were renamed candidate->iterate by the copy; judge on the facts about the candidate
        ok, a = self.accept_ok(rhs.id, self.pre_world)
        if not ok:
            self.fail(o, f"`{txt(st)}` is reachable without a passed sufficient-decrease test "
                         f"(need: a >= 0 on every path with a == (norm.value(residual({x})) - norm.value(residual({rhs.id}))) [+ k])")

    def iterate_inplace(self, c, ws):
        node_in_loop = self.in_loop(c)
        if not node_in_loop:
            return        # initialisation (e.g. the initial clip); its effect is judged by R-PROVENANCE
        o = self.oblig(c, "accept", "R-MUSTPASS", f"{self.name}:accept(in-place)", "iterate modified in place inside the loop")
        self.fail(o, f"`{txt(c)}` modifies the iterate in place inside the solver loop without a sufficient-decrease test")

    def good_log(self, rhs, w, st):
        if not self.iterate:
            return False
        if isinstance(rhs, ast.Call) and dotted(rhs.func).split(".")[-1] == LOG_CLASS:
            kw = {k.arg: k.value for k in rhs.keywords}
            o = self.oblig(rhs, "log", "R-MUSTPASS", f"{self.name}:{LOG_CLASS}",
                           "log entry records the iterate and the objective at that iterate")
            cand, obj = kw.get("candidate"), kw.get("objective")
            if cand is None and rhs.args:
                cand = rhs.args[0]
            if obj is None and len(rhs.args) > 1:
                obj = rhs.args[1]
            if not (isinstance(cand, ast.Name) and cand.id == self.iterate):
                self.fail(o, f"`{LOG_CLASS}` candidate is `{txt(cand) if cand else None}`, not the iterate `{self.iterate}`")
                return False
            if not (isinstance(obj, ast.Name) and self.objective_of(obj.id, self.iterate, w)):
                self.fail(o, f"`{LOG_CLASS}` objective `{txt(obj) if obj else None}` is not norm.value(residual({self.iterate})) on every path")
                return False
            return True
        if isinstance(rhs, ast.Call) and dotted(rhs.func).split(".")[-1] == "replace" and rhs.args and \
                isinstance(rhs.args[0], ast.Name) and w.has("goodlog", rhs.args[0].id):
            if not any(k.arg in ("candidate", "objective", None) for k in rhs.keywords):
                return True
        return False

    def trace_append(self, c, ws):
        o = self.oblig(c, "append", "R-MUSTPASS", f"{self.name}:{self.trace}.{c.func.attr}",
                       "appended entry is a log of (iterate, objective of the iterate)")
        if c.func.attr != "append" or len(c.args) != 1 or not isinstance(c.args[0], ast.Name):
            self.fail(o, f"`{txt(c)}`: cannot relate the appended entries to the iterate")
            return
        for w in ws:
            if not w.has("goodlog", c.args[0].id):
                self.fail(o, f"`{txt(c)}` appends an entry that is not IterLog(candidate=iterate, objective=objective of the iterate) on every path")

    # ---- idioms
    def np_call(self, e):
        """('clip', call) for np.clip(...) etc."""
        if isinstance(e, ast.Call):
            d = dotted(e.func)
            if d and d.split(".")[0] in self.mod.np and len(d.split(".")) >= 2:
                return ".".join(d.split(".")[1:])
        return None

    def bound_row(self, e, i, w):
        if isinstance(e, ast.Subscript) and isinstance(e.value, ast.Name) and e.value.id == BOUNDS and \
                isinstance(e.slice, ast.Constant) and e.slice.value == i:
            return True
        if isinstance(e, ast.Name):
            return any(self.bound_row(strip_preserving(expr_node(t), self.mod), i, w) for t in w.eqs(e.id))
        return False

    def is_clip_to_bounds(self, e, w, allow_out=False):
        name = self.np_call(e)
        if name == "clip":
            kws = {k.arg: k.value for k in e.keywords}
            if "out" in kws and not allow_out:
                return False
            lo = e.args[1] if len(e.args) > 1 else kws.get("a_min", kws.get("min"))
            hi = e.args[2] if len(e.args) > 2 else kws.get("a_max", kws.get("max"))
            return lo is not None and hi is not None and self.bound_row(lo, 0, w) and self.bound_row(hi, 1, w)
        if isinstance(e, ast.Call) and isinstance(e.func, ast.Attribute) and e.func.attr == "clip" and not self.np_call(e):
            if len(e.args) == 2 and not e.keywords:
                return self.bound_row(e.args[0], 0, w) and self.bound_row(e.args[1], 1, w)
        if name in ("minimum", "maximum") and len(e.args) == 2 and not e.keywords:
            # min(max(v, lo), hi)  or  max(min(v, hi), lo)
            other = "maximum" if name == "minimum" else "minimum"
            row_outer, row_inner = (1, 0) if name == "minimum" else (0, 1)
            for a, b in ((e.args[0], e.args[1]), (e.args[1], e.args[0])):
                if self.np_call(a) == other and len(a.args) == 2 and self.bound_row(b, row_outer, w):
                    if self.bound_row(a.args[0], row_inner, w) or self.bound_row(a.args[1], row_inner, w):
                        return True
        return False

    def is_half(self, e):
        return isinstance(e, ast.Constant) and e.value == 0.5

    def is_midpoint(self, e, w):
        def b(x, i):
            return self.bound_row(x, i, w)

        def pair_sum(x):
            return isinstance(x, ast.BinOp) and isinstance(x.op, ast.Add) and \
                ((b(x.left, 0) and b(x.right, 1)) or (b(x.left, 1) and b(x.right, 0)))

        def half_of(x, i):
            return isinstance(x, ast.BinOp) and isinstance(x.op, ast.Mult) and \
                ((self.is_half(x.left) and b(x.right, i)) or (self.is_half(x.right) and b(x.left, i))) or \
                (isinstance(x, ast.BinOp) and isinstance(x.op, ast.Div) and b(x.left, i) and
                 isinstance(x.right, ast.Constant) and x.right.value == 2)
        if isinstance(e, ast.BinOp):
            if isinstance(e.op, ast.Add) and ((half_of(e.left, 0) and half_of(e.right, 1)) or
                                              (half_of(e.left, 1) and half_of(e.right, 0))):
                return True
            if isinstance(e.op, ast.Div) and pair_sum(e.left) and isinstance(e.right, ast.Constant) and e.right.value == 2:
                return True
            if isinstance(e.op, ast.Mult) and ((self.is_half(e.left) and pair_sum(e.right)) or
                                               (self.is_half(e.right) and pair_sum(e.left))):
                return True
        name = self.np_call(e)
        if name == "mean" and e.args and isinstance(e.args[0], ast.Name) and e.args[0].id == BOUNDS:
            return any(k.arg == "axis" and isinstance(k.value, ast.Constant) and k.value.value == 0 for k in e.keywords)
        return False

    def is_pos(self, e, w):
        if isinstance(e, ast.Constant) and isinstance(e.value, (int, float)) and not isinstance(e.value, bool):
            return e.value > 0
        name = self.np_call(e)
        if name == "maximum" and len(e.args) == 2:
            return any(self.is_pos(a, w) for a in e.args)
        if name in ("exp",):
            return True
        if isinstance(e, ast.BinOp) and isinstance(e.op, (ast.Mult, ast.Div)):
            return self.is_pos(e.left, w) and self.is_pos(e.right, w)
        if isinstance(e, ast.BinOp) and isinstance(e.op, ast.Add):
            l, r = e.left, e.right
            nn = lambda x: self.np_call(x) in ("abs", "absolute", "square") or self.is_pos(x, w)
            return (self.is_pos(l, w) and nn(r)) or (self.is_pos(r, w) and nn(l))
        return False

    def inward_step(self, e, w):
        """returns X when e is a step pointing from X toward the middle of the box"""
        name = self.np_call(e)
        if name == "where" and len(e.args) == 3 and isinstance(e.args[0], ast.Compare) and \
                len(e.args[0].ops) == 1:
            c = e.args[0]
            l, r, op = c.left, c.comparators[0], c.ops[0]
            above = None          # True when the condition means "x above mid"
            x = None
            if isinstance(l, ast.Name) and isinstance(r, ast.Name):
                if w.has("mid", r.id):
                    x = l.id
                    above = True if isinstance(op, (ast.Gt, ast.GtE)) else False if isinstance(op, (ast.Lt, ast.LtE)) else None
                elif w.has("mid", l.id):
                    x = r.id
                    above = True if isinstance(op, (ast.Lt, ast.LtE)) else False if isinstance(op, (ast.Gt, ast.GtE)) else None
            if x is None or above is None:
                return None
            t, f = e.args[1], e.args[2]
            neg, posv = (t, f) if above else (f, t)
            # step is -E above the middle and +E below it, E the (positive) finite-difference step
            if isinstance(neg, ast.UnaryOp) and isinstance(neg.op, ast.USub) and txt(neg.operand) == txt(posv):
                return x
            return None
        # rounding idiom (s + x) - x keeps the sign of s (monotone rounding)
        if isinstance(e, ast.BinOp) and isinstance(e.op, ast.Sub) and isinstance(e.right, ast.Name) and \
                isinstance(e.left, ast.BinOp) and isinstance(e.left.op, ast.Add):
            x = e.right.id
            for s, y in ((e.left.left, e.left.right), (e.left.right, e.left.left)):
                if isinstance(s, ast.Name) and isinstance(y, ast.Name) and y.id == x and w.has("inward", s.id, x):
                    return x
        # scaling by a positive factor
        if isinstance(e, ast.BinOp) and isinstance(e.op, ast.Mult):
            for s, k in ((e.left, e.right), (e.right, e.left)):
                if isinstance(s, ast.Name) and self.is_pos(k, w):
                    for f in w.facts:
                        if f[0] == "inward" and f[1] == s.id:
                            return f[2]
        return None

    def step_core(self, e):
        while True:
            if isinstance(e, ast.Call) and isinstance(e.func, ast.Attribute) and e.func.attr in STEP_LAYOUT_METHODS \
                    and not self.np_call(e):
                e = e.func.value
            elif self.np_call(e) in STEP_LAYOUT_NP and e.args:
                e = e.args[0]
            elif isinstance(e, ast.Attribute) and e.attr == "T":
                e = e.value
            else:
                return e

    def inward_point(self, e, w):
        if isinstance(e, ast.BinOp) and isinstance(e.op, ast.Add):
            for x, s in ((e.left, e.right), (e.right, e.left)):
                if isinstance(x, ast.Name):
                    core = self.step_core(s)
                    if isinstance(core, ast.Name) and w.has("inward", core.id, x.id):
                        return x.id
        return None

    # ---- tests
    def test(self, e, ws):
        T, F = [], []
        for w in ws:
            t, f = self.test1(e, w)
            T += t
            F += f
        return T, F

    def test1(self, e, w):
        if isinstance(e, ast.UnaryOp) and isinstance(e.op, ast.Not):
            t, f = self.test1(e.operand, w)
            return f, t
        if isinstance(e, ast.BoolOp):
            if isinstance(e.op, ast.And):
                cur, F = [w], []
                for v in e.values:
                    nxt = []
                    for x in cur:
                        t, f = self.test1(v, x)
                        nxt += t
                        F += f
                    cur = nxt
                return cur, F
            cur, T = [w], []
            for v in e.values:
                nxt = []
                for x in cur:
                    t, f = self.test1(v, x)
                    T += t
                    nxt += f
                cur = nxt
            return T, cur
        if isinstance(e, ast.Name) and e.id in self.disc_vars and w.disc.get(e.id) in ("True", "False"):
            return ([w.copy()], []) if w.disc[e.id] == "True" else ([], [w.copy()])
        if isinstance(e, ast.Compare) and len(e.ops) == 1:
            l, op, r = e.left, e.ops[0], e.comparators[0]
            # nullness of the bounds
            if isinstance(op, (ast.Is, ast.IsNot)) and isinstance(l, ast.Name) and l.id == BOUNDS and \
                    isinstance(r, ast.Constant) and r.value is None:
                cur = w.disc.get(BOUNDS)
                isnone, notnone = w.copy(), w.copy()
                isnone.disc[BOUNDS] = "None"
                notnone.disc[BOUNDS] = "NotNone"
                a = [isnone] if cur in (None, "None") else []
                b = [notnone] if cur in (None, "NotNone") else []
                return (a, b) if isinstance(op, ast.Is) else (b, a)
            # discriminator == / != constant
            if isinstance(op, (ast.Eq, ast.NotEq)) and isinstance(l, ast.Name) and l.id in self.disc_vars and \
                    const_text(r) is not None and w.disc.get(l.id) is not None:
                same = w.disc[l.id] == const_text(r)
                truth = same if isinstance(op, ast.Eq) else not same
                return ([w.copy()], []) if truth else ([], [w.copy()])
            # v < 0 and friends
            v, rel = None, None
            if isinstance(l, ast.Name) and num_const(const_text(r) or "") == 0:
                v, rel = l.id, type(op)
            elif isinstance(r, ast.Name) and num_const(const_text(l) or "") == 0:
                v = r.id
                rel = {ast.Lt: ast.Gt, ast.Gt: ast.Lt, ast.LtE: ast.GtE, ast.GtE: ast.LtE}.get(type(op))
            if v is not None and rel in (ast.Lt, ast.GtE):
                consts = [num_const(t) for t in w.eqs(v) if num_const(t) is not None]
                if consts:
                    truth = consts[0] < 0 if rel is ast.Lt else consts[0] >= 0
                    return ([w.copy()], []) if truth else ([], [w.copy()])
                t, f = w.copy(), w.copy()
                (f if rel is ast.Lt else t).facts.add(("nonneg", v))
                return [t], [f]
        return [w.copy()], [w.copy()]


def nullness(e):
    if isinstance(e, ast.Constant):
        return "None" if e.value is None else "NotNone"
    if isinstance(e, (ast.List, ast.Tuple, ast.Dict, ast.ListComp, ast.BinOp)):
        return "NotNone"
    if isinstance(e, ast.Call) and isinstance(e.func, ast.Name) and e.func.id in ("list", "tuple"):
        return "NotNone"
    return None


def root_name(e):
    while isinstance(e, (ast.Subscript, ast.Attribute)):
        e = e.value
    return e.id if isinstance(e, ast.Name) else None


def strip_preserving(e, mod):
    """remove value-preserving wrappers: x.reshape(..), np.asarray(x), x.copy(), x.T stays (layout only)"""
    while True:
        if isinstance(e, ast.Call) and isinstance(e.func, ast.Attribute) and e.func.attr in VALUE_PRESERVING_METHODS \
                and not (dotted(e.func).split(".")[0] in mod.np):
            e = e.func.value
        elif isinstance(e, ast.Call) and dotted(e.func).split(".")[0] in mod.np and \
                ".".join(dotted(e.func).split(".")[1:]) in VALUE_PRESERVING_NP and e.args and \
                not any(k.arg == "dtype" for k in e.keywords):
            e = e.args[0]
        else:
            return e


def walk_calls(e):
    out = []

    def rec(n):
        if isinstance(n, (ast.Lambda, ast.FunctionDef)):
            return
        for c in ast.iter_child_nodes(n):
            rec(c)
        if isinstance(n, ast.Call):
            out.append(n)
    rec(e)
    return out


# the assign() hook needs the pre-state of the world for accept sites: wrap s_Assign's per-world loop
_orig_assign = Fn.assign


def _assign_with_pre(self, t, rhs, w, st):
    self.pre_world = w.copy()
    return _orig_assign(self, t, rhs, w, st)


Fn.assign = _assign_with_pre


def analyse(mod: Module, name, assume=()):
    f = Fn(mod, name, assume_safe=assume)
    f.find_candidates()
    f.run()
    return f


def run(res, tier):
    _EXPR.clear()
    mod = Module()
    res.trusted = ["CPython 3.11 ast parser"]
    for anchor in ("jacobian_fd", "check_jacobian"):
        if anchor not in mod.funcs or not mod.carrier.get(anchor):
            raise AnalysisError(f"{FILE}: {anchor} no longer receives the residual callable from {ENTRY}")
    res.rule("R-PROVENANCE", "every residual evaluation (direct or through jacobian_fd/check_jacobian) and the returned "
             "point are clipped against the bounds or inward finite-difference points, in every world with bounds",
             floor=FLOOR_PROVENANCE)
    res.rule("R-MUSTPASS", "the iterate is replaced only by a candidate that passed the sufficient-decrease test; logs "
             "record (iterate, its objective); the trace appends such logs", floor=FLOOR_MUSTPASS)

    # callee requirements: parameters that must be safe at the call sites (minimal: drop one assumption at a time)
    order = [n for n in mod.funcs if mod.carrier.get(n) and n != ENTRY]
    for _ in range(len(order) + 1):
        for name in order:
            ps = [p for p in params_of(mod.funcs[name]) if p not in mod.carrier[name] and p != BOUNDS]
            full = analyse(mod, name, ps)
            bad_full = {k for k, o in full.obl.items() if not o.ok}
            req = set()
            for p in ps:
                part = analyse(mod, name, [q for q in ps if q != p])
                if {k for k, o in part.obl.items() if not o.ok} - bad_full:
                    req.add(p)
            mod.requires[name] = req
    analysed = {}
    for name in mod.funcs:
        if mod.carrier.get(name) or any(isinstance(c.func, ast.Name) and mod.carrier.get(c.func.id)
                                       for c in calls_in(mod.funcs[name])):
            assume = sorted(mod.requires.get(name, ())) if name != ENTRY else ()
            analysed[name] = analyse(mod, name, assume)
    res.count("functions", len(analysed))
    nworlds = 0
    for name, f in analysed.items():
        for o in sorted(f.obl.values(), key=lambda o: (o.line, o.construct)):
            if o.ok:
                res.ok(o.rule, o.construct, {"file": FILE, "line": o.line, "obligation": o.what})
            else:
                res.bad(o.rule, o.construct, FILE, o.line, o.msg)
    ls = analysed[ENTRY]
    if not ls.candidates:
        raise AnalysisError(f"{ENTRY}: no acceptance assignment `{ls.iterate} = <candidate>` found in the solver loop")
    res.extra["residual_carriers"] = {k: sorted(v) for k, v in mod.carrier.items()}
    res.extra["callee_requires_safe"] = {k: sorted(v) for k, v in mod.requires.items()}
    res.extra["roles"] = {"iterate": ls.iterate, "trace": ls.trace, "candidates": sorted(ls.candidates),
                          "discriminators": sorted(ls.disc_vars)}
    res.explanation = (
        "Path-sensitive must-fact analysis of minimize.py (ast only): worlds are partitioned by the nullness of "
        "`bounds` and by constant-valued discriminators (status, flags); facts are variable equalities, branch facts "
        "(a >= 0), and bound provenance (safe / inward step / inward point / midpoint). Decided: the argument of every "
        "residual evaluation and the returned point are clipped against the bounds or inward FD points whenever bounds "
        "are given; the iterate is only replaced by a candidate whose sufficient-decrease test passed on every path; "
        "each IterLog pairs the iterate with its own objective and only such logs are appended to the trace.")
    res.not_decided = ("that grad.T @ dx <= 0 for the boxQP step (so that passing the test implies decrease), the global "
                       "minimum for linear residuals, rounding inside np.clip.")
    res.assumptions = ["user callables (residual, jacobian, norm, iter_callback) do not modify their arguments",
                       "the finite-difference step eps is positive and the box is wider than the step (property precondition)",
                       "mujoco.mju_* calls may write any array argument (their facts are dropped)"]
