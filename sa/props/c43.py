"""C43 MJX reproduces the MuJoCo C engine — the cross-language *structural* part (R-XLANG).

Python side: mjx/mujoco/mjx/_src/*.py parsed with `ast` (never imported).  C side: include/mujoco as type-checked by
clang (sa.cheaders); the sensor stage table is the compiler's `sensorNeedstage` switch in src/user/user_objects.cc,
cut out of the C++ file by a small lexer and type-checked by clang as C against the public headers.

Decided
  R-XLANG-ENUM    every `mujoco.mjtE` / `mujoco.mjtE.mjNAME` spelled anywhere in MJX names an enum typedef / an
                  enumerator of that very enum in the headers; every `mujoco.mj*_fn` / `mujoco.mjCONST` names a
                  public function / object-like macro.
  R-XLANG-MIRROR  every enum class of types.py whose members are bound to `mujoco.mjtE.mjP_NAME` mirrors ONE C enum,
                  and member NAME is bound to the enumerator spelled mjP_NAME (no crossed wires).
  R-XLANG-GATE    every IntEnum/IntFlag mirror that omits value enumerators of its C enum is gated on the JAX
                  put_model path: a `raise NotImplementedError` guarded by `x not in set(types.E)` or by a non-empty
                  `set(field) - set(types.E)` (the (field, types.E, mujoco.mjtE) table rows of _put_model_jax are
                  enumerated row by row, and each row must name the C enum that E mirrors and an mjModel field).
  R-XLANG-ATTR    every attribute read `p.a[.b]` on a parameter annotated mujoco.MjModel/MjData/MjOption/MjStatistic
                  in io.py is a member of the corresponding C struct (nested structs followed through the C field
                  types), and every `getattr(p, f.name)` copy loop over `types.K.fields()` (K = Model, Option,
                  OptionJAX, Statistic) only names C members — unless the getattr has a default / hasattr filter AND
                  the name is assigned in the same function (derived field).
  R-XLANG-STAGE   each SensorType member is handled by exactly the MJX stage function (sensor_pos/vel/acc select rows
                  with m.sensor_needstage == mjSTAGE_X) whose stage the C compiler assigns to that sensor type, and
                  no stage function handles a type the compiler assigns elsewhere.
Not decided: numerical agreement of the pipelines (needs execution), Warp/C++ back ends.
"""
from __future__ import annotations

import ast
import os

from .. import cheaders
from ..cfront import REPO, AnalysisError

LEVEL = "other"
MJX = "mjx/mujoco/mjx/_src"

# -- reasoned exceptions, one named symbol each --------------------------------------------------------------------
# Partial mirrors that are deliberately not gated by a `set(E)` membership test.
GATE_EXCEPTIONS = {
    "DisableBit": "IntFlag of feature switches: an omitted bit (midphase, autoreset, native CCD, island, multi-CCD) can "
                  "only switch OFF a C feature that MJX does not have; IntFlag construction keeps unknown bits, nothing "
                  "is computed from them. Verified below: the class is an enum.IntFlag.",
    "GeomType": "gated through the collision table instead: _put_model_jax raises NotImplementedError when "
                "collision_driver.has_collision_fn(t1, t2) is false for a colliding pair; geoms of other types that "
                "never collide (visual only) do not enter the dynamics. Verified below: that guarded raise exists.",
}
# Attribute names of the Python binding objects that are not C struct members are read from the binding source
# itself: python/mujoco/structs.cc, `<wrapper>.def_property_readonly("name", ...)` (see binding_attrs()).
BINDING_SRC = "python/mujoco/structs.cc"
BINDING_WRAPPERS = {"mjModel": "mjModel", "mjData": "mjData", "mjOption": "mjOption", "mjStatistic": "mjStatistic",
                    "mjContact": "mjContact", "mjContactList": "mjContact"}

C_OBJECT_TYPES = {"MjModel": "mjModel", "MjData": "mjData", "MjOption": "mjOption", "MjStatistic": "mjStatistic",
                  "_MjContactList": "mjContact"}


# --------------------------------------------------------------------------------------
# python helpers


def load_sources(repo):
    d = os.path.join(repo, MJX)
    if not os.path.isdir(d):
        raise AnalysisError(f"anchor vanished: {MJX}")
    out = {}
    for f in sorted(os.listdir(d)):
        if f.endswith(".py"):
            p = os.path.join(d, f)
            try:
                with open(p, encoding="utf-8") as fh:
                    out[f] = ast.parse(fh.read(), filename=p)
            except SyntaxError as e:
                raise AnalysisError(f"{MJX}/{f}: not parseable: {e}")
    for need in ("io.py", "types.py", "sensor.py", "collision_driver.py"):
        if need not in out:
            raise AnalysisError(f"anchor vanished: {MJX}/{need}")
    return out


def chain(node):
    """(root name, [attr, ...]) of an attribute chain a.b.c, or None."""
    parts = []
    x = node
    while isinstance(x, ast.Attribute):
        parts.append(x.attr)
        x = x.value
    if isinstance(x, ast.Name):
        return x.id, parts[::-1]
    return None


def maximal_chains(tree):
    """All maximal Name-rooted attribute chains: [(root, parts, node)]."""
    inner = set()
    out = []
    for n in ast.walk(tree):
        if isinstance(n, ast.Attribute) and isinstance(n.value, ast.Attribute):
            inner.add(id(n.value))
    for n in ast.walk(tree):
        if isinstance(n, ast.Attribute) and id(n) not in inner:
            c = chain(n)
            if c:
                out.append((c[0], c[1], n))
    return out


def imports_mujoco(tree):
    for n in tree.body:
        if isinstance(n, ast.Import):
            for a in n.names:
                if a.name == "mujoco" and (a.asname or "mujoco") == "mujoco":
                    return True
    return False


def functions(tree):
    return {n.name: n for n in tree.body if isinstance(n, ast.FunctionDef)}


def types_classes(tree):
    """types.py: {class: {"bases": [...], "fields": [names], "members": {NAME: (mjtE, mjNAME, line)}, "line"}}"""
    out = {}
    for n in tree.body:
        if not isinstance(n, ast.ClassDef):
            continue
        bases = []
        for b in n.bases:
            c = chain(b) if isinstance(b, ast.Attribute) else ((b.id, []) if isinstance(b, ast.Name) else None)
            bases.append(".".join([c[0]] + c[1]) if c else "?")
        fields, members = [], {}
        for st in n.body:
            if isinstance(st, ast.AnnAssign) and isinstance(st.target, ast.Name):
                fields.append(st.target.id)
            elif isinstance(st, ast.Assign) and len(st.targets) == 1 and isinstance(st.targets[0], ast.Name):
                c = chain(st.value) if isinstance(st.value, ast.Attribute) else None
                if c and c[0] == "mujoco" and len(c[1]) == 2 and c[1][0].startswith("mjt"):
                    members[st.targets[0].id] = (c[1][0], c[1][1], st.lineno)
        out[n.name] = {"bases": bases, "fields": fields, "members": members, "line": n.lineno}
    return out


def class_fields(classes, name, seen=()):
    """Dataclass fields of types.<name> including local bases; None if a base lives in another module."""
    c = classes.get(name)
    if c is None or name in seen:
        return None
    out = []
    for b in c["bases"]:
        if b in ("PyTreeNode", "object"):
            continue
        if b in classes:
            sub = class_fields(classes, b, seen + (name,))
            if sub is None:
                return None
            out += [f for f in sub if f not in out]
        else:
            return None
    out += [f for f in c["fields"] if f not in out]
    return out


# --------------------------------------------------------------------------------------
# (a) enumerator / symbol references


def check_symbols(res, H, sources):
    res.rule("R-XLANG-ENUM", "every mujoco.mjtE[.mjNAME], mujoco.mj_fn, mujoco.mjCONST spelled in MJX exists in the C "
             "headers (enumerator in that very enum)", floor=250)
    seen = set()
    for fname, tree in sources.items():
        if not imports_mujoco(tree):
            continue
        for root, parts, node in maximal_chains(tree):
            if root != "mujoco" or not parts:
                continue
            if parts[0] == "_enums":
                parts = parts[1:]
                if not parts:
                    continue
            p0 = parts[0]
            rel = f"{MJX}/{fname}"
            if p0.startswith("mjt") and p0[3:4].isupper():
                names = H.enumerators(p0)
                key = (fname, p0)
                if names is None or p0 not in H.typedefs:
                    if key not in seen:
                        seen.add(key)
                        res.bad("R-XLANG-ENUM", f"{fname}:{p0}", rel, node.lineno,
                                f"mujoco.{p0} is not an enum of the public headers")
                    continue
                if len(parts) >= 2 and parts[1].startswith("mj"):
                    key = (fname, p0, parts[1])
                    if key in seen:
                        continue
                    seen.add(key)
                    if parts[1] in names:
                        res.ok("R-XLANG-ENUM", f"{fname}:{p0}.{parts[1]}",
                               {"value": names[parts[1]], "where": f"{rel}:{node.lineno}"})
                    else:
                        owner = [e["name"] for e in H.enums.values() if parts[1] in dict(e["values"])]
                        res.bad("R-XLANG-ENUM", f"{fname}:{p0}.{parts[1]}", rel, node.lineno,
                                f"mujoco.{p0}.{parts[1]}: enum {p0} has no enumerator {parts[1]}"
                                + (f" (it belongs to {owner[0]})" if owner else ""))
                else:
                    if key not in seen:
                        seen.add(key)
                        res.ok("R-XLANG-ENUM", f"{fname}:{p0}", None)
            elif p0.startswith(("mj_", "mju_", "mjv_", "mjr_", "mjs_", "mjd_", "mjp_", "mjui_")):
                key = (fname, p0)
                if key in seen:
                    continue
                seen.add(key)
                if p0 in H.functions:
                    res.ok("R-XLANG-ENUM", f"{fname}:{p0}", None)
                else:
                    res.bad("R-XLANG-ENUM", f"{fname}:{p0}", rel, node.lineno,
                            f"mujoco.{p0} is not a function of the public headers")
            elif p0.startswith("mj") and p0[2:3].isupper() and p0.upper() == p0.replace("mj", "MJ", 1):
                key = (fname, p0)
                if key in seen:
                    continue
                seen.add(key)
                if p0 in H.macro_names or p0 in H.consts:
                    res.ok("R-XLANG-ENUM", f"{fname}:{p0}", {"kind": "macro" if p0 in H.macro_names else "enumerator"})
                else:
                    res.bad("R-XLANG-ENUM", f"{fname}:{p0}", rel, node.lineno,
                            f"mujoco.{p0} is neither a macro nor an enumerator of the public headers")


# --------------------------------------------------------------------------------------
# (a2) mirrors


def mirrors(res, H, classes):
    """Returns {class: {"cenum": mjtE, "partial": [omitted C value enumerators], "kind": base}}."""
    res.rule("R-XLANG-MIRROR", "every types.py enum member NAME bound to mujoco.mjtE.mjP_NAME mirrors one C enum and the "
             "enumerator of the same name", floor=110)
    rel = f"{MJX}/types.py"
    out = {}
    for cname, c in classes.items():
        if not c["members"]:
            continue
        count = {}
        for e, _, _ in c["members"].values():
            count[e] = count.get(e, 0) + 1
        enums = sorted(count, key=lambda e: (-count[e], e))
        main = enums[0]
        cen = H.enumerators(main)
        if cen is None:
            for mname, (e, cn, line) in c["members"].items():
                res.bad("R-XLANG-MIRROR", f"{cname}.{mname}", rel, line, f"{cname} mirrors {main}, which the headers do "
                        f"not declare")
            continue
        used = {}
        for mname, (e, cn, line) in c["members"].items():
            key = f"{cname}.{mname}"
            if e != main:
                res.bad("R-XLANG-MIRROR", key, rel, line, f"{key} = mujoco.{e}.{cn}, but {cname} mirrors {main}: members of "
                        f"several C enums are mixed")
                continue
            if cn not in cen:
                res.bad("R-XLANG-MIRROR", key, rel, line, f"{key} = mujoco.{e}.{cn}: no such enumerator in {e}")
                continue
            tail = cn.split("_", 1)[1] if "_" in cn else cn
            if tail != mname:
                res.bad("R-XLANG-MIRROR", key, rel, line, f"{key} is bound to mujoco.{e}.{cn} (expected the enumerator "
                        f"named ..._{mname}): crossed mirror")
                continue
            if cn in used:
                res.bad("R-XLANG-MIRROR", key, rel, line, f"{key} and {cname}.{used[cn]} are both bound to {cn}")
                continue
            used[cn] = mname
            res.ok("R-XLANG-MIRROR", key, {"c": f"{e}.{cn}", "value": cen[cn]})
        # value enumerators of the C enum: those sharing the prefix (mjJNT_) of the mirrored ones; count sentinels
        # (mjNDISABLE, mjNGEOMTYPES ...) do not
        prefixes = {cn.split("_", 1)[0] + "_" for _, cn, _ in c["members"].values() if "_" in cn}
        omitted = [n for n in cen if n not in used and any(n.startswith(p) for p in prefixes)]
        kind = next((b for b in c["bases"] if b.startswith("enum.")), c["bases"][0] if c["bases"] else "?")
        out[cname] = {"cenum": main, "partial": omitted, "kind": kind, "line": c["line"]}
    return out


# --------------------------------------------------------------------------------------
# (b) gates


def _is_nie(raise_node):
    e = raise_node.exc
    if isinstance(e, ast.Call):
        e = e.func
    return isinstance(e, ast.Name) and e.id == "NotImplementedError"


def _assigned(fn, name):
    """All values assigned to local `name` in function `fn` (flow-insensitive)."""
    out = []
    for n in ast.walk(fn):
        if isinstance(n, ast.Assign):
            for t in n.targets:
                if isinstance(t, ast.Name) and t.id == name:
                    out.append(n.value)
        elif isinstance(n, ast.AnnAssign) and isinstance(n.target, ast.Name) and n.target.id == name and n.value:
            out.append(n.value)
        elif isinstance(n, ast.NamedExpr) and n.target.id == name:
            out.append(n.value)
    return out


def _loop_rows(fn, name):
    """If `name` is an element of a tuple for-target iterating a literal tuple of tuples: list of
    (row tuple node, index)."""
    out = []
    for n in ast.walk(fn):
        if isinstance(n, ast.For) and isinstance(n.target, ast.Tuple) and isinstance(n.iter, (ast.Tuple, ast.List)):
            names = [t.id if isinstance(t, ast.Name) else None for t in n.target.elts]
            if name in names:
                i = names.index(name)
                for row in n.iter.elts:
                    if not isinstance(row, (ast.Tuple, ast.List)) or len(row.elts) != len(names):
                        raise AnalysisError(f"{MJX}/io.py:{n.lineno}: gate table row is not a {len(names)}-tuple")
                    out.append((row, i, names))
    return out


def _enum_of(expr, fn):
    """types.E classes an expression may denote: [(E, row or None)]."""
    if isinstance(expr, ast.Attribute):
        c = chain(expr)
        if c and c[0] == "types" and len(c[1]) == 1:
            return [(c[1][0], None)]
        return []
    if isinstance(expr, ast.Name):
        out = []
        for row, i, names in _loop_rows(fn, expr.id):
            for e, _ in _enum_of(row.elts[i], fn):
                out.append((e, (row, names)))
        return out
    return []


def _set_arg(expr):
    if isinstance(expr, ast.Call) and isinstance(expr.func, ast.Name) and expr.func.id == "set" and len(expr.args) == 1 \
            and not expr.keywords:
        return expr.args[0]
    return None


def _gated_in(test, fn, depth=0):
    """[(E, row, tested expression)] for membership shapes inside a guard expression."""
    out = []
    if depth > 4:
        return out
    for n in ast.walk(test):
        if isinstance(n, ast.Compare) and len(n.ops) == 1:
            arg = _set_arg(n.comparators[0])
            if arg is not None and isinstance(n.ops[0], ast.NotIn):
                out += [(e, row, n.left) for e, row in _enum_of(arg, fn)]
        elif isinstance(n, ast.UnaryOp) and isinstance(n.op, ast.Not) and isinstance(n.operand, ast.Compare) \
                and len(n.operand.ops) == 1 and isinstance(n.operand.ops[0], ast.In):
            arg = _set_arg(n.operand.comparators[0])
            if arg is not None:
                out += [(e, row, n.operand.left) for e, row in _enum_of(arg, fn)]
        elif isinstance(n, ast.BinOp) and isinstance(n.op, ast.Sub):
            arg, larg = _set_arg(n.right), _set_arg(n.left)
            if arg is not None and larg is not None:
                out += [(e, row, larg) for e, row in _enum_of(arg, fn)]
        elif isinstance(n, ast.Name) and isinstance(n.ctx, ast.Load):
            for v in _assigned(fn, n.id):
                out += _gated_in(v, fn, depth + 1)
    return out


def jax_put_root(io_funcs):
    """The function put_model dispatches to for types.Impl.JAX."""
    pm = io_funcs.get("put_model")
    if pm is None:
        raise AnalysisError(f"{MJX}/io.py: anchor vanished: put_model")
    for n in ast.walk(pm):
        if isinstance(n, ast.If):
            cs = [c for c in maximal_chains(n.test)]
            if any(r == "types" and p == ["Impl", "JAX"] for r, p, _ in cs):
                for st in n.body:
                    for call in ast.walk(st):
                        if isinstance(call, ast.Call) and isinstance(call.func, ast.Name) and call.func.id in io_funcs:
                            return call.func.id
    raise AnalysisError(f"{MJX}/io.py: put_model has no `if impl == types.Impl.JAX: return <local function>(...)` branch")


def reachable(io_funcs, root):
    seen, todo = set(), [root]
    while todo:
        f = todo.pop()
        if f in seen or f not in io_funcs:
            continue
        seen.add(f)
        for n in ast.walk(io_funcs[f]):
            if isinstance(n, ast.Call) and isinstance(n.func, ast.Name) and n.func.id in io_funcs:
                todo.append(n.func.id)
    return seen


def check_gates(res, H, sources, classes, mir):
    res.rule("R-XLANG-GATE", "every partial IntEnum/IntFlag mirror is gated by a NotImplementedError membership test on "
             "the JAX put_model path; gate table rows are coherent (field in mjModel, C enum = mirrored enum)", floor=22)
    io = sources["io.py"]
    io_funcs = functions(io)
    root = jax_put_root(io_funcs)
    reach = reachable(io_funcs, root)
    rel = f"{MJX}/io.py"
    gates = {}      # E -> list of dict(fn, line, field, row)
    other_guards = []
    for fname in sorted(reach):
        fn = io_funcs[fname]
        for n in ast.walk(fn):
            if not isinstance(n, ast.If):
                continue
            if not any(isinstance(s, ast.Raise) and _is_nie(s) for s in n.body):
                continue
            hits = _gated_in(n.test, fn)
            for e, row, tested in hits:
                gates.setdefault(e, []).append({"fn": fname, "line": n.lineno, "row": row, "tested": tested})
            if not hits:
                other_guards.append((fname, n))
    # coherence of table rows / tested fields
    model_fields = set(H.public_fields("mjModel"))
    option_fields = set(H.public_fields("mjOption"))
    for e, gl in sorted(gates.items()):
        for g in gl:
            m = mir.get(e)
            if m is None:
                res.bad("R-XLANG-GATE", f"gate:{e}", rel, g["line"], f"gate tests membership in types.{e}, which is not "
                        f"a mirror of a C enum in types.py")
                continue
            problems = []
            field = None
            exprs = []
            if g["row"] is not None:
                row, names = g["row"]
                exprs = list(row.elts)
            else:
                exprs = [g["tested"]]
            for x in exprs:
                c = chain(x) if isinstance(x, ast.Attribute) else None
                if not c:
                    continue
                if c[0] == "mujoco" and len(c[1]) == 1 and c[1][0].startswith("mjt"):
                    if c[1][0] != m["cenum"]:
                        problems.append(f"row names mujoco.{c[1][0]} but types.{e} mirrors {m['cenum']}")
                elif len(c[1]) == 1 and c[0] in ("m", "o") or (c[0] not in ("types", "mujoco") and len(c[1]) == 1):
                    field = c[1][0]
                    if field not in model_fields and field not in option_fields:
                        problems.append(f"tested field {c[0]}.{field} is not a member of mjModel/mjOption")
            key = f"gate:{e}" + (f":{field}" if field else "")
            if problems:
                res.bad("R-XLANG-GATE", key, rel, g["line"], "; ".join(problems))
            else:
                res.ok("R-XLANG-GATE", key, {"function": g["fn"], "where": f"{rel}:{g['line']}", "field": field,
                                             "c_enum": m["cenum"]})
    # every partial mirror needs a gate
    for cname, m in sorted(mir.items()):
        if not m["kind"].startswith(("enum.IntEnum", "enum.IntFlag")):
            continue
        if not m["partial"]:
            continue
        key = f"partial:{cname}"
        if cname in gates:
            res.ok("R-XLANG-GATE", key, {"omits": m["partial"][:6], "n_omitted": len(m["partial"]),
                                         "gated_in": sorted({g['fn'] for g in gates[cname]})})
            continue
        if cname in GATE_EXCEPTIONS:
            ok, why = _verify_exception(cname, m, other_guards, sources)
            if ok:
                res.ok("R-XLANG-GATE", key, {"exception": GATE_EXCEPTIONS[cname], "verified": why,
                                             "omits": m["partial"][:6]})
                continue
            res.bad("R-XLANG-GATE", key, f"{MJX}/types.py", m["line"], f"types.{cname} omits {m['partial']} of "
                    f"{m['cenum']}; its documented alternative gate no longer holds: {why}")
            continue
        res.bad("R-XLANG-GATE", key, f"{MJX}/types.py", m["line"],
                f"types.{cname} omits {m['partial']} of {m['cenum']} but no `raise NotImplementedError` guarded by a "
                f"membership test against set(types.{cname}) is reachable from {root}: a model using an omitted value "
                f"is accepted by put_model and silently mis-simulated")
    res.extra["gate_root"] = root
    res.extra["gate_functions"] = sorted(reach)
    return gates


def _verify_exception(cname, m, other_guards, sources):
    if cname == "DisableBit":
        return (m["kind"] == "enum.IntFlag", f"base class is {m['kind']}")
    if cname == "GeomType":
        for fname, n in other_guards:
            t = n.test
            if isinstance(t, ast.UnaryOp) and isinstance(t.op, ast.Not) and isinstance(t.operand, ast.Call):
                c = chain(t.operand.func) if isinstance(t.operand.func, ast.Attribute) else None
                if c and c[1] and c[1][-1] == "has_collision_fn":
                    cd = functions(sources["collision_driver.py"])
                    if "has_collision_fn" in cd:
                        return True, f"{fname}: `if not ...has_collision_fn(t1, t2): raise NotImplementedError` at line {n.lineno}"
        return False, "no `if not collision_driver.has_collision_fn(...): raise NotImplementedError` on the put path"
    return False, "no verifier"


# --------------------------------------------------------------------------------------
# (c) attribute reads on C objects


def binding_attrs(repo):
    """{C struct: {attribute names the pybind11 wrapper defines explicitly}} from python/mujoco/structs.cc.

    C members are exposed through X-macros; everything else the wrapper class offers is spelled as a string literal in
    a `.def*("name"` call on the wrapper variable.  Only non-dunder names are kept."""
    import re
    path = os.path.join(repo, BINDING_SRC)
    try:
        with open(path, encoding="utf-8", errors="replace") as f:
            src = f.read()
    except OSError:
        raise AnalysisError(f"anchor vanished: {BINDING_SRC}")
    out = {}
    for m in re.finditer(r"\b([A-Za-z_][A-Za-z0-9_]*)\s*\.\s*def(?:_[a-z_]+)?\(\s*\"([^\"]+)\"", src):
        st = BINDING_WRAPPERS.get(m.group(1))
        if st and not (m.group(2).startswith("__") and m.group(2).endswith("__")):
            out.setdefault(st, set()).add(m.group(2))
    if "_address" not in out.get("mjModel", ()):
        raise AnalysisError(f"{BINDING_SRC}: anchor vanished: mjModel.def_property_readonly(\"_address\", ...)")
    return out


class _ScopedChains(ast.NodeVisitor):
    """Maximal attribute chains rooted at the given names, skipping nested scopes that rebind the name
    (comprehension targets, lambda / nested function parameters)."""

    def __init__(self, names):
        self.names = set(names)
        self.out = []

    def _rebinding(self, node):
        bound = set()
        if isinstance(node, (ast.ListComp, ast.SetComp, ast.DictComp, ast.GeneratorExp)):
            for g in node.generators:
                for t in ast.walk(g.target):
                    if isinstance(t, ast.Name):
                        bound.add(t.id)
        elif isinstance(node, (ast.Lambda, ast.FunctionDef, ast.AsyncFunctionDef)):
            a = node.args
            for p in a.posonlyargs + a.args + a.kwonlyargs + ([a.vararg] if a.vararg else []) + ([a.kwarg] if a.kwarg else []):
                bound.add(p.arg)
        return bound

    def generic_visit(self, node):
        bound = self._rebinding(node) & self.names if not getattr(node, "_root", False) else set()
        if bound:
            saved = self.names
            self.names = self.names - bound
            super().generic_visit(node)
            self.names = saved
        else:
            super().generic_visit(node)

    def visit_Attribute(self, node):
        c = chain(node)
        if c and c[0] in self.names:
            self.out.append((c[0], c[1], node))
            return          # maximal: do not descend into the chain itself
        self.generic_visit(node)


def scoped_chains(fn, names):
    v = _ScopedChains(names)
    fn._root = True
    try:
        v.generic_visit(fn)
    finally:
        del fn._root
    return v.out


def c_params(fn):
    """{param name: C struct} for parameters annotated with exactly mujoco.<C object type>."""
    out = {}
    a = fn.args
    for p in a.posonlyargs + a.args + a.kwonlyargs:
        ann = p.annotation
        c = chain(ann) if isinstance(ann, ast.Attribute) else None
        if c and c[0] == "mujoco" and c[1] and c[1][-1] in C_OBJECT_TYPES and all(x.startswith("_") for x in c[1][:-1]):
            out[p.arg] = C_OBJECT_TYPES[c[1][-1]]
    # a parameter that is rebound in the function's own scope is no longer known to be the C object
    # (comprehension targets and nested function parameters live in their own scope: handled by scoped_chains)
    def own_scope(node):
        for ch in ast.iter_child_nodes(node):
            if isinstance(ch, (ast.ListComp, ast.SetComp, ast.DictComp, ast.GeneratorExp, ast.Lambda,
                               ast.FunctionDef, ast.AsyncFunctionDef)):
                continue
            yield ch
            yield from own_scope(ch)
    for n in own_scope(fn):
        if isinstance(n, ast.Name) and isinstance(n.ctx, ast.Store) and n.id in out:
            out.pop(n.id)
    return out


def struct_of_field(H, struct, field):
    """C struct typedef name that member `field` of `struct` denotes (by value or pointer), else None."""
    f = H.field(struct, field)
    if f is None or f["anon"] is not None:
        return None
    try:
        t = cheaders.parse_type(f["t"])
    except AnalysisError:
        return None
    while t[0] in ("ptr", "arr"):
        t = t[1]
    if t[0] != "val":
        return None
    n = t[1]
    if n in H.typedefs and H.struct(n) is not None:
        return n
    for td, v in H.typedefs.items():
        if v["t"] == n and H.struct(td) is not None:
            return td
    return None


def iter_functions(tree):
    for n in ast.walk(tree):
        if isinstance(n, (ast.FunctionDef, ast.AsyncFunctionDef)):
            yield n


def derived_names(fn):
    """Names stored into dicts by constant key in `fn`: X['k'] = ..., X.update(k=...), dict(k=...) literals."""
    out = set()
    for n in ast.walk(fn):
        if isinstance(n, (ast.Assign, ast.AugAssign)):
            tg = n.targets if isinstance(n, ast.Assign) else [n.target]
            for t in tg:
                if isinstance(t, ast.Subscript) and isinstance(t.slice, ast.Constant) and isinstance(t.slice.value, str):
                    out.add(t.slice.value)
        elif isinstance(n, ast.Call) and isinstance(n.func, ast.Attribute) and n.func.attr == "update":
            for kw in n.keywords:
                if kw.arg:
                    out.add(kw.arg)
    return out


def getattr_copies(fn, cobj, classes):
    """Copy loops `getattr(p, f.name[, default]) for f in types.K.fields() [if ...]` in function `fn`.

    Returns [dict(param, struct, klass, names, tolerant, excluded, line, foreign)].
    """
    out = []
    for comp in ast.walk(fn):
        if not isinstance(comp, (ast.DictComp, ast.SetComp, ast.ListComp, ast.GeneratorExp)):
            continue
        if len(comp.generators) != 1:
            continue
        gen = comp.generators[0]
        if not isinstance(gen.target, ast.Name):
            continue
        var = gen.target.id
        elts = [comp.key, comp.value] if isinstance(comp, ast.DictComp) else [comp.elt]
        calls = [c for e in elts for c in ast.walk(e)
                 if isinstance(c, ast.Call) and isinstance(c.func, ast.Name) and c.func.id == "getattr"
                 and len(c.args) >= 2 and isinstance(c.args[0], ast.Name) and c.args[0].id in cobj]
        if not calls:
            continue
        call = calls[0]
        key = call.args[1]
        by_attr = isinstance(key, ast.Attribute) and isinstance(key.value, ast.Name) and key.value.id == var \
            and key.attr == "name"
        by_name = isinstance(key, ast.Name) and key.id == var
        if not (by_attr or by_name):
            continue
        tolerant = len(call.args) >= 3
        excluded = set()
        conds = list(gen.ifs)
        it = gen.iter
        if by_name:
            # iterating a set of names built earlier: {f.name for f in types.K.fields() if ...}
            if not isinstance(it, ast.Name):
                raise AnalysisError(f"{MJX}/io.py:{comp.lineno}: cannot resolve the names iterated by the getattr copy loop")
            srcs = [v for v in _assigned(fn, it.id) if isinstance(v, (ast.SetComp, ast.ListComp))]
            if len(srcs) != 1 or len(srcs[0].generators) != 1:
                raise AnalysisError(f"{MJX}/io.py:{comp.lineno}: cannot resolve the names iterated by the getattr copy loop")
            g2 = srcs[0].generators[0]
            e2 = srcs[0].elt
            if not (isinstance(e2, ast.Attribute) and e2.attr == "name" and isinstance(e2.value, ast.Name)
                    and isinstance(g2.target, ast.Name) and e2.value.id == g2.target.id):
                raise AnalysisError(f"{MJX}/io.py:{srcs[0].lineno}: unsupported field-name set")
            var2 = g2.target.id
            it = g2.iter
            conds += list(g2.ifs)
        else:
            var2 = var
        for cnd in conds:
            if isinstance(cnd, ast.Compare) and len(cnd.ops) == 1 and isinstance(cnd.ops[0], ast.NotEq) \
                    and isinstance(cnd.comparators[0], ast.Constant) and isinstance(cnd.comparators[0].value, str):
                excluded.add(cnd.comparators[0].value)
            elif isinstance(cnd, ast.Call) and isinstance(cnd.func, ast.Name) and cnd.func.id == "hasattr":
                tolerant = True
            else:
                raise AnalysisError(f"{MJX}/io.py:{comp.lineno}: unsupported filter in a getattr copy loop")
        klasses = _fields_iter(it, fn)
        if klasses is None:
            raise AnalysisError(f"{MJX}/io.py:{comp.lineno}: getattr copy loop does not iterate <class>.fields()")
        for k, foreign in klasses:
            names = None if foreign else class_fields(classes, k)
            out.append({"param": call.args[0].id, "struct": cobj[call.args[0].id], "klass": k,
                        "names": None if names is None else [x for x in names if x not in excluded],
                        "tolerant": tolerant, "excluded": sorted(excluded), "line": comp.lineno,
                        "foreign": foreign or names is None})
    return out


def _fields_iter(it, fn, depth=0):
    """[(class name, foreign?)] for `types.K.fields()` / a local bound to a dict of such classes."""
    if isinstance(it, ast.Call) and isinstance(it.func, ast.Attribute) and it.func.attr == "fields" and not it.args:
        return _klass(it.func.value, fn, depth)
    return None


def _klass(x, fn, depth=0):
    if isinstance(x, ast.Attribute):
        c = chain(x)
        if c and c[0] == "types" and len(c[1]) == 1:
            return [(c[1][0], False)]
        if c:
            return [(".".join([c[0]] + c[1]), True)]
        return None
    if isinstance(x, ast.Name) and depth < 3:
        out = []
        for v in _assigned(fn, x.id):
            if isinstance(v, ast.Subscript) and isinstance(v.value, ast.Dict):
                for dv in v.value.values:
                    r = _klass(dv, fn, depth + 1)
                    if r is None:
                        return None
                    out += r
            else:
                r = _klass(v, fn, depth + 1)
                if r is None:
                    return None
                out += r
        return out or None
    return None


def check_attrs(res, H, sources, classes, structs=("mjModel", "mjOption", "mjStatistic", "mjData", "mjContact"),
                copy_structs=("mjModel", "mjOption", "mjStatistic"), rule="R-XLANG-ATTR", explicit=True):
    io = sources["io.py"]
    rel = f"{MJX}/io.py"
    fields = {s: set(H.public_fields(s)) for s in ("mjModel", "mjOption", "mjStatistic", "mjData", "mjContact")}
    battrs = binding_attrs(H.repo)
    seen = set()
    n_explicit = n_copy = 0
    skipped_foreign = []
    for fn in iter_functions(io):
        cobj = c_params(fn)
        if not cobj:
            continue
        if explicit:
            for root, parts, node in scoped_chains(fn, cobj):
                struct = cobj[root]
                path = root
                for i, a in enumerate(parts):
                    if struct not in structs:
                        break
                    key = (fn.name, struct, a)
                    path += "." + a
                    if a in fields[struct]:
                        if key not in seen:
                            seen.add(key)
                            n_explicit += 1
                            res.ok(rule, f"{fn.name}:{struct}.{a}", {"where": f"{rel}:{node.lineno}", "expr": path})
                    elif a in battrs.get(struct, ()):
                        if key not in seen:
                            seen.add(key)
                            res.ok(rule, f"{fn.name}:{struct}.{a}", {"binding_attribute": f"defined by {BINDING_SRC}"})
                        break
                    else:
                        if key not in seen:
                            seen.add(key)
                            res.bad(rule, f"{fn.name}:{struct}.{a}", rel, node.lineno,
                                    f"{path}: struct {struct} has no member {a} (AttributeError at run time, or a "
                                    f"stale name after a C-side rename)")
                        break
                    nxt = struct_of_field(H, struct, a)
                    if nxt is None or nxt not in fields:
                        break
                    struct = nxt
        for cp in getattr_copies(fn, cobj, classes):
            if cp["struct"] not in copy_structs:
                continue
            if cp["foreign"]:
                skipped_foreign.append(f"{fn.name}:{cp['klass']}")
                continue
            der = derived_names(fn)
            for name in cp["names"]:
                key = (fn.name, "copy", cp["klass"], name)
                if key in seen:
                    continue
                seen.add(key)
                n_copy += 1
                construct = f"{fn.name}:{cp['klass']}.{name}"
                if name in fields[cp["struct"]]:
                    res.ok(rule, construct, {"copied_from": f"{cp['struct']}.{name}", "where": f"{rel}:{cp['line']}"})
                elif name in battrs.get(cp["struct"], ()):
                    res.ok(rule, construct, {"binding_attribute": f"defined by {BINDING_SRC}"})
                elif cp["tolerant"] and name in der:
                    res.ok(rule, construct, {"derived_in": fn.name, "where": f"{rel}:{cp['line']}"})
                elif cp["tolerant"]:
                    res.bad(rule, construct, rel, cp["line"],
                            f"types.{cp['klass']}.{name} is copied by getattr({cp['param']}, name, default) but "
                            f"{cp['struct']} has no member {name} and {fn.name} never assigns it: the field is silently "
                            f"None / missing")
                else:
                    res.bad(rule, construct, rel, cp["line"],
                            f"types.{cp['klass']}.{name} is copied by getattr({cp['param']}, {name!r}) but {cp['struct']} "
                            f"has no member {name}: put fails with AttributeError")
    return n_explicit, n_copy, sorted(set(skipped_foreign))


# --------------------------------------------------------------------------------------
# (d) sensor stages


def c_sensor_stages(repo):
    rel = "src/user/user_objects.cc"
    path = os.path.join(repo, rel)
    if not os.path.isfile(path):
        raise AnalysisError(f"anchor vanished: {rel}")
    text, line = cheaders.extract_function_text(path, "sensorNeedstage")
    with open(path, encoding="utf-8", errors="replace") as f:
        src = f.read()
    # the compiler must actually use it to set needstage
    flat = "".join(src.split())
    if "needstage=sensorNeedstage(" not in flat:
        raise AnalysisError(f"{rel}: anchor vanished: `needstage = sensorNeedstage(type)` in mjCSensor::Compile")
    node = cheaders.parse_c_function(repo, text, "sensorNeedstage")
    return cheaders.switch_table(node), rel, line


def _sensor_members(expr, fn, loopvar_ok=True):
    """SensorType member names denoted by the right-hand side of a comparison with the loop variable."""
    def one(x):
        if isinstance(x, ast.Call) and isinstance(x.func, ast.Name) and x.func.id == "int" and len(x.args) == 1:
            x = x.args[0]
        c = chain(x) if isinstance(x, ast.Attribute) else None
        if c and c[1] and ((c[0] == "SensorType" and len(c[1]) == 1) or (c[0] == "types" and c[1][0] == "SensorType"
                                                                          and len(c[1]) == 2)):
            return c[1][-1]
        return None
    m = one(expr)
    if m:
        return [m]
    if isinstance(expr, (ast.Set, ast.Tuple, ast.List)):
        out = [one(e) for e in expr.elts]
        return out if all(out) else None
    if isinstance(expr, ast.Dict):
        out = [one(k) for k in expr.keys]
        return out if all(out) else None
    if isinstance(expr, ast.Name):
        vals = _assigned(fn, expr.id)
        if len(vals) == 1:
            return _sensor_members(vals[0], fn)
    return None


def mjx_sensor_stages(tree):
    """{stage enumerator: (function, line, [handled SensorType members])}"""
    rel = f"{MJX}/sensor.py"
    out = {}
    for fn in functions(tree).values():
        stages = set()
        for n in ast.walk(fn):
            if isinstance(n, ast.Compare) and len(n.ops) == 1 and isinstance(n.ops[0], ast.Eq):
                for a, b in ((n.left, n.comparators[0]), (n.comparators[0], n.left)):
                    ca = chain(a) if isinstance(a, ast.Attribute) else None
                    cb = chain(b) if isinstance(b, ast.Attribute) else None
                    if ca and cb and ca[1][-1:] == ["sensor_needstage"] and cb[0] == "mujoco" and cb[1][:1] == ["mjtStage"] \
                            and len(cb[1]) == 2:
                        stages.add(cb[1][1])
        if not stages:
            continue
        if len(stages) != 1:
            raise AnalysisError(f"{rel}:{fn.lineno}: {fn.name} selects several stages {sorted(stages)}")
        stage = stages.pop()
        # the dispatch loop: `for v in ...:` whose body has an if/elif chain comparing v with SensorType members
        handled = None
        for loop in ast.walk(fn):
            if not isinstance(loop, ast.For) or not isinstance(loop.target, ast.Name):
                continue
            v = loop.target.id
            for st in loop.body:
                if not isinstance(st, ast.If):
                    continue
                members = []
                cur = st
                ok = True
                while True:
                    t = cur.test
                    mm = None
                    if isinstance(t, ast.Compare) and len(t.ops) == 1 and isinstance(t.left, ast.Name) and t.left.id == v \
                            and isinstance(t.ops[0], (ast.Eq, ast.In)):
                        mm = _sensor_members(t.comparators[0], fn)
                    if mm is None:
                        ok = False
                        break
                    members += mm
                    if len(cur.orelse) == 1 and isinstance(cur.orelse[0], ast.If):
                        cur = cur.orelse[0]
                        continue
                    break
                if ok and members:
                    if handled is not None:
                        raise AnalysisError(f"{rel}:{st.lineno}: {fn.name} has two sensor dispatch chains")
                    handled = (members, st.lineno)
        if handled is None:
            raise AnalysisError(f"{rel}:{fn.lineno}: {fn.name} selects {stage} but has no recognisable "
                                f"`if sensor_type == SensorType.X ... elif ...` dispatch chain")
        if stage in out:
            raise AnalysisError(f"{rel}: two functions select {stage}")
        out[stage] = (fn.name, handled[1], handled[0])
    return out


def check_stages(res, H, sources, classes, repo):
    res.rule("R-XLANG-STAGE", "each SensorType member is handled by exactly the MJX stage function of the stage the C "
             "compiler (sensorNeedstage) assigns to it", floor=30)
    ctab, crel, cline = c_sensor_stages(repo)
    senum = H.enumerators("mjtSensor")
    stenum = H.enumerators("mjtStage")
    if senum is None or stenum is None:
        raise AnalysisError("anchor vanished: enum mjtSensor / mjtStage")
    missing = [s for s in senum if s.startswith("mjSENS_") and s not in ctab]
    if missing:
        raise AnalysisError(f"{crel}:{cline}: sensorNeedstage has no case for {missing}")
    st = mjx_sensor_stages(sources["sensor.py"])
    rel = f"{MJX}/sensor.py"
    unknown = [s_ for s_ in st if s_ not in stenum]
    for s_ in unknown:
        fname, line, _ = st.pop(s_)
        res.bad("R-XLANG-STAGE", f"{fname}:stage", rel, line, f"{fname} selects rows with m.sensor_needstage == "
                f"mujoco.mjtStage.{s_}, which is not an enumerator of mjtStage")
    want = {"mjSTAGE_POS", "mjSTAGE_VEL", "mjSTAGE_ACC"}
    if not want <= set(stenum):
        raise AnalysisError("anchor vanished: mjSTAGE_POS/VEL/ACC")
    if set(st) - want or (want - set(st) and not unknown):
        raise AnalysisError(f"{MJX}/sensor.py: expected stage functions for POS, VEL, ACC; found {sorted(st)}")
    sens = classes.get("SensorType")
    if not sens or not sens["members"]:
        raise AnalysisError(f"{MJX}/types.py: anchor vanished: SensorType")
    where = {}
    for stage, (fname, line, members) in st.items():
        for m in members:
            where.setdefault(m, []).append((stage, fname, line))
    for m, (e, cn, mline) in sorted(sens["members"].items()):
        key = f"SensorType.{m}"
        cstage = ctab.get(cn)
        if cstage is None:
            res.bad("R-XLANG-STAGE", key, crel, cline, f"{cn} has no case in sensorNeedstage")
            continue
        hs = where.get(m, [])
        if not hs:
            res.bad("R-XLANG-STAGE", key, rel, st[cstage][1] if cstage in st else 0,
                    f"{key} passes the put_model gate but no MJX stage function handles it (C computes it at {cstage}; "
                    f"{st[cstage][0] if cstage in st else '?'} falls into `continue`): sensordata stays 0")
            continue
        wrong = [h for h in hs if h[0] != cstage]
        if wrong or len(hs) != 1:
            h = (wrong or hs)[0]
            res.bad("R-XLANG-STAGE", key, rel, h[2], f"{key} is handled in {[x[1] for x in hs]} but the C compiler assigns "
                    f"{cn} to {cstage} ({crel}:{cline}): the branch never sees its rows")
            continue
        res.ok("R-XLANG-STAGE", key, {"c_stage": cstage, "mjx_function": hs[0][1], "c_table": f"{crel}:{cline}"})
    for m, hs in sorted(where.items()):
        if m not in sens["members"]:
            res.bad("R-XLANG-STAGE", f"SensorType.{m}", rel, hs[0][2], f"{hs[0][1]} dispatches on SensorType.{m}, which "
                    f"types.SensorType does not define")
    res.extra["c_sensor_stage_table"] = {"source": f"{crel}:{cline}", "cases": len(ctab)}
    res.extra["mjx_stage_functions"] = {s: {"function": f, "handled": len(m)} for s, (f, _, m) in st.items()}


# --------------------------------------------------------------------------------------


def run(res, tier):
    repo = os.path.abspath(REPO)
    H = cheaders.load(repo)
    sources = load_sources(repo)
    classes = types_classes(sources["types.py"])
    check_symbols(res, H, sources)
    mir = mirrors(res, H, classes)
    check_gates(res, H, sources, classes, mir)
    res.rule("R-XLANG-ATTR", "every attribute read / getattr copy on mujoco.MjModel/MjData/MjOption/MjStatistic objects in "
             "io.py names a member of the C struct (or a derived field assigned in the same function)", floor=900)
    n_explicit, n_copy, foreign = check_attrs(res, H, sources, classes)
    check_stages(res, H, sources, classes, repo)
    res.count("mjx_files", len(sources))
    res.count("mirror_classes", len(mir))
    res.count("partial_mirrors", sum(1 for m in mir.values() if m["partial"]))
    res.count("explicit_attribute_reads", n_explicit)
    res.count("getattr_copied_fields", n_copy)
    res.extra["mirrors"] = {k: {"c_enum": v["cenum"], "kind": v["kind"], "omitted": v["partial"]} for k, v in mir.items()}
    res.extra["copy_loops_over_foreign_classes_not_decided"] = foreign
    res.extra["gate_exceptions"] = GATE_EXCEPTIONS
    res.trusted = ["clang 14 parser/type checker (JSON AST)", "CPython ast module (parsing only)",
                   "the Python bindings expose exactly the C enums/struct members under their C names (C49 ties the "
                   "introspect metadata, from which the bindings are generated, to the headers)"]
    res.explanation = (
        "Cross-language structural agreement between MJX (Python ast) and the C headers / C model compiler (clang): "
        "enumerator and API names spelled in MJX exist in C; types.py enum mirrors are bound name-for-name to one C enum; "
        "every mirror that omits C values is gated by a NotImplementedError membership test reachable from the JAX "
        "put_model path (gate rows checked for coherence); attribute reads and getattr copy loops on C objects in io.py "
        "name C struct members; the sensor types each MJX stage function handles are exactly those the C compiler assigns "
        "to that stage (sensorNeedstage, type-checked by clang).")
    res.not_decided = ("numerical agreement of forward dynamics/step with the C engine; semantics of each gate beyond "
                       "membership (e.g. feature combinations such as implicitfast+fluid, contact sensor modes); Warp and "
                       "C++ back ends (copy loops over classes defined outside types.py are listed, not decided); "
                       "GeomType and DisableBit are covered by the documented alternative arguments in gate_exceptions.")
    res.assumptions = ["parameters annotated mujoco.MjModel/MjData/MjOption/MjStatistic hold those binding objects",
                       "IntEnum(value)/set(Enum) membership semantics of CPython's enum module"]
